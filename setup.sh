#!/bin/sh
# offline: build /verif/.venv on top of /venv (the repo's interpreter and deps) + z3/cvc5 wheels
set -e
HERE="$(cd "$(dirname "$0")" && pwd)"
cd "$HERE"
if [ ! -x .venv/bin/python ] || ! .venv/bin/python -c 'import z3, jsonschema, jinja2' 2>/dev/null; then
  rm -rf .venv
  /venv/bin/python -m venv .venv
  echo "import site; site.addsitedir('/venv/lib/python3.12/site-packages')" > .venv/lib/python3.12/site-packages/_repo_deps.pth
  PIP_NO_INDEX=1 .venv/bin/pip install -q --no-index --find-links /opt/veriftools/wheels z3-solver cvc5 jsonschema
fi
.venv/bin/python -c 'import z3, jinja2, markupsafe; print("setup ok", z3.get_version_string())'
