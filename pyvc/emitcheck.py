"""Emission obligations: a predicate over every feasible path's parsed skeleton."""
from __future__ import annotations

import ast
import time
import traceback
import z3

from .contract import Task, Res
from .values import Unsupported, CheckerError
from . import emit


class EmitTask(Task):
    """Runs the real `method` of the code generator symbolically on an abstract node of
    `node_cls` and checks `predicate(schema, tree, placeholders, text) -> list[str] failures`
    on every instantiation of every feasible path.

    mode: 'expr' parses the emitted text as an expression, 'stmts' as a statement list,
    'raw' hands the text over unparsed (tree is None).
    """

    kind = "emission"

    def __init__(self, prop, name, method, node_cls, predicate, mode="expr", buffers=(None,), replay_fn=None,
                 generator_cls=None, node_fields=None, configure=None, extra_args=(), pre=None, min_paths=1,
                 env_fields=None, frame_flags=None, gen_fields=None, path_filter=None, extra_kwargs=None, closure=None,
                 install_opts=None):
        self.prop = prop
        self.name = name
        self.method = method
        self.node_cls = node_cls
        self.predicate = predicate
        self.mode = mode
        self.buffers = buffers
        self.replay_fn = replay_fn
        self.kw = dict(generator_cls=generator_cls, node_fields=node_fields, configure=configure, extra_args=extra_args,
                       pre=pre, env_fields=env_fields, frame_flags=frame_flags, gen_fields=gen_fields, extra_kwargs=extra_kwargs,
                       install_opts=install_opts)
        self.min_paths = min_paths
        self.path_filter = path_filter
        self.closure = closure

    def schemas(self):
        out = []
        for buf in self.buffers:
            target = self.closure() if self.closure else self.method
            scs, I = emit.run_visitor(target, self.node_cls, buffer=buf, **self.kw)
            for sc in scs:
                sc.buffer = buf
            out += scs
        return out

    def run(self, tier, seed):
        t0 = time.time()
        try:
            scs = self.schemas()
        except Unsupported as ex:
            return [Res(self.name + ".engine", "unknown", "pyvc-emit", time.time() - t0, f"unsupported: {ex}", self.kind)]
        res = []
        n_checked = 0
        for i, sc in enumerate(scs):
            if self.path_filter and not self.path_filter(sc):
                continue
            t1 = time.time()
            fails = []
            try:
                if sc.outcome == "raise":
                    fails += self.predicate(sc, None, {}, None) or []
                else:
                    for txt, ph in sc.texts():
                        tree = None
                        if self.mode == "expr":
                            try:
                                tree = emit.parse_expr(txt)
                            except SyntaxError as ex:
                                fails.append(f"emitted text is not a Python expression: {txt!r} ({ex.msg})")
                                continue
                        elif self.mode == "stmts":
                            try:
                                tree = emit.parse_stmts(txt)
                            except SyntaxError as ex:
                                fails.append(f"emitted text is not a Python statement list: {txt!r} ({ex.msg})")
                                continue
                        fails += self.predicate(sc, tree, ph, txt) or []
            except Unsupported as ex:
                res.append(Res(f"{self.name}#p{i}", "unknown", "pyvc-emit", time.time() - t1, f"unsupported in predicate: {ex}", self.kind))
                continue
            n_checked += 1
            if fails:
                res.append(Res(f"{self.name}#p{i}", "refuted", "pyvc-emit", time.time() - t1,
                               f"schema `{sc.describe()[:300]}` under {[str(c)[:50] for c in sc.pc][:6]}: " + "; ".join(fails[:3]),
                               self.kind, witness={"schema": sc.describe()[:500], "path_condition": [str(c) for c in sc.pc][:12], "buffer": sc.buffer}))
            else:
                res.append(Res(f"{self.name}#p{i}", "discharged", "pyvc-emit", time.time() - t1, "", self.kind))
        if n_checked < self.min_paths:
            res.append(Res(self.name + ".paths", "error", "pyvc-emit", 0, f"only {n_checked} paths checked (< {self.min_paths})", self.kind))
        return res

    def replay(self, witness):
        if self.replay_fn:
            return self.replay_fn(witness)
        return (None, "no native replay")
