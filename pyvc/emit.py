"""Emission contracts: symbolic execution of the real CodeGenerator methods.

The *effect* of a `visit_*` method is the text it writes.  The method's real body is
executed by the symbolic interpreter over an abstract node (fields typed from the node
class annotations), an abstract frame and an abstract environment whose flags
(`is_async`, `sandboxed`, `volatile`, `autoescape`, ...) are symbolic.  The output stream is
ghost state: a list of *pieces*

    str                      literal text written
    Hole(path, kind, cls)    `self.visit(child, frame)` of an abstract child (expr / stmt)
    Sym str                  text computed from node data (`{attr!r}`, identifiers)
    Rep(alternatives)        a loop over an abstract child list (body executed once on a
                             generic element; see `for_abstract`)

Every feasible path yields one *schema*; `Schema.render()` instantiates repetitions 0, 1
and 2 times, replaces holes by placeholder identifiers and parses the result with `ast`,
so contracts are predicates over the *parsed skeleton*, not over text.
"""
from __future__ import annotations

import ast
import inspect
import itertools
import re
import typing
import z3

from .values import (
    Sym, Ref, BoundMethod, Closure, Exc, SSeq, HObj, HList, HDict, HSet, HIter, Event, State,
    Unsupported, CheckerError, fresh, fresh_name, sym, Obj,
)
from .interp import Raised, Ctl, OK, seq, is_host
from .smt import to_term, check_sat
from . import models, abstract as A
from .contract import Task, Res

import jinja2.nodes as N
import jinja2.compiler as C
import jinja2.idtracking as IDT
from jinja2.environment import Environment

# fields annotated `Node` that are expressions
EXPR_FIELDS = {("For", "iter"), ("For", "target"), ("For", "test"), ("If", "test"), ("ExprStmt", "node"), ("Assign", "node")}


class Hole:
    def __init__(self, path, kind, cls, ref=None):
        self.path = path
        self.kind = kind  # 'expr' | 'stmt'
        self.cls = cls
        self.ref = ref

    def __repr__(self):
        return f"⟦{self.path}:{self.kind}⟧"


class Rep:
    def __init__(self, path, alternatives):
        self.path = path
        self.alternatives = alternatives  # list[list[piece]]
        self.first = None  # alternatives of the first iteration when they differ (enumerate loops)

    def __repr__(self):
        return f"Rep<{self.path}>{self.alternatives!r}"


class AbsIter:
    """opaque iterable derived from an abstract child list"""
    is_abstract_iterable = True

    def __init__(self, desc, src):
        self.desc = desc
        self.src = src

    def __repr__(self):
        return f"AbsIter({self.desc})"


class HNodeList:
    """Abstract list of child nodes of class elem_cls (symbolic length n >= 0)."""

    def __init__(self, elem_cls, path, enum=False, n=None, kind="stmt", zipped=None):
        self.elem_cls = elem_cls
        self.path = path
        self.enum = enum
        self.n = n if n is not None else z3.Int(fresh_name(path + ".len"))
        self.kind = kind
        self.zipped = zipped

    def copy(self):
        return self


# ------------------------------------------------------------------ abstract nodes

def _ann(cls):
    ann = {}
    for k in reversed(cls.__mro__):
        ann.update(getattr(k, "__annotations__", {}))
    return ann


def _resolve_cls(a):
    if isinstance(a, str):
        return getattr(N, a)
    if isinstance(a, typing.ForwardRef):
        return getattr(N, a.__forward_arg__)
    return a


def field_factory(owner_cls, fname, a):
    """lazy factory for a node field from its annotation"""
    origin = typing.get_origin(a)
    args = typing.get_args(a)
    if a is str:
        return lambda st, path: sym(path, "str")
    if a is bool:
        return lambda st, path: sym(path, "bool")
    if a is int:
        return lambda st, path: sym(path, "int")
    if a is typing.Any:
        return lambda st, path: sym(path, "obj")
    if origin is list:
        el = args[0]
        if el is str or typing.get_origin(el) is typing.Union or (hasattr(el, "__args__") and str in getattr(el, "__args__", ())):
            return lambda st, path: st.alloc(HNodeList(None, path, kind="data"), initial=True)
        ecls = _resolve_cls(el)
        if fname == "kwargs" and ecls is N.Pair:
            ecls = N.Keyword  # the parser builds Keyword nodes for filter/test keyword arguments (annotation says Pair)
        kind = kind_of_field(owner_cls, fname, ecls)
        return lambda st, path: st.alloc(HNodeList(ecls, path, kind=kind), initial=True)
    if origin is typing.Union or str(origin) == "<class 'types.UnionType'>" or (args and type(None) in args):
        inner = [x for x in args if x is not type(None)]
        ecls = _resolve_cls(inner[0])
        kind = kind_of_field(owner_cls, fname, ecls)

        def opt(st, path):
            # optional child: present or None, decided by a symbolic flag (forked by the caller)
            return OptChild(ecls, path, kind)

        return opt
    ecls = _resolve_cls(a)
    if inspect.isclass(ecls) and issubclass(ecls, N.Node):
        kind = kind_of_field(owner_cls, fname, ecls)
        return lambda st, path: make_node(st, ecls, path, kind=kind)
    return lambda st, path: sym(path, "obj")


def kind_of_field(owner_cls, fname, ecls):
    if (owner_cls.__name__, fname) in EXPR_FIELDS:
        return "expr"
    if inspect.isclass(ecls) and issubclass(ecls, (N.Expr, N.Helper)):
        return "expr"
    return "stmt"


class OptChild:
    """marker resolved at first read: forks into None / a node"""

    def __init__(self, cls, path, kind):
        self.cls = cls
        self.path = path
        self.kind = kind


GENERIC = (N.Node, N.Expr, N.Stmt, N.Literal, N.Helper)


def make_node(st, cls, path="node", kind=None, fields=None):
    ann = _ann(cls)
    lazy = {}
    for f in cls.fields:
        if f in ann:
            lazy[f] = field_factory(cls, f, ann[f])
        else:
            lazy[f] = lambda st_, p: sym(p, "obj")
    lazy["lineno"] = lambda st_, p: sym(p, "int")
    h = HObj(cls, fields=dict(fields or {}), lazy=lazy, path=path)
    h.node_kind = kind or ("expr" if issubclass(cls, (N.Expr, N.Helper)) else "stmt")
    h.generic = cls in GENERIC
    h.plain_setattr = True
    r = st.alloc(h, initial=True)
    return r


def _copy_hobj(self):
    o = HObj(self.cls, self.fields, self.lazy, self.path, self.open)
    for a in ("node_kind", "generic", "plain_setattr", "isinst"):
        if hasattr(self, a):
            setattr(o, a, getattr(self, a))
    return o


HObj.copy = _copy_hobj


# ------------------------------------------------------------------ generator pre-state

class Gen:
    """Abstract CodeGenerator + frame + environment for one emission run."""

    def __init__(self, st, buffer=None, generator_cls=None, frame_flags=None, env_fields=None, gen_fields=None):
        env_lazy = {
            "is_async": "bool", "sandboxed": "bool", "optimized": "bool",
            "filters": lambda s, p: s.alloc(HObj(_FuncMap, path="environment.filters"), initial=True),
            "tests": lambda s, p: s.alloc(HObj(_FuncMap, path="environment.tests"), initial=True),
            "intercepted_binops": lambda s, p: s.alloc(HSet(dom=z3.Const("intercepted_binops", z3.ArraySort(z3.StringSort(), z3.BoolSort())), size=z3.Int("n_ibo"), kk="str"), initial=True),
            "intercepted_unops": lambda s, p: s.alloc(HSet(dom=z3.Const("intercepted_unops", z3.ArraySort(z3.StringSort(), z3.BoolSort())), size=z3.Int("n_iuo"), kk="str"), initial=True),
            "binop_table": lambda s, p: A.adict(s, "binop_table", "str", "obj"),
            "unop_table": lambda s, p: A.adict(s, "unop_table", "str", "obj"),
        }
        self.env = st.alloc(HObj(Environment, fields=dict(env_fields or {}), lazy=env_lazy, path="environment", open=True), initial=True)
        self.eval_ctx = st.alloc(HObj(N.EvalContext, fields={"environment": self.env}, lazy={"volatile": "bool", "autoescape": "bool"}, path="eval_ctx"), initial=True)
        st.get(self.eval_ctx).plain_setattr = True
        self.symbols = st.alloc(HObj(IDT.Symbols, path="symbols", open=True), initial=True)
        ff = {"eval_ctx": self.eval_ctx, "symbols": self.symbols, "buffer": buffer, "parent": None, "block": None}
        ff.update(frame_flags or {})
        self.frame = st.alloc(HObj(C.Frame, fields=ff, lazy={
            "require_output_check": "bool", "toplevel": "bool", "rootlevel": "bool", "loop_frame": "bool",
            "block_frame": "bool", "soft_frame": "bool"}, path="frame"), initial=True)
        self.stream = st.alloc(HObj(_Stream, path="stream"), initial=True)
        gf = {
            "environment": self.env, "stream": self.stream, "name": sym("template_name", "str"), "filename": sym("template_filename", "str"),
            "created_block_context": False, "code_lineno": 1, "debug_info": st.alloc(HList(items=[]), initial=True),
            "_write_debug_info": None, "_new_lines": 0, "_last_line": 0, "_first_write": False, "_last_identifier": 0,
            "_indentation": 0, "extends_so_far": 0, "has_known_extends": False,
            "_context_reference_stack": st.alloc(HList(items=["context"]), initial=True),
            "_assign_stack": st.alloc(HList(items=[]), initial=True), "_param_def_block": st.alloc(HList(items=[]), initial=True),
            "import_aliases": st.alloc(HObj(_NameMap, fields={"prefix": "import_alias"}, path="self.import_aliases"), initial=True),
            "blocks": st.alloc(HDict(items={}), initial=True),
            "filters": st.alloc(HObj(_NameMap, fields={"prefix": "t_filter"}, path="self.filters"), initial=True),
            "tests": st.alloc(HObj(_NameMap, fields={"prefix": "t_test"}, path="self.tests"), initial=True),
        }
        gf.update(gen_fields or {})
        self.gen = st.alloc(HObj(generator_cls or C.CodeGenerator, fields=gf, lazy={"defer_init": "bool", "optimizer": lambda s, p: OptChild(None, "self.optimizer", "optimizer")}, path="self"), initial=True)
        st.ghost["out"] = []


class _Stream:
    pass


class _NameMap:
    """self.filters / self.tests: name -> temporary identifier (abstract)"""
    pass


class _AbsMap:
    """opaque mapping (symbol table dumps)"""
    pass


class _FuncMap:
    """environment.filters / environment.tests"""
    pass


def out(st, piece):
    st.ghost["out"] = st.ghost.get("out", []) + [piece]


# ------------------------------------------------------------------ specs

def install(I, inline_visitors=True, modular_signature=True, hole_methods=("visit_Filter", "visit_Call")):
    """Configure an interpreter for emission runs."""
    I.inline.add("*")  # CodeGenerator helpers are inlined: their real bodies run

    if modular_signature:
        # CodeGenerator.signature is used through its contract (C02.emit.signature / C18.emit.signature prove it on
        # the real body): it writes ", <args...>" where every visited child sits in argument position
        def signature_spec(I_, st, args, kwargs, node):
            self, nd = args[0], args[1]
            extra = args[3] if len(args) > 3 else kwargs.get("extra_kwargs")
            h = st.get(nd)
            hole = Hole(f"signature({h.path})", "signature", None, nd)
            hole.extra_kwargs = I_.dict_concrete(st, extra, node) if extra is not None else None
            res = []
            for s2, _ in I_.call_method(st, self, "write", [""], {}, node):
                out(s2, hole)
                res.append((s2, None))
            return res

        I.specs["CodeGenerator.signature"] = signature_spec

    def direct_visit(name):
        # direct calls such as self.visit_Filter(node.filter, frame): the callee's emission is a hole
        # (its own schema is verified as a separate task); the top-level run of that visitor is not affected
        def h(I_, st, args, kwargs, node):
            self, child = args[0], args[1]
            hh = st.get(child)
            hole = Hole(hh.path, "expr", hh.cls, child)
            hole.via = name
            hole.kwargs = dict(kwargs)
            hole.extra_args = list(args[3:])
            res = []
            for s2, _ in I_.call_method(st, self, "write", [""], {}, node):
                out(s2, hole)
                res.append((s2, None))
            return res
        return h

    for nm in hole_methods or ():
        I.specs[f"CodeGenerator.{nm}"] = direct_visit(nm)

    def stream_write(I_, st, args, kwargs, node):
        out(st, args[1])
        return [(st, None)]

    I.specs["_Stream.write"] = stream_write

    def newline_spec(I_, st, args, kwargs, node):
        # contract of CodeGenerator.newline (proved in C35.codegen.newline): _new_lines' = max(_new_lines, 1+extra);
        # modifies only _new_lines, _write_debug_info, _last_line
        self = args[0]
        extra = args[2] if len(args) > 2 else kwargs.get("extra", 0)
        h = st.get(self)
        h.fields["_new_lines"] = max(h.fields["_new_lines"], 1 + extra)
        nd = args[1] if len(args) > 1 else kwargs.get("node")
        if nd is not None:
            st.trace.append(Event("call", "newline", [nd], lineno=getattr(node, "lineno", None)))
        return [(st, None)]

    I.specs["CodeGenerator.newline"] = newline_spec

    def visit_spec(I_, st, args, kwargs, node):
        self, child = args[0], args[1]
        rest = args[2:]
        if isinstance(child, Ref) and isinstance(st.get(child), HObj):
            h = st.get(child)
            inline_ok = inline_visitors is True and (h.path == "node" or issubclass(h.cls, getattr(I_, "emit_inline", (N.Keyword, N.Pair, N.Operand))))
            if isinstance(inline_visitors, (tuple, list)):
                inline_ok = h.path == "node" or issubclass(h.cls, tuple(inline_visitors))
            if getattr(h, "generic", False) or not inline_ok:
                return emit_hole(I_, st, self, child, h, node)
            cls = h.cls
            gcls = st.get(self).cls
            name = f"visit_{cls.__name__}"
            if hasattr(gcls, name):
                return I_.call_method(st, self, name, [child] + list(rest), kwargs, node)
            return emit_hole(I_, st, self, child, h, node)
        if isinstance(child, Sym):
            out(st, Hole(str(child.t), "expr", None))
            return [(st, None)]
        raise Unsupported(f"visit of {child!r}", node)

    I.specs["CodeGenerator.visit"] = visit_spec
    I.specs["NodeVisitor.visit"] = visit_spec

    def symbols_method(name, returns="str"):
        def h(I_, st, args, kwargs, node):
            v = fresh("ident_" + name, "str", tags={"ident", f"symbols.{name}"}) if returns == "str" else None
            st.trace.append(Event("call", f"symbols.{name}", args[1:], kwargs, v, lineno=getattr(node, "lineno", None)))
            return [(st, v)]
        return h

    for nm in ("ref", "declare_parameter", "find_ref"):
        I.specs[f"Symbols.{nm}"] = symbols_method(nm)
    for nm in ("store", "load", "analyze_node", "branch_update"):
        I.specs[f"Symbols.{nm}"] = symbols_method(nm, None)

    def frame_derive(kind):
        def h(I_, st, args, kwargs, node):
            src = st.get(args[0])
            nf = dict(src.fields)
            nf["symbols"] = st.alloc(HObj(IDT.Symbols, path=f"{src.path}.{kind}().symbols", open=True))
            if kind == "inner":
                nf["parent"] = args[0]
                for k in ("toplevel", "rootlevel", "loop_frame", "block_frame", "soft_frame"):
                    nf[k] = False
            elif kind == "soft":
                nf["rootlevel"] = False
                nf["soft_frame"] = True
            r = st.alloc(HObj(C.Frame, fields=nf, lazy=dict(src.lazy), path=f"{src.path}.{kind}()"))
            st.trace.append(Event("call", f"frame.{kind}", args, kwargs, r, lineno=getattr(node, "lineno", None)))
            return [(st, r)]
        return h

    for k in ("inner", "soft", "copy"):
        I.specs[f"Frame.{k}"] = frame_derive(k)

    def marker(name):
        def h(I_, st, args, kwargs, node):
            self = args[0]
            st.trace.append(Event("call", name, args[1:], kwargs, None, lineno=getattr(node, "lineno", None)))
            rs = I_.call_method(st, self, "writeline", [f"__{name}__()"], {}, node)
            return rs
        return h

    for nm in ("enter_frame", "leave_frame", "pull_dependencies", "pop_assign_tracking"):
        I.specs[f"CodeGenerator.{nm}"] = marker(nm)

    def namemap_getitem(I_, st, args, kwargs, node):
        h = st.get(args[0])
        v = fresh(h.fields["prefix"], "str", tags={"ident", h.fields["prefix"]})
        st.trace.append(Event("call", f"{h.path}.__getitem__", args[1:], {}, v))
        return [(st, v)]

    I.specs["_NameMap.__getitem__"] = namemap_getitem

    def namemap_contains(I_, st, args, kwargs, node):
        h = st.get(args[0])
        return [(st, fresh(h.fields["prefix"] + "_known", "bool"))]

    I.specs["_NameMap.__contains__"] = namemap_contains

    # lazily forked optional children
    def attr_hook(I_, st, obj, name, node):
        if isinstance(obj, Ref):
            h = st.heap.get(obj.id)
            if isinstance(h, HObj) and name in h.lazy and name not in h.fields:
                spec = h.lazy[name]
                if callable(spec):
                    path = f"{h.path}.{name}" if h.path else name
                    v = spec(st, path)
                    if isinstance(v, OptChild):
                        s2 = st.fork()
                        st.get(obj).fields[name] = None
                        st.note(f"{path} is None")
                        from jinja2.optimizer import Optimizer as _Opt
                        child = make_node(s2, v.cls, path, kind=v.kind) if v.cls is not None else s2.alloc(HObj(_Opt, path=path), initial=True)
                        s2.get(obj).fields[name] = child
                        s2.note(f"{path} is present")
                        return [(st, None), (s2, child)]
                    h.fields[name] = v
                    return [(st, v)]
        return None

    I.attr_hook = attr_hook

    # isinstance on abstract nodes of generic class: a symbolic flag per (node, class)
    base_isinstance = I.specs[("fn", id(isinstance))]

    def isinstance_spec(I_, st, args, kwargs, node):
        v, classes = args
        if isinstance(v, Ref) and isinstance(st.get(v), HObj) and getattr(st.get(v), "generic", False):
            h = st.get(v)
            cl = classes if isinstance(classes, tuple) else (classes,)
            if any(issubclass(h.cls, c) for c in cl):
                return [(st, True)]
            if not any(issubclass(c, h.cls) for c in cl):
                return [(st, False)]
            key = "isinst:" + ",".join(c.__name__ for c in cl)
            if key not in h.fields:
                h.fields[key] = sym(f"{h.path}.isinstance({','.join(c.__name__ for c in cl)})", "bool")
            return [(st, h.fields[key])]
        return base_isinstance(I_, st, args, kwargs, node)

    I.specs[("fn", id(isinstance))] = isinstance_spec

    # len / truthiness / iteration of abstract child lists
    base_len = I.specs[("fn", id(len))]

    def len_spec(I_, st, args, kwargs, node):
        a = args[0]
        if isinstance(a, Ref) and isinstance(st.heap.get(a.id), HNodeList):
            h = st.get(a)
            st.assume(h.n >= 0)
            return [(st, Sym(h.n, "int"))]
        return base_len(I_, st, args, kwargs, node)

    I.specs[("fn", id(len))] = len_spec

    def enumerate_spec(I_, st, args, kwargs, node):
        a = args[0]
        if isinstance(a, Ref) and isinstance(st.heap.get(a.id), HNodeList):
            h = st.get(a)
            return [(st, st.alloc(HNodeList(h.elem_cls, h.path, enum=True, n=h.n, kind=h.kind)))]
        items = I_.iter_concrete(st, a, node)
        start = args[1] if len(args) > 1 else kwargs.get("start", 0)
        return [(st, tuple((start + i, x) for i, x in enumerate(items)))]

    I.specs[("fn", id(enumerate))] = enumerate_spec
    I.specs["for_abstract"] = for_abstract
    old_truth = I.truth_term

    def truth_term(st, v):
        if isinstance(v, Ref) and isinstance(st.heap.get(v.id), HNodeList):
            h = st.get(v)
            st.assume(h.n >= 0)
            return h.n > 0
        return old_truth(st, v)

    I.truth_term = truth_term

    # comprehensions / generator expressions over abstract child lists are opaque iterables;
    # any()/all() of them are unconstrained booleans (both outcomes explored)
    def comp_abstract(I_, e, g, st, cfr, itv, elt_fn):
        if isinstance(itv, Ref) and isinstance(st.heap.get(itv.id), HNodeList):
            return [(st, AbsIter(ast.unparse(e)[:80], st.get(itv)))]
        if isinstance(itv, AbsIter):
            return [(st, AbsIter(ast.unparse(e)[:80], itv.src))]
        return None

    I.specs["comp_abstract"] = comp_abstract
    import itertools as _it

    def chain_spec(I_, st, args, kwargs, node):
        if any(isinstance(a, AbsIter) for a in args):
            return [(st, AbsIter("chain(" + ", ".join(getattr(a, "desc", "...") for a in args) + ")", None))]
        items = []
        for a in args:
            items += list(I_.iter_concrete(st, a, node))
        return [(st, tuple(items))]

    I.specs[("fn", id(_it.chain))] = chain_spec

    def anyall(name):
        def h(I_, st, args, kwargs, node):
            a = args[0]
            if isinstance(a, AbsIter):
                return [(st, sym(f"{name}({a.desc})", "bool"))]
            items = I_.iter_concrete(st, a, node)
            acc = []
            for x in items:
                t = I_.truth_term(st, x)
                if t is None:
                    raise Unsupported(f"{name}() element needs a call", node)
                acc.append(t)
            if all(isinstance(t, bool) for t in acc):
                return [(st, (any if name == "any" else all)(acc))]
            ts = [z3.BoolVal(t) if isinstance(t, bool) else t for t in acc]
            return [(st, Sym((z3.Or if name == "any" else z3.And)(*ts), "bool"))]
        return h

    I.specs[("fn", id(any))] = anyall("any")
    I.specs[("fn", id(all))] = anyall("all")

    # AST analyses of the node's subtree are opaque here (they have their own contracts):
    # find_undeclared returns an unconstrained set of names
    def find_undeclared_spec(I_, st, args, kwargs, node):
        dom = z3.Const(fresh_name("undeclared"), z3.ArraySort(z3.StringSort(), z3.BoolSort()))
        r = st.alloc(HSet(dom=dom, size=z3.Int(fresh_name("n_undeclared")), kk="str"))
        st.trace.append(Event("call", "find_undeclared", args, kwargs, r, lineno=getattr(node, "lineno", None)))
        return [(st, r)]

    I.specs[("fn", id(C.find_undeclared))] = find_undeclared_spec
    I.specs["jinja2.compiler:find_undeclared"] = find_undeclared_spec

    def find_load_spec(I_, st, args, kwargs, node):
        s2 = st.fork()
        st.note("symbols.find_load -> None")
        kind = fresh("load_kind", "str")
        s2.note("symbols.find_load -> (kind, param)")
        return [(st, None), (s2, (kind, fresh("load_param", "obj")))]

    I.specs["Symbols.find_load"] = find_load_spec

    import markupsafe

    def markup_spec(I_, st, args, kwargs, node):
        a = args[0] if args else ""
        if isinstance(a, Sym) and a.k == "str":
            return [(st, a.with_tags("markup"))]
        if isinstance(a, str):
            return [(st, markupsafe.Markup(a))]
        if isinstance(a, Sym):
            return [(st, Sym(models.py_str_obj(a.t), "str", a.tags | {"markup"}))]
        raise Unsupported("Markup() of a heap value", node)

    I.specs[("fn", id(markupsafe.Markup))] = markup_spec

    def zip_spec(I_, st, args, kwargs, node):
        hs = [st.heap.get(a.id) if isinstance(a, Ref) else None for a in args]
        if args and all(isinstance(h, HNodeList) for h in hs):
            return [(st, st.alloc(HNodeList(None, "zip(" + ",".join(h.path for h in hs) + ")", n=hs[0].n, kind="zip", zipped=hs)))]
        cols = [I_.iter_concrete(st, a, node) for a in args]
        return [(st, tuple(zip(*cols)))]

    I.specs[("fn", id(zip))] = zip_spec

    # symbol-table dumps: an opaque mapping; text built from it is an opaque string piece
    def dump_spec(name):
        def h(I_, st, args, kwargs, node):
            r = st.alloc(HObj(_AbsMap, fields={"desc": f"symbols.{name}()"}, path=f"symbols.{name}()"))
            st.trace.append(Event("call", f"symbols.{name}", args[1:], kwargs, r, lineno=getattr(node, "lineno", None)))
            return [(st, r)]
        return h

    for nm in ("dump_stores", "dump_param_targets"):
        I.specs[f"Symbols.{nm}"] = dump_spec(nm)

    def absmap_iter(I_, st, args, kwargs, node):
        return [(st, AbsIter(st.get(args[0]).fields["desc"], None))]

    for nm in ("items", "keys", "values", "__iter__"):
        I.specs[f"_AbsMap.{nm}"] = absmap_iter

    def join_abstract(I_, st, args, kwargs, node):
        it = args[1]
        return [(st, sym("join(" + it.desc + ")", "str", tags={"opaque_text", it.desc}))]

    I.specs["join_abstract"] = join_abstract

    # environment.filters / environment.tests: name -> function or None
    def funcmap_get(I_, st, args, kwargs, node):
        s2 = st.fork()
        st.note("filter/test unknown at compile time")
        s2.note("filter/test known")
        return [(st, None), (s2, fresh("filter_func", "obj", tags={"filter_func"}))]

    I.specs["_FuncMap.get"] = funcmap_get

    from jinja2.utils import _PassArg

    def from_obj_spec(I_, st, args, kwargs, node):
        outs = []
        for v in (None, _PassArg.context, _PassArg.eval_context, _PassArg.environment):
            s = st.fork()
            s.note(f"pass_arg={v}")
            outs.append((s, v))
        return outs

    I.specs["jinja2.utils:_PassArg.from_obj"] = from_obj_spec

    def optimizer_visit(I_, st, args, kwargs, node):
        # Optimizer.visit (contract C08.optimizer): returns the node itself when as_const is Impossible,
        # else a fresh Const node
        nd = args[1]
        s2 = st.fork()
        st.note("optimizer: not foldable")
        c = make_node(s2, N.Const, "folded_const")
        s2.get(c).generic = True
        s2.note("optimizer: folded to Const")
        return [(st, nd), (s2, c)]

    I.specs["Optimizer.visit"] = optimizer_visit

    def method_obj(I_, st, args, kwargs, node):
        o, name = args[0], args[1]
        if name in ("startswith", "endswith", "isidentifier"):
            return [(st, fresh(f"{o.t}.{name}", "bool"))]
        if name == "bit_length":
            return [(st, fresh(f"{o.t}.bit_length", "int"))]
        return None

    I.specs["method_obj"] = method_obj

    def getattr_obj(I_, st, args, kwargs, node):
        o, name = args
        if name in ("startswith", "endswith", "isidentifier", "bit_length"):
            return [(st, BoundMethod(o, name))]
        return None

    I.specs["getattr_obj"] = getattr_obj

    def hex_spec(I_, st, args, kwargs, node):
        # hex(<constant of the node>): text computed from node data (visit_Const for very large ints)
        a = args[0]
        if isinstance(a, Sym):
            return [(st, Sym(models.py_repr_obj(to_term(a, "obj")), "str", a.tags | {"repr"}))]
        return [(st, hex(a))]

    I.specs[("fn", id(hex))] = hex_spec

    def unpack_spec(I_, st, v, n, node):
        if isinstance(v, Sym) and v.k == "obj":
            return [sym(f"{v.t}[{i}]", "str") for i in range(n)]
        return None

    I.specs["unpack"] = unpack_spec

    def fail_spec(I_, st, args, kwargs, node):
        from jinja2.exceptions import TemplateAssertionError
        e = Exc(TemplateAssertionError, tuple(args[1:]), origin=getattr(node, "lineno", None))
        return [(st, Raised(e))]

    I.specs["CodeGenerator.fail"] = fail_spec


def emit_hole(I, st, self, child, h, node):
    kind = getattr(h, "node_kind", "expr")
    hole = Hole(h.path, kind, h.cls, child)
    if kind == "stmt":
        rs = I.call_method(st, self, "newline", [child], {}, node)
        res = []
        for s, v in rs:
            for s2, v2 in I.call_method(s, self, "write", [""], {}, node):
                out(s2, hole)
                res.append((s2, None))
        return res
    # an expression written by the child flushes the pending newline/indentation first
    res = []
    for s2, v2 in I.call_method(st, self, "write", [""], {}, node):
        out(s2, hole)
        res.append((s2, None))
    return res


# line/debug bookkeeping of the generator: counters that grow with every statement written; they do
# not influence the emitted text and are havoced by loops over abstract children
BOOKKEEPING = {"code_lineno", "_last_line", "_write_debug_info", "debug_info"}


def _fingerprint(st, fr, skip=(), ids=None):
    loc = tuple(sorted((k, repr(v)) for k, v in st.frames[fr.fid].items() if k not in skip))
    heap = []
    dbg = set()
    for i, h in st.heap.items():
        if isinstance(h, HObj) and isinstance(h.fields.get("debug_info"), Ref):
            dbg.add(h.fields["debug_info"].id)
    for i, h in sorted(st.heap.items()):
        if (ids is not None and i not in ids) or i in dbg:
            continue
        if isinstance(h, HObj):
            heap.append((i, tuple(sorted((k, repr(v)) for k, v in h.fields.items() if k not in BOOKKEEPING))))
        elif isinstance(h, HList) and h.concrete:
            heap.append((i, tuple(repr(x) for x in h.items)))
        elif isinstance(h, HDict) and h.concrete:
            heap.append((i, tuple((repr(k), repr(v)) for k, v in h.items.items())))
    return (loc, tuple(heap))


def for_abstract(I, n, st, fr, itv):
    """Star summarisation of `for x in <abstract child list>`: the body is executed on one generic
    element; its emission becomes a Rep piece; its other effects must be idempotent (checked by
    running the body a second time), and the loop continues in the state after >= 1 iterations
    as well as in the unchanged state (0 iterations)."""
    if not (isinstance(itv, Ref) and isinstance(st.heap.get(itv.id), HNodeList)):
        return None
    hl = st.get(itv)
    if n.orelse:
        raise Unsupported("for-else over abstract child list", n)
    targets = {x.id for x in ast.walk(n.target) if isinstance(x, ast.Name)}

    def run_body(s0, tag, idx_mode=None):
        s = s0.fork()
        s.ghost = dict(s.ghost)
        s.ghost["out"] = []
        if hl.zipped:
            elem = tuple((make_node(s, z.elem_cls, f"{z.path}[{tag}]", kind=z.kind) if z.elem_cls is not None else sym(f"{z.path}[{tag}]", "obj")) for z in hl.zipped)
        elif hl.elem_cls is None:
            elem = sym(f"{hl.path}[{tag}]", "obj")
        else:
            elem = make_node(s, hl.elem_cls, f"{hl.path}[{tag}]", kind=hl.kind)
        item = (sym(f"{hl.path}.idx[{tag}]", "int"), elem) if hl.enum else elem
        if hl.enum:
            s.assume(item[0].t == 0 if idx_mode == "first" else (item[0].t >= 1 if idx_mode == "rest" else item[0].t >= 0))
        outs = []
        for s2, r in I.assign(n.target, item, s, fr):
            if isinstance(r, Raised):
                outs.append((s2, Ctl("raise", r.exc)))
                continue
            outs.extend(I.exec_block(n.body, s2, fr))
        return outs

    first = run_body(st, "*", "first" if hl.enum else None)
    results = []
    alts = []
    ends = []
    first_alts = None
    if hl.enum:
        # enumerate(): the first iteration (index 0) and the later ones (index >= 1) are summarised separately
        first_alts, first_ends = [], []
        for s, c in first:
            pieces = list(s.ghost.get("out", []))
            if c.kind in ("ok", "continue"):
                first_alts.append(pieces)
                first_ends.append(s)
            elif c.kind == "raise":
                s.ghost = dict(s.ghost)
                s.ghost["out"] = list(st.ghost.get("out", [])) + pieces
                results.append((s, c))
            else:
                raise Unsupported(f"{c.kind} inside a loop over abstract children", n)
        first = []
        for s in first_ends:
            first += run_body(s, "+", "rest")
        ends += first_ends
    for s, c in first:
        pieces = list(s.ghost.get("out", []))
        if c.kind in ("ok", "continue"):
            alts.append(pieces)
            ends.append(s)
        elif c.kind == "raise":
            s.ghost = dict(s.ghost)
            s.ghost["out"] = list(st.ghost.get("out", [])) + [Rep(hl.path, [[]])] + pieces
            results.append((s, c))
        else:
            raise Unsupported(f"{c.kind} inside a loop over abstract children", n)
    # idempotence of the non-stream effects
    ids = set(st.heap)
    fps = {_fingerprint(s, fr, targets, ids) for s in ends}
    for s in ends:
        for s2, c2 in run_body(s, "**", "rest" if hl.enum else None):
            if c2.kind in ("ok", "continue") and _fingerprint(s2, fr, targets, ids) not in fps:
                raise Unsupported("effects of a loop body over abstract children are not idempotent", n)
    # zero iterations
    s0 = st.fork()
    s0.assume(hl.n == 0)
    results.append((s0, OK))
    rep = Rep(hl.path, alts)
    rep.first = first_alts
    for s in ends:
        s.assume(hl.n >= 1)
        for h in s.heap.values():
            if isinstance(h, HObj) and "code_lineno" in h.fields:
                h.fields["code_lineno"] = fresh("code_lineno", "int")
                h.fields["_last_line"] = fresh("last_line", "int")
        s.ghost = dict(s.ghost)
        s.ghost["out"] = list(st.ghost.get("out", [])) + [rep]
        results.append((s, OK))
    return results


# ------------------------------------------------------------------ schemas

class Schema:
    def __init__(self, pieces, pc, notes, outcome, st):
        self.pieces = pieces
        self.pc = pc
        self.notes = notes
        self.outcome = outcome  # 'return' | 'raise'
        self.st = st
        self.value = None

    def flag(self, name):
        """value of a named symbolic bool on this path: True / False / None (unconstrained)"""
        t = z3.Bool(name)
        if check_sat(self.pc + [z3.Not(t)], 2000, 0, use_cvc5=False).status == "unsat":
            return True
        if check_sat(self.pc + [t], 2000, 0, use_cvc5=False).status == "unsat":
            return False
        return None

    def holds(self, term):
        return check_sat(self.pc + [z3.Not(term)], 2000, 0, use_cvc5=False).status == "unsat"

    def texts(self, reps=(1, 2, 3)):
        """all instantiations of the repetitions: list of (text, placeholder map).  A Rep piece is only
        present on paths with at least one iteration (zero iterations is a separate path without it)."""
        out_ = []
        for k in reps:
            ph = {}
            txt = _render(self.pieces, k, ph)
            out_.append((txt, ph))
            if not _has_rep(self.pieces):
                break
        return out_

    def describe(self):
        return "".join(_show(p) for p in self.pieces)


def _has_rep(pieces):
    return any(isinstance(p, Rep) for p in pieces)


def _show(p):
    if isinstance(p, str):
        return p
    if isinstance(p, Hole):
        return repr(p)
    if isinstance(p, Rep):
        return "{" + " | ".join("".join(_show(q) for q in alt) for alt in p.alternatives) + "}*"
    if isinstance(p, Sym):
        return "«" + str(p.t) + "»"
    return repr(p)


def _render(pieces, k, ph):
    parts = []
    for p in pieces:
        if isinstance(p, str):
            parts.append(p)
        elif isinstance(p, Hole):
            if p.kind == "signature":
                # summary of CodeGenerator.signature(node, frame, extra_kwargs): a leading-comma argument tail
                name = f"__H{len(ph)}__"
                ph[name] = p
                parts.append(f", *{name}")
            else:
                name = f"__H{len(ph)}__" if p.kind == "expr" else f"__S{len(ph)}__"
                ph[name] = p
                parts.append(name)
        elif isinstance(p, Rep):
            for i in range(k):
                alt = p.alternatives[i % len(p.alternatives)] if p.alternatives else []
                if i == 0 and getattr(p, "first", None):
                    alt = p.first[0]
                parts.append(_render(alt, k, ph))
        elif isinstance(p, Sym):
            parts.append(_render_term(p.t, ph, p))
        elif p is None:
            parts.append("None")
        else:
            parts.append(str(p))
    return "".join(parts)


def _render_term(t, ph, symv):
    """z3 String term -> text with placeholders"""
    if z3.is_string_value(t):
        return t.as_string()
    if z3.is_app(t):
        d = t.decl()
        if d.kind() == z3.Z3_OP_SEQ_CONCAT:
            return "".join(_render_term(c, ph, symv) for c in t.children())
        name = d.name()
        if name in ("py_repr_str", "py_repr_obj"):
            nm = f"'__R{len(ph)}__'"
            ph[nm] = ("repr", t.children()[0])
            return nm
        if name == "py_str_int":
            nm = f"{7000 + len(ph)}"
            ph[nm] = ("int", t.children()[0])
            return nm
        if name == "py_str_obj":
            nm = f"__X{len(ph)}__"
            ph[nm] = ("str", t.children()[0])
            return nm
        if d.arity() == 0:
            nm = f"__I{len(ph)}__"
            ph[nm] = ("ident", t)
            return nm
    nm = f"__T{len(ph)}__"
    ph[nm] = ("term", t)
    return nm


def run_visitor(method_qualname, node_cls, buffer=None, generator_cls=None, node_fields=None, configure=None,
                extra_args=(), pre=None, env_fields=None, frame_flags=None, gen_fields=None, extra_kwargs=None,
                install_opts=None):
    """Symbolically execute CodeGenerator.<method>(node, frame) -> list[Schema]."""
    from .engine import Interp
    from . import extract
    I = Interp()
    install(I, **(install_opts or {}))
    if configure:
        configure(I)
    st = State()
    g = Gen(st, buffer=buffer, generator_cls=generator_cls, env_fields=env_fields, frame_flags=frame_flags, gen_fields=gen_fields)
    nd = make_node(st, node_cls, "node", fields=node_fields(st) if callable(node_fields) else node_fields)
    if pre:
        pre(st, g, nd)
    if isinstance(method_qualname, Closure):
        clo = method_qualname
    else:
        fn = extract.resolve(method_qualname)
        clo = I.closure_of_function(fn)
    results = I.call_closure(st, clo, [g.gen, nd, g.frame] + list(extra_args), dict(extra_kwargs or {}))
    schemas = []
    for s, v in results:
        sc = Schema(list(s.ghost.get("out", [])), list(s.pc), list(s.notes), "raise" if isinstance(v, Raised) else "return", s)
        sc.value = v.exc if isinstance(v, Raised) else v
        sc.gen = g
        sc.node = nd
        schemas.append(sc)
    return schemas, I


# ------------------------------------------------------------------ skeleton helpers

def parse_expr(text):
    return ast.parse(text.strip(), mode="eval").body


def parse_stmts(text):
    import textwrap
    return ast.parse(textwrap.dedent(text.lstrip("\n")))


def call_name(node):
    """dotted name of the callee of an ast.Call, or None"""
    f = node.func if isinstance(node, ast.Call) else node
    parts = []
    while isinstance(f, ast.Attribute):
        parts.append(f.attr)
        f = f.value
    if isinstance(f, ast.Name):
        parts.append(f.id)
        return ".".join(reversed(parts))
    return None


def is_hole_name(n):
    return isinstance(n, ast.Name) and re.fullmatch(r"__[HS]\d+__", n.id) is not None


def parents(tree):
    par = {}
    for n in ast.walk(tree):
        for c in ast.iter_child_nodes(n):
            par[c] = n
    return par


def unwrap_await(n):
    """strip `(await auto_await(X))` wrappers"""
    while True:
        if isinstance(n, ast.Await):
            n = n.value
            continue
        if isinstance(n, ast.Call) and call_name(n) == "auto_await" and len(n.args) == 1:
            n = n.args[0]
            continue
        return n
