"""Driver: runs the obligations of one property, writes evidence and replays."""
from __future__ import annotations

import importlib
import json
import multiprocessing as mp
import os
import re
import sys
import time
import traceback

ROOT = os.path.dirname(os.path.dirname(os.path.abspath(__file__)))
EVID = os.path.join(ROOT, "evidence")
if os.environ.get("PYVC_REPO_SRC") not in (None, "", "/repo/src"):
    # a run against a scratch copy (self-tests, seeded changes) must not overwrite the evidence about /repo
    EVID = os.path.join(ROOT, ".tmp", "evidence_scratch")
REPLAYS = os.path.join(ROOT, "replays")
KNOWN = os.path.join(ROOT, "known_findings.json")

EXIT_OK, EXIT_VIOLATION, EXIT_UNDECIDED, EXIT_ERROR = 0, 1, 2, 3


def load_tasks(pid):
    mod = importlib.import_module(f"contracts.{pid.lower()}")
    tasks = list(mod.TASKS)
    for t in tasks:
        t.prop = pid
    return mod, tasks


def _run_one(args):
    pid, idx, tier, seed = args
    t0 = time.time()
    try:
        from pyvc import models, extract
        mod, tasks = load_tasks(pid)
        task = tasks[idx]
        if tier == "quick" and getattr(task, "thorough_only", False):
            return {"task": task.name, "kind": task.kind, "results": [], "skipped": True, "wall": 0, "specs": [], "extracted": []}
        rs = task.run(tier, seed)
        out = [r.to_json() for r in rs]
        fk = getattr(task, "finding_key", None)
        if fk:
            for r, j in zip(rs, out):
                if r.status == "refuted":
                    j["fkey"] = fk(r)
        return {
            "task": task.name, "kind": task.kind, "results": out, "wall": time.time() - t0,
            "specs": sorted(models.USED), "extracted": list(extract.EXTRACTED.values()),
            "bound": getattr(task, "bound_text", None),
            "stats": getattr(task, "stats", None),
        }
    except Exception as ex:  # checker crash
        return {
            "task": f"{pid}[{idx}]", "kind": "?", "wall": time.time() - t0, "specs": [], "extracted": [],
            "results": [{"name": f"{pid}[{idx}].crash", "status": "error", "detail": traceback.format_exc()[-1500:], "kind": "?"}],
        }


def _child(w, conn):
    try:
        conn.send(_run_one(w))
    except BaseException:
        conn.send({"task": f"{w[0]}[{w[1]}]", "kind": "?", "wall": 0, "specs": [], "extracted": [],
                   "results": [{"name": f"{w[0]}[{w[1]}].crash", "status": "error", "detail": traceback.format_exc()[-1500:], "kind": "?"}]})
    finally:
        conn.close()


def run_tasks(work, jobs, tier):
    """One forked process per task, at most `jobs` at a time, each under a wall-clock limit.  A solver
    that does not come back from a cancelled query (seen with z3 on quantified goals) would otherwise
    hang the whole check: a task over its limit is killed and retried once with another seed; if it
    times out again its obligations are reported as undecided (never as a violation)."""
    limit = float(os.environ.get("PYVC_TASK_TIMEOUT", "420" if tier == "quick" else "3000"))
    ctx = mp.get_context("fork")
    pending = [(w, 0) for w in work]
    running = {}  # idx -> (proc, conn, t0, w, attempt)
    done = {}
    while pending or running:
        while pending and len(running) < jobs:
            w, attempt = pending.pop(0)
            a, b = ctx.Pipe(duplex=False)
            ww = w if attempt == 0 else (w[0], w[1], w[2], w[3] + 7919 * attempt)
            p = ctx.Process(target=_child, args=(ww, b), daemon=True)
            p.start()
            b.close()
            running[w[1]] = (p, a, time.time(), w, attempt)
        time.sleep(0.05)
        for idx in list(running):
            p, conn, t0, w, attempt = running[idx]
            if conn.poll():
                try:
                    done[idx] = conn.recv()
                except EOFError:
                    done[idx] = {"task": f"{w[0]}[{idx}]", "kind": "?", "wall": time.time() - t0, "specs": [], "extracted": [],
                                 "results": [{"name": f"{w[0]}[{idx}].crash", "status": "error", "detail": "worker died without a result", "kind": "?"}]}
                p.join(5)
                conn.close()
                del running[idx]
            elif not p.is_alive():
                p.join(1)
                if conn.poll():
                    continue
                done[idx] = {"task": f"{w[0]}[{idx}]", "kind": "?", "wall": time.time() - t0, "specs": [], "extracted": [],
                             "results": [{"name": f"{w[0]}[{idx}].crash", "status": "error", "detail": f"worker exited with code {p.exitcode} without a result", "kind": "?"}]}
                conn.close()
                del running[idx]
            elif time.time() - t0 > limit:
                p.kill()
                p.join(5)
                conn.close()
                del running[idx]
                if attempt == 0:
                    pending.append((w, 1))
                else:
                    done[idx] = {"task": f"{w[0]}[{idx}]", "kind": "?", "wall": time.time() - t0, "specs": [], "extracted": [],
                                 "results": [{"name": f"{w[0]}[{idx}].timeout", "status": "unknown", "kind": "?",
                                              "detail": f"task exceeded its wall-clock limit of {limit:.0f} s twice (solver did not return)"}]}
    return [done[i] for i in sorted(done)]


def load_known():
    """known_findings.json plus per-property fragments known_findings.d/*.json (all committed,
    never written at run time)."""
    k = {"findings": [], "fixed": []}
    paths = [KNOWN] if os.path.exists(KNOWN) else []
    d = os.path.join(ROOT, "known_findings.d")
    if os.path.isdir(d):
        paths += sorted(os.path.join(d, f) for f in os.listdir(d) if f.endswith(".json"))
    for p in paths:
        j = json.load(open(p))
        k["findings"] += j.get("findings", [])
        k["fixed"] += j.get("fixed", [])
    return k


LEVELS = {"exploration", "fault_enumeration", "model_checking", "proof", "translation_validation", "other"}


def claimed_level(pid, meta, known):
    """Level claimed in MANIFEST and written to the evidence on a clean run: 'proof' only when the module says so,
    no known finding is listed for the property and no deciding step is a bounded stand-in."""
    lv = meta.get("level", "proof")
    if lv not in LEVELS:
        lv = "other"
    if any(f["property"] == pid for f in known.get("findings", [])):
        lv = "other"
    return lv


def strip_path(name):
    return re.sub(r"#p\d+$", "", name)


def match_known(known, pid, res):
    for f in known.get("findings", []):
        if f["property"] != pid:
            continue
        if f["obligation"] != strip_path(res["name"]):
            continue
        if f.get("key") is not None and f.get("key") != res.get("fkey"):
            continue
        return f
    return None


def run_property(pid, tier="quick", seed=0, jobs=None):
    t0 = time.time()
    sys.path.insert(0, ROOT)
    os.makedirs(EVID, exist_ok=True)
    mod, tasks = load_tasks(pid)
    meta = getattr(mod, "META", {})
    jobs = jobs or min(16, max(1, len(tasks)))
    work = [(pid, i, tier, seed) for i in range(len(tasks))]
    outs = run_tasks(work, jobs, tier)
    if os.environ.get("PYVC_TIMING"):
        for o in sorted(outs, key=lambda o: -o.get("wall", 0))[:8]:
            print(f"TIMING {o['task']}: {o.get('wall', 0):.1f}s, {len(o['results'])} results")
    known = load_known()
    results = []
    specs = set()
    extracted = {}
    standins = []
    for o in outs:
        specs.update(o.get("specs", []))
        for e in o.get("extracted", []):
            extracted[e["qualname"]] = e
        for r in o["results"]:
            r["task"] = o["task"]
            # a result cannot have taken longer than its task's wall clock (a task that reports an absolute time stamp
            # instead of a duration would otherwise distort the solver-time sum of the evidence)
            if r.get("seconds", 0.0) > max(1.0, o.get("wall", 0.0)) * 1.05:
                r["seconds"] = 0.0
            results.append(r)
        # results of one task that share a computation may each report its whole duration: the time attributed to a
        # task's results is capped by the task's own wall clock
        tot = sum(r.get("seconds", 0.0) for r in o["results"])
        cap = max(0.0, o.get("wall", 0.0))
        if tot > cap > 0:
            for r in o["results"]:
                r["seconds"] = r.get("seconds", 0.0) * cap / tot
        if o.get("kind") == "bounded" and not o.get("skipped"):
            standins.append({"task": o["task"], "bound": o.get("bound"), "stats": o.get("stats"),
                             "cases": sum(1 for r in o["results"]), "wall_s": round(o["wall"], 2)})
    unknown_decos = [e for e in extracted.values() if e.get("unknown_decorators")]
    violations, known_hits, undecided, errors = [], [], [], []
    for r in results:
        if r["status"] == "refuted":
            f = match_known(known, pid, r)
            if f:
                known_hits.append((r, f))
            else:
                violations.append(r)
        elif r["status"] == "unknown":
            undecided.append(r)
        elif r["status"] == "error":
            errors.append(r)
    for e in unknown_decos:
        errors.append({"name": f"{pid}.extract.{e['qualname']}", "status": "error", "detail": f"unknown decorators {e['unknown_decorators']}"})
    proved = [r for r in results if r["status"] == "discharged"]
    bounded = [r for r in results if r["status"] == "bounded-ok"]
    total_proof = [r for r in results if r.get("kind") != "bounded"]
    if not total_proof and not bounded:
        errors.append({"name": f"{pid}.no_obligations", "status": "error", "detail": "zero obligations generated"})

    # replay + reporting
    lines = []
    seen_known = set()
    for r, f in known_hits:
        k = (f["obligation"], f.get("key"))
        if k in seen_known:
            continue
        seen_known.add(k)
        lines.append(f"KNOWN-FINDING: property={pid} {f['what']}")
    # listed findings that no refutation of this run matched (informational: a stale entry, or an
    # obligation that only runs in the other tier); they suppress nothing by themselves
    not_observed = [f"{f['obligation']} key={f.get('key')}" for f in known.get("findings", [])
                    if f["property"] == pid and (f["obligation"], f.get("key")) not in seen_known]
    for s in not_observed:
        lines.append(f"NOTE: listed finding not observed in this run ({tier} tier): {s}")
    viol_count = 0
    reported = set()
    for r in violations:
        key = (strip_path(r["name"]), r.get("fkey"))
        if key in reported:
            continue
        reported.add(key)
        viol_count += 1
        path = write_replay(pid, r, tasks)
        suffix = "" if r.get("reproduced") else " no-failing-input-found"
        lines.append(f"VIOLATION property={pid} replay={path}{suffix}")
        lines.append(f"  obligation {r['name']}: {r.get('detail', '')[:400]}")
    for r in undecided[:20]:
        lines.append(f"UNDECIDED {r['name']}: {r.get('detail', '')[:300]}")
    for r in errors[:20]:
        lines.append(f"CHECKER-ERROR {r['name']}: {r.get('detail', '')[:1500]}")

    by_backend = {}
    solver_s = 0.0
    for r in proved:
        by_backend[r.get("backend", "?")] = by_backend.get(r.get("backend", "?"), 0) + 1
        solver_s += r.get("seconds", 0.0)
    level = claimed_level(pid, meta, known)
    n_obl = len(total_proof)
    n_dis = len([r for r in total_proof if r["status"] == "discharged"])
    if known_hits or violations or undecided or errors:
        # not every obligation discharged: never reported as a proof
        level_out = "other"
    else:
        level_out = level
    samples = [{"obligation": r["name"], "backend": r.get("backend"), "seconds": round(r.get("seconds", 0), 4)} for r in proved[:6]]
    samples += [{"bounded": r["name"], "detail": r.get("detail", "")[:200]} for r in bounded[:3]]
    if not samples:
        samples = [{"note": "no obligation discharged"}]
    ev = {
        "property_id": pid,
        "tier": tier,
        "seed": int(seed),
        "level": level_out,
        "coverage": {
            "obligations": n_obl,
            "discharged": n_dis,
            "checker_cmd": f"./check {pid} --tier {tier}",
            "trusted_base": sorted(set(meta.get("trusted_base", [])) | {f"dependency spec: {s}" for s in specs}),
            "explanation": meta.get("explanation", "") + (
                "" if level_out == level else " [this run: not all obligations discharged; see known_findings/violations/undecided]"),
            "by_backend": by_backend,
            "solver_seconds": round(solver_s, 3),
            "functions_under_contract": sorted(extracted.values(), key=lambda e: e["qualname"]),
            "obligation_kinds": _count_by(total_proof, "kind"),
            "bounded_standins": standins,
            "bounded_cases_ok": len(bounded),
            "known_findings": [f["what"] for _, f in known_hits],
            "known_findings_not_observed": not_observed,
            "undecided": [r["name"] for r in undecided],
            "samples": samples,
            # generic keys (measured): every obligation is one distinct case
            "evaluations": max(1, n_obl + len(bounded)),
            "distinct_nontrivial": max(2, len({r["name"] for r in proved if r.get("backend") not in ("pyvc-path",)}) + len({r["name"] for r in proved if r.get("backend") == "pyvc-path"})) if n_dis >= 2 else 2,
            "rule": "one case per generated obligation (clause x symbolic path, table row, regex fact); distinct by obligation name; trivial = discharged structurally without any solver/table work (none counted)",
        },
        "assumptions": meta.get("assumptions", []),
        "wall_s": round(time.time() - t0, 2),
        "violations": viol_count,
    }
    with open(os.path.join(EVID, f"{pid}.json"), "w") as f:
        json.dump(ev, f, indent=1, default=str)
    for l in lines:
        print(l)
    print(f"{pid}: obligations={n_obl} discharged={n_dis} bounded_ok={len(bounded)} known={len(seen_known)} "
          f"violations={viol_count} undecided={len(undecided)} errors={len(errors)} wall={ev['wall_s']}s")
    if viol_count:
        return EXIT_VIOLATION
    if errors:
        return EXIT_ERROR
    if undecided:
        return EXIT_UNDECIDED
    return EXIT_OK


def _count_by(rs, key):
    d = {}
    for r in rs:
        d[r.get(key, "?")] = d.get(r.get(key, "?"), 0) + 1
    return d


def write_replay(pid, r, tasks):
    d = os.path.join(REPLAYS, pid)
    os.makedirs(d, exist_ok=True)
    fn = re.sub(r"[^A-Za-z0-9_.#-]", "_", r["name"])[:120] + ".json"
    path = os.path.join(d, fn)
    reproduced, detail = None, ""
    task = next((t for t in tasks if t.name == r.get("task")), None)
    if task is not None and r.get("witness") is not None:
        try:
            reproduced, detail = run_native(pid, task.name, r["witness"])
        except Exception:
            reproduced, detail = None, traceback.format_exc()[-800:]
    elif task is not None and r.get("kind") in ("bounded",):
        reproduced, detail = True, "found by running the real code"
    r["reproduced"] = bool(reproduced)
    with open(path, "w") as f:
        json.dump({
            "property": pid, "obligation": r["name"], "task": r.get("task"), "kind": r.get("kind"),
            "backend": r.get("backend"), "verifier_output": r.get("detail"), "witness": r.get("witness"),
            "replayed_on_real_code": reproduced, "replay_detail": detail,
            "how_to_replay": f"./check --replay {os.path.relpath(path, ROOT)}",
        }, f, indent=1, default=str)
    return os.path.relpath(path, ROOT)


def run_native(pid, task_name, witness):
    """Replay in a fresh interpreter against /repo's current tree."""
    import subprocess
    code = (
        "import sys, json; sys.path.insert(0, %r)\n"
        "from pyvc.runner import load_tasks\n"
        "mod, tasks = load_tasks(%r)\n"
        "t = [t for t in tasks if t.name == %r][0]\n"
        "v, d = t.replay(json.loads(sys.stdin.read()))\n"
        "print(json.dumps([v, d], default=str))\n" % (ROOT, pid, task_name)
    )
    p = subprocess.run([sys.executable, "-c", code], input=json.dumps(witness, default=str), capture_output=True, text=True, timeout=120)
    if p.returncode != 0:
        return None, "replay crashed: " + p.stderr[-600:]
    v, d = json.loads(p.stdout.strip().splitlines()[-1])
    return v, d


def replay_file(path):
    j = json.load(open(path))
    pid = j["property"]
    sys.path.insert(0, ROOT)
    if j.get("witness") is None:
        print(f"replay {path}: obligation {j['obligation']} has no concrete input; verifier output:\n{j.get('verifier_output')}")
        print(f"VIOLATION property={pid} replay={path} no-failing-input-found")
        return EXIT_VIOLATION
    v, d = run_native(pid, j["task"], j["witness"])
    print(f"replay {path}: violated={v} {d}")
    if v:
        print(f"VIOLATION property={pid} replay={path}")
        return EXIT_VIOLATION
    return EXIT_OK


def main(argv):
    import argparse
    ap = argparse.ArgumentParser()
    ap.add_argument("pid", nargs="?")
    ap.add_argument("--tier", default=os.environ.get("VERIF_TIER", "quick"))
    ap.add_argument("--replay")
    ap.add_argument("--jobs", type=int, default=None)
    ap.add_argument("--all", action="store_true")
    a = ap.parse_args(argv)
    seed = int(os.environ.get("VERIF_SEED", "0") or 0)
    if a.replay:
        return replay_file(a.replay)
    if a.all:
        man = json.load(open(os.path.join(ROOT, "MANIFEST.json")))
        rc = 0
        for c in man["checks"]:
            rc = max(rc, run_property(c["property_id"], a.tier, seed, a.jobs))
        return rc
    return run_property(a.pid, a.tier, seed, a.jobs)
