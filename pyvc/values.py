"""Symbolic values, heap objects and path state for pyvc.

Host Python values (ints, strings, tuples, live classes and functions of the
imported /repo modules, sentinels such as ``jinja2.utils.missing``) are used
as they are.  Everything unknown is a ``Sym`` (a z3 term with a kind), a
``Ref`` into the path-local heap, or one of the small wrapper classes below.
"""
from __future__ import annotations

import itertools
import z3

Obj = z3.DeclareSort("Obj")

KIND_SORT = {
    "int": z3.IntSort(),
    "bool": z3.BoolSort(),
    "str": z3.StringSort(),
    "obj": Obj,
}

_fresh = itertools.count()


def fresh_name(prefix: str) -> str:
    return f"{prefix}!{next(_fresh)}"


class Unsupported(Exception):
    """The function uses something outside the supported subset: undecided."""

    def __init__(self, msg, node=None):
        self.node = node
        ln = getattr(node, "lineno", None)
        super().__init__(f"{msg}" + (f" (line {ln})" if ln else ""))


class CheckerError(Exception):
    """The contract or the engine is inconsistent (exit 3)."""


class Sym:
    """A z3 term of kind int/bool/str/obj.  ``tags`` are ghost provenance tags."""

    __slots__ = ("t", "k", "tags")

    def __init__(self, t, k, tags=frozenset()):
        self.t = t
        self.k = k
        self.tags = frozenset(tags)

    def __repr__(self):
        return f"Sym<{self.k}:{self.t}>"

    def with_tags(self, *tags):
        return Sym(self.t, self.k, self.tags | set(tags))


def sym(name: str, kind: str, tags=()) -> Sym:
    return Sym(z3.Const(name, KIND_SORT[kind]), kind, tags)


def fresh(prefix: str, kind: str, tags=()) -> Sym:
    return sym(fresh_name(prefix), kind, tags)


class Ref:
    __slots__ = ("id",)

    def __init__(self, id):
        self.id = id

    def __repr__(self):
        return f"Ref#{self.id}"

    def __eq__(self, o):
        return isinstance(o, Ref) and o.id == self.id

    def __hash__(self):
        return hash(("Ref", self.id))


class BoundMethod:
    __slots__ = ("recv", "name")

    def __init__(self, recv, name):
        self.recv = recv
        self.name = name

    def __repr__(self):
        return f"BoundMethod({self.recv!r}.{self.name})"


class Closure:
    """A function defined in verified code (nested def / lambda) or a repo
    function taken for inlining.  ``cells`` maps free names to Cell objects."""

    def __init__(self, node, module, cells, qualname, defaults=None, kwdefaults=None, self_val=None):
        self.node = node
        self.module = module  # live module object: globals
        self.cells = cells
        self.qualname = qualname
        self.defaults = defaults or []
        self.kwdefaults = kwdefaults or {}
        self.self_val = self_val  # bound receiver, if a bound method

    def __repr__(self):
        return f"Closure({self.qualname})"


class Cell:
    __slots__ = ("id",)

    def __init__(self, id):
        self.id = id


class Exc:
    """An exception value.  cls is a live class, or None for 'some exception
    raised by an abstract callee' (then ``within`` bounds its class from above)."""

    def __init__(self, cls, args=(), tag="", within=BaseException, cause=None, origin=None):
        self.cls = cls
        self.args = tuple(args)
        self.tag = tag
        self.within = within
        self.cause = cause
        self.origin = origin  # lineno of the raise / call

    def __repr__(self):
        c = self.cls.__name__ if self.cls else f"<{self.within.__name__}>"
        return f"Exc({c}{', ' + self.tag if self.tag else ''} @{self.origin})"


class SSeq:
    """Immutable sequence of symbolic length: (Array Int -> kind, len)."""

    __slots__ = ("arr", "n", "k")

    def __init__(self, arr, n, k):
        self.arr = arr
        self.n = n
        self.k = k

    def __repr__(self):
        return f"SSeq<{self.k}>[{self.n}]"


def fresh_arr(prefix, kind):
    """Array Int -> kind; for a tuple kind, a tuple of arrays (struct of arrays)."""
    if isinstance(kind, tuple):
        return tuple(fresh_arr(f"{prefix}.{i}", k) for i, k in enumerate(kind))
    return z3.Const(fresh_name(prefix), z3.ArraySort(z3.IntSort(), KIND_SORT[kind]))


def sel(arr, kind, i):
    """Element i as a value (Sym, or host tuple of values for tuple kinds)."""
    if isinstance(kind, tuple):
        return tuple(sel(a, k, i) for a, k in zip(arr, kind))
    return Sym(z3.Select(arr, i), kind)


def elem_eq(a, i, b, j, kind):
    if isinstance(kind, tuple):
        return z3.And(*[elem_eq(x, i, y, j, k) for x, y, k in zip(a, b, kind)])
    return z3.Select(a, i) == z3.Select(b, j)


def arr_store(arr, kind, i, v, to_term):
    if isinstance(kind, tuple):
        return tuple(arr_store(a, k, i, x, to_term) for a, k, x in zip(arr, kind, v))
    return z3.Store(arr, i, to_term(v, kind))


def fresh_sseq(prefix, kind):
    arr = fresh_arr(prefix + "_arr", kind)
    n = z3.Const(fresh_name(prefix + "_len"), z3.IntSort())
    return SSeq(arr, n, kind)


# ---- heap objects -------------------------------------------------------


class HObj:
    """Instance of a (live) class; ``lazy`` maps field name -> kind or factory
    for fields created on first read (abstract inputs)."""

    def __init__(self, cls, fields=None, lazy=None, path="", open=False):
        self.cls = cls
        self.fields = dict(fields or {})
        self.lazy = dict(lazy or {})
        self.path = path
        self.open = open  # unknown fields default to fresh 'obj'

    def copy(self):
        o = HObj(self.cls, self.fields, self.lazy, self.path, self.open)
        return o


class HList:
    """list / deque / (mutable view of) sequence.  Either ``items`` (host list,
    concrete length) or (arr, n, k)."""

    def __init__(self, items=None, arr=None, n=None, k="obj", tag="list", maxlen=None):
        self.items = items
        self.arr = arr
        self.n = n
        self.k = k
        self.tag = tag

    def copy(self):
        return HList(list(self.items) if self.items is not None else None, self.arr, self.n, self.k, self.tag)

    @property
    def concrete(self):
        return self.items is not None


class HDict:
    """dict.  Either ``items`` (host dict keyed by hashable host values, ordered)
    or symbolic (dom: K->Bool, val: K->V, size)."""

    def __init__(self, items=None, dom=None, val=None, size=None, kk="obj", vk="obj", tag="dict"):
        self.items = items
        self.dom = dom
        self.val = val
        self.size = size
        self.kk = kk
        self.vk = vk
        self.tag = tag

    def copy(self):
        return HDict(dict(self.items) if self.items is not None else None, self.dom, self.val, self.size, self.kk, self.vk, self.tag)

    @property
    def concrete(self):
        return self.items is not None


class HSet:
    def __init__(self, items=None, dom=None, size=None, kk="obj"):
        self.items = items
        self.dom = dom
        self.size = size
        self.kk = kk

    def copy(self):
        return HSet(list(self.items) if self.items is not None else None, self.dom, self.size, self.kk)


class HLock:
    def __init__(self, held=False):
        self.held = held
        self.acquisitions = 0

    def copy(self):
        o = HLock(self.held)
        o.acquisitions = self.acquisitions
        return o


class HIter:
    """Iterator over a ghost sequence: items (SSeq or host list) + cursor."""

    def __init__(self, items, cursor=0, tag="iter"):
        self.items = items
        self.cursor = cursor
        self.tag = tag

    def copy(self):
        return HIter(self.items, self.cursor, self.tag)


class HCell:
    def __init__(self, value=None, bound=False):
        self.value = value
        self.bound = bound

    def copy(self):
        return HCell(self.value, self.bound)


class Event:
    """Ghost trace event."""

    __slots__ = ("kind", "name", "args", "kwargs", "result", "lineno", "held")

    def __init__(self, kind, name, args=(), kwargs=None, result=None, lineno=None, held=()):
        self.kind = kind
        self.name = name
        self.args = tuple(args)
        self.kwargs = dict(kwargs or {})
        self.result = result
        self.lineno = lineno
        self.held = tuple(held)

    def __repr__(self):
        return f"Event({self.kind} {self.name}{self.args!r} -> {self.result!r})"


class State:
    """One symbolic path."""

    def __init__(self):
        self.pc = []  # list of z3 Bool
        self.heap = {}  # id -> heap object
        self.trace = []  # list[Event]
        self.yields = []  # values yielded by the function under analysis
        self.notes = []  # decisions taken (for reporting)
        self.ghost = {}
        self._next = itertools.count(1)
        self.written = set()  # (ref id, field) writes, for frame checks
        self.allocated = set()  # ref ids allocated on this path
        self.frames = {}  # frame id -> {name: value}
        self._fid = itertools.count(1)

    def fork(self):
        s = State.__new__(State)
        s.pc = list(self.pc)
        s.heap = {k: v.copy() for k, v in self.heap.items()}
        s.trace = list(self.trace)
        s.yields = list(self.yields)
        s.notes = list(self.notes)
        s.ghost = dict(self.ghost)
        s._next = itertools.count(next(self._next))
        s.written = set(self.written)
        s.allocated = set(self.allocated)
        s.frames = {k: dict(v) for k, v in self.frames.items()}
        s._fid = itertools.count(next(self._fid))
        return s

    def new_frame(self, init=None):
        i = next(self._fid)
        self.frames[i] = dict(init or {})
        return i

    def alloc(self, hobj, initial=False) -> Ref:
        i = next(self._next)
        self.heap[i] = hobj
        if not initial:
            self.allocated.add(i)
        return Ref(i)

    def get(self, ref: Ref):
        return self.heap[ref.id]

    def assume(self, *conds):
        for c in conds:
            if c is True:
                continue
            if c is False:
                c = z3.BoolVal(False)
            self.pc.append(c)

    def note(self, s):
        self.notes.append(s)


def is_symbolic(v) -> bool:
    return isinstance(v, (Sym, Ref, SSeq, BoundMethod, Closure, Exc))
