"""Contracts and obligations.

A *Task* produces named obligation results.  Kinds:
  vc        pre/post/invariant/frame obligations on one real function, discharged by SMT
  path      structural predicates over the symbolic path summaries of a real function
            (traces, emission schemas); feasibility of each path by SMT
  table     finite tables read from the live modules, checked exhaustively
  regex     facts read off the real compiled patterns / regex-language inclusion by SMT
  bounded   bounded exhaustive run of the real function (stand-in, never 'proved')
"""
from __future__ import annotations

import time
import traceback
import z3

from .values import State, Sym, Ref, Exc, Unsupported, CheckerError, Closure
from .smt import check_sat, model_value, host_distinct_axiom
from . import extract


class Res:
    """Result of one obligation."""

    def __init__(self, name, status, backend="", seconds=0.0, detail="", kind="vc", witness=None, path=None):
        self.name = name
        self.status = status  # discharged | refuted | unknown | error | bounded-ok
        self.backend = backend
        self.seconds = seconds
        self.detail = detail
        self.kind = kind
        self.witness = witness  # json-able concrete input for replay
        self.path = path

    def to_json(self):
        return {k: v for k, v in self.__dict__.items() if v not in (None, "")}


class Task:
    kind = "task"
    prop = ""
    name = ""

    def run(self, tier, seed):  # -> list[Res]
        raise NotImplementedError

    def replay(self, witness):
        """Run the real code natively on a witness: -> (violated: bool, detail: str)."""
        return (None, "no native replay for this obligation")


class Outcome:
    def __init__(self, st, kind, value, idx):
        self.st = st
        self.kind = kind  # 'return' | 'raise'
        self.value = value
        self.idx = idx

    @property
    def returned(self):
        return self.kind == "return"

    @property
    def raised(self):
        return self.kind == "raise"

    def raised_class(self):
        return self.value.cls if self.kind == "raise" else None

    def events(self, kind=None, name=None):
        return [e for e in self.st.trace if (kind is None or e.kind == kind) and (name is None or e.name == name)]


class VC(Task):
    """Contract on one real function.

    Subclass or instantiate with:
      target   'jinja2.utils:LRUCache.__setitem__'
      setup(self, I, st) -> (args, kwargs)   builds the symbolic pre-state, assumes `requires`
      posts    list of (clause, fn(self, pre, out) -> z3 Bool | bool | None)
      configure(self, I)  registers specs / inlining / loop contracts
      concretize(self, model, pre, out) -> json-able witness ; replay(witness)
    """

    kind = "vc"
    target = ""
    posts = ()
    timeout_quick = 10000
    timeout_thorough = 60000
    expect_paths_min = 1

    def __init__(self, prop=None, name=None):
        if prop:
            self.prop = prop
        self.name = name or f"{self.prop}.{self.target.split(':')[-1]}"

    def configure(self, I):
        pass

    def setup(self, I, st):
        raise NotImplementedError

    def closure(self, I):
        fn = extract.resolve(self.target)
        return I.closure_of_function(fn)

    def concretize(self, model, pre, out):
        return None

    def paths(self, I):
        st = State()
        self.configure(I)
        args, kwargs = self.setup(I, st)
        pre = st.fork()
        clo = self.closure(I)
        if args == "locals":
            results = I.run_body(st, clo, kwargs)
        else:
            results = I.call_closure(st, clo, list(args), dict(kwargs))
        outs = []
        from .interp import Raised
        for i, (s, v) in enumerate(results):
            if isinstance(v, Raised):
                outs.append(Outcome(s, "raise", v.exc, i))
            else:
                outs.append(Outcome(s, "return", v, i))
        return pre, outs

    def run(self, tier, seed):
        from .engine import Interp
        timeout = self.timeout_quick if tier == "quick" else self.timeout_thorough
        res = []
        t0 = time.time()
        try:
            I = Interp()
            pre, outs = self.paths(I)
        except Unsupported as ex:
            return [Res(self.name + ".engine", "unknown", "pyvc", time.time() - t0, f"unsupported: {ex}", self.kind)]
        except CheckerError as ex:
            return [Res(self.name + ".engine", "error", "pyvc", time.time() - t0, f"checker error: {ex}", self.kind)]
        # vacuity: the precondition is satisfiable and at least one path is reachable
        r = check_sat(pre.pc, min(timeout, 3000), seed, use_cvc5=False)
        if r.status == "unsat":
            return [Res(self.name + ".requires_satisfiable", "error", r.backend, r.seconds, "contradictory precondition", self.kind)]
        reachable = 0
        for o in outs:
            rr = check_sat(o.st.pc, 400, seed, use_cvc5=False)
            o.reach = rr.status
            if rr.status != "unsat":
                reachable += 1
        if reachable < self.expect_paths_min:
            return [Res(self.name + ".paths_reachable", "error", "z3", 0, f"{reachable} reachable paths < {self.expect_paths_min}", self.kind)]
        self.n_paths = len(outs)
        # side obligations from the semantics (loop invariants, lock discipline)
        for (nm, pc, cond, ln) in I.obligations:
            res.append(self.discharge(f"{self.name}.{nm}@{ln}", pc, cond, timeout, seed, None, None))
        for clause, fn in self.posts:
            for o in outs:
                if o.reach == "unsat":
                    continue
                try:
                    f = fn(self, pre, o)
                except Unsupported as ex:
                    res.append(Res(f"{self.name}.{clause}#p{o.idx}", "unknown", "pyvc", 0, f"unsupported in postcondition: {ex}", self.kind))
                    continue
                if f is None:
                    continue
                res.append(self.discharge(f"{self.name}.{clause}#p{o.idx}", o.st.pc, f, timeout, seed, pre, o))
        if not res:
            res.append(Res(self.name + ".no_obligations", "error", "pyvc", 0, "contract generated zero obligations", self.kind))
        return res

    def discharge(self, name, pc, cond, timeout, seed, pre, out):
        t0 = time.time()
        if cond is True:
            return Res(name, "discharged", "pyvc-path", 0.0, "holds structurally on this path", self.kind)
        if cond is False:
            # structural failure on a reachable path: get a model of the path condition as witness
            r = check_sat(pc, timeout, seed, use_cvc5=False)
            if r.status == "unsat":
                return Res(name, "discharged", r.backend, r.seconds, "path infeasible", self.kind)
            if r.status == "unknown":
                r2 = check_sat(pc, timeout, seed, use_cvc5=True)
                if r2.status == "unsat":
                    return Res(name, "discharged", r2.backend, r.seconds + r2.seconds, "path infeasible", self.kind)
                return Res(name, "unknown", r.backend, r.seconds, "structural predicate false on a path whose feasibility is undecided", self.kind)
            wit = None
            if r.status == "sat" and pre is not None:
                try:
                    wit = self.concretize(r.model, pre, out)
                except Exception as ex:  # noqa
                    wit = None
            return Res(name, "refuted", r.backend, r.seconds, self.describe(out) + " (structural predicate false on a feasible path)", self.kind, wit)
        r = check_sat(list(pc) + [z3.Not(cond)], timeout, seed)
        if r.status == "unsat":
            return Res(name, "discharged", r.backend, r.seconds, "", self.kind)
        if r.status == "sat":
            wit = None
            if pre is not None:
                try:
                    wit = self.concretize(r.model, pre, out)
                except Exception as ex:  # noqa
                    wit = {"concretize_error": repr(ex)}
            return Res(name, "refuted", r.backend, r.seconds, self.describe(out) + " model: " + short_model(r.model), self.kind, wit)
        return Res(name, "unknown", r.backend, r.seconds, f"solver: {r.reason}", self.kind)

    def describe(self, out):
        if out is None:
            return ""
        if out.kind == "raise":
            return f"path#{out.idx} raises {out.value!r}"
        return f"path#{out.idx} returns"


def short_model(model, limit=600):
    try:
        items = []
        for d in model.decls():
            n = d.name()
            if "!" in n and not n.startswith(("k!",)):
                pass
            v = model[d]
            s = f"{n}={v}"
            if len(s) < 120:
                items.append(s)
        out = "; ".join(sorted(items))
        return out[:limit]
    except Exception:
        return "<model>"


class FnTask(Task):
    """Obligations computed by a plain function returning list[Res]."""

    def __init__(self, prop, name, fn, kind="table", replay_fn=None):
        self.prop = prop
        self.name = name
        self.fn = fn
        self.kind = kind
        self.replay_fn = replay_fn

    def run(self, tier, seed):
        t0 = time.time()
        try:
            rs = self.fn(self, tier, seed)
        except Unsupported as ex:
            return [Res(self.name + ".engine", "unknown", "pyvc", time.time() - t0, f"unsupported: {ex}", self.kind)]
        for r in rs:
            if not r.kind or r.kind == "vc":
                r.kind = self.kind
        return rs

    def replay(self, witness):
        if self.replay_fn:
            return self.replay_fn(witness)
        return (None, "no native replay")
