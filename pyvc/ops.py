"""Operators, attribute / item access and calls for the symbolic interpreter."""
from __future__ import annotations

import ast
import builtins
import inspect
import operator
import types
import z3

from .values import (
    Sym, Ref, BoundMethod, Closure, Exc, SSeq, HObj, HList, HDict, HSet, HLock,
    HIter, State, Event, Unsupported, CheckerError, fresh, fresh_name, KIND_SORT, Obj,
)
from .smt import to_term, kind_of
from .interp import Raised, Frame, seq, is_host, deep_host, BINOPS, CMPOPS, PURE_HOST


def raise_(st, cls, *args, node=None, tag=""):
    return [(st, Raised(Exc(cls, args, tag=tag, origin=getattr(node, "lineno", None))))]


py_eq = z3.Function("py_eq", Obj, Obj, z3.BoolSort())  # unused: '==' on Obj is identity (assumption A-EQ)
attr_fns = {}


def attr_fn(name):
    if name not in attr_fns:
        attr_fns[name] = z3.Function(f"attr:{name}", Obj, Obj)
    return attr_fns[name]


isinst_fns = {}


def isinst_fn(cls):
    key = cls
    if key not in isinst_fns:
        isinst_fns[key] = z3.Function(f"isinstance:{cls.__module__}.{cls.__qualname__}", Obj, z3.BoolSort())
    return isinst_fns[key]


class OpsMixin:
    # -------------------------------------------------------------- binop
    def binop(self, st, op, a, b, node=None):
        if is_host(a) and is_host(b) and deep_host(a) and deep_host(b):
            try:
                return [(st, BINOPS[op](a, b))]
            except Exception as ex:  # concrete Python semantics, including the exception
                return raise_(st, type(ex), *ex.args, node=node)
        ka, kb = kind_of(a), kind_of(b)
        if isinstance(a, (Ref, SSeq)) or isinstance(b, (Ref, SSeq)) or isinstance(a, tuple) or isinstance(b, tuple):
            return self.seq_binop(st, op, a, b, node)
        if ka in ("int", "bool") and kb in ("int", "bool"):
            x, y = to_term(a, "int"), to_term(b, "int")
            if op is ast.Add:
                return [(st, Sym(x + y, "int"))]
            if op is ast.Sub:
                return [(st, Sym(x - y, "int"))]
            if op is ast.Mult:
                return [(st, Sym(x * y, "int"))]
            if op in (ast.FloorDiv, ast.Mod):
                out = []
                for s, nz in self.fork_bool(st, y != 0):
                    if not nz:
                        out += raise_(s, ZeroDivisionError, "integer division or modulo by zero", node=node)
                        continue
                    # Python floor semantics: q = floor(x / y); z3 'div' is Euclidean for y>0
                    q = fresh("q", "int")
                    r = fresh("r", "int")
                    s.assume(x == y * q.t + r.t)
                    s.assume(z3.If(y > 0, z3.And(0 <= r.t, r.t < y), z3.And(y < r.t, r.t <= 0)))
                    out.append((s, q if op is ast.FloorDiv else r))
                return out
            raise Unsupported(f"integer operator {op.__name__} on symbolic ints", node)
        if ka == "str" and kb == "str":
            if op is ast.Add:
                return [(st, self.concat_strs([a, b]))]
        if ka == "str" and op is ast.Mult and kb == "int" and is_host(a):
            h = self.specs.get("str_repeat")  # contract-supplied dependency spec of `"lit" * n` (C35)
            if h is not None:
                r = h(self, st, [a, b], {}, node)
                if r is not None:
                    return r
            raise Unsupported("str * symbolic int", node)
        if ka == "str" and op is ast.Mod:
            raise Unsupported("%-formatting of symbolic strings needs a dependency spec", node)
        if ka == "obj" or kb == "obj":
            h = self.specs.get(("binop", op))
            if h is not None:
                return h(self, st, [a, b], {}, node)
            raise Unsupported(f"operator {op.__name__} on opaque values (no spec)", node)
        raise Unsupported(f"operator {op.__name__} on {ka},{kb}", node)

    def seq_binop(self, st, op, a, b, node):
        if op is ast.Add:
            la, lb = self.as_list_items(st, a), self.as_list_items(st, b)
            if la is not None and lb is not None:
                if isinstance(a, tuple):
                    return [(st, tuple(la + lb))]
                return [(st, st.alloc(HList(items=la + lb)))]
        h = self.specs.get(("binop", op))  # contract-supplied spec (e.g. `fmt % (a, b)` with an opaque fmt)
        if h is not None and (kind_of(a) == "obj" or kind_of(b) == "obj"):
            r = h(self, st, [a, b], {}, node)
            if r is not None:
                return r
        raise Unsupported(f"sequence operator {op.__name__}", node)

    def as_list_items(self, st, v):
        if isinstance(v, tuple):
            return list(v)
        if isinstance(v, Ref):
            h = st.get(v)
            if isinstance(h, HList) and h.concrete:
                return list(h.items)
        return None

    # ------------------------------------------------------------- compare
    def compare(self, st, op, a, b, node=None):
        if op in (ast.Is, ast.IsNot):
            r = self.identical(st, a, b)
            if op is ast.IsNot:
                r = (not r) if isinstance(r, bool) else Sym(z3.Not(r.t), "bool")
            return [(st, r)]
        if op in (ast.In, ast.NotIn):
            def neg(s, r):
                if op is ast.In:
                    return [(s, r)]
                return [(s, (not r) if isinstance(r, bool) else Sym(z3.Not(to_term(r, "bool")), "bool"))]
            return seq(self.contains(st, b, a, node), neg)
        if is_host(a) and is_host(b) and deep_host(a) and deep_host(b):
            try:
                return [(st, CMPOPS[op](a, b))]
            except Exception as ex:
                return raise_(st, type(ex), *ex.args, node=node)
        ka, kb = kind_of(a), kind_of(b)
        if isinstance(a, (Ref, tuple, SSeq)) or isinstance(b, (Ref, tuple, SSeq)):
            if op in (ast.Eq, ast.NotEq):
                r = self.structural_eq(st, a, b, node)
                if op is ast.NotEq:
                    r = (not r) if isinstance(r, bool) else Sym(z3.Not(r.t), "bool")
                return [(st, r)]
            raise Unsupported("ordering comparison on heap values", node)
        if ka in ("int", "bool") and kb in ("int", "bool"):
            x, y = to_term(a, "int"), to_term(b, "int")
            t = {ast.Eq: x == y, ast.NotEq: x != y, ast.Lt: x < y, ast.LtE: x <= y, ast.Gt: x > y, ast.GtE: x >= y}[op]
            return [(st, Sym(t, "bool"))]
        if ka == "str" and kb == "str":
            x, y = to_term(a, "str"), to_term(b, "str")
            if op is ast.Eq:
                return [(st, Sym(x == y, "bool"))]
            if op is ast.NotEq:
                return [(st, Sym(x != y, "bool"))]
            raise Unsupported("string ordering", node)
        if op in (ast.Eq, ast.NotEq):
            if ka != kb and "obj" not in (ka, kb):
                return [(st, op is ast.NotEq)]
            # assumption A-EQ: == on opaque values is an equivalence that coincides with term equality
            x, y = to_term(a, "obj"), to_term(b, "obj")
            t = (x == y) if op is ast.Eq else (x != y)
            return [(st, Sym(t, "bool"))]
        h = self.specs.get("compare_obj")
        if h is not None and "obj" in (ka, kb):
            r = h(self, st, [op, a, b], {}, node)
            if r is not None:
                return r
        raise Unsupported(f"comparison {op.__name__} on {ka},{kb}", node)

    def identical(self, st, a, b):
        if isinstance(a, Ref) or isinstance(b, Ref):
            if isinstance(a, Ref) and isinstance(b, Ref):
                return a.id == b.id
            other = b if isinstance(a, Ref) else a
            if isinstance(other, Sym) and other.k == "obj":
                return Sym(to_term(a, "obj") == to_term(b, "obj"), "bool")
            return False
        if isinstance(a, Sym) or isinstance(b, Sym):
            ka, kb = kind_of(a), kind_of(b)
            if ka == kb:
                return Sym(to_term(a) == to_term(b), "bool")
            if "obj" in (ka, kb):
                # an opaque value is never one of None/True/False-like host singletons unless stated
                return Sym(to_term(a, "obj") == to_term(b, "obj"), "bool")
            return False
        if isinstance(a, (BoundMethod, Closure)) or isinstance(b, (BoundMethod, Closure)):
            return a is b
        return a is b

    def structural_eq(self, st, a, b, node):
        la, lb = self.as_list_items(st, a), self.as_list_items(st, b)
        if la is not None and lb is not None:
            if isinstance(a, tuple) != isinstance(b, tuple):
                return False
            if len(la) != len(lb):
                return False
            conj = []
            for x, y in zip(la, lb):
                rs = self.compare(st, ast.Eq, x, y, node)
                if len(rs) != 1:
                    raise Unsupported("forking element comparison", node)
                r = rs[0][1]
                if r is False:
                    return False
                if r is not True:
                    conj.append(to_term(r, "bool"))
            return True if not conj else Sym(z3.And(*conj), "bool")
        if isinstance(a, Ref) and isinstance(b, Ref) and a.id == b.id:
            return True
        if isinstance(a, Ref) and isinstance(b, Ref) and isinstance(st.get(a), HObj) and isinstance(st.get(b), HObj):
            # two distinct abstract instances: equality taken as identity (assumption A-EQ)
            return False
        if (isinstance(a, Ref) and isinstance(b, Sym) and b.k == "obj") or (isinstance(b, Ref) and isinstance(a, Sym) and a.k == "obj"):
            # heap object vs opaque value: equality taken as identity (assumption A-EQ)
            return Sym(to_term(a, "obj") == to_term(b, "obj"), "bool")
        if (a is None) != (b is None) and (a is None or b is None):
            other = b if a is None else a
            if isinstance(other, (Ref, tuple)):
                return False
        raise Unsupported("equality on abstract heap values", node)

    def contains(self, st, container, item, node=None):
        if isinstance(container, Ref):
            h = st.get(container)
            if isinstance(h, HDict):
                if h.concrete:
                    if deep_host(item):
                        try:
                            return [(st, item in h.items)]
                        except TypeError as ex:
                            return raise_(st, TypeError, *ex.args, node=node)
                    ks = list(h.items.keys())
                    return self._in_items(st, ks, item, node)
                st.trace.append(Event("read", "dict.__contains__", [container, item], lineno=getattr(node, "lineno", None), held=self.held_locks(st)))
                return [(st, Sym(z3.Select(h.dom, to_term(item, h.kk)), "bool"))]
            if isinstance(h, HList):
                if h.concrete:
                    return self._in_items(st, h.items, item, node)
                i = z3.Int(fresh_name("i"))
                x = to_term(item, h.k)
                return [(st, Sym(z3.Exists([i], z3.And(0 <= i, i < h.n, z3.Select(h.arr, i) == x)), "bool"))]
            if isinstance(h, HSet):
                if h.items is not None:
                    return self._in_items(st, h.items, item, node)
                return [(st, Sym(z3.Select(h.dom, to_term(item, h.kk)), "bool"))]
            if isinstance(h, HObj):
                return self.call_method(st, container, "__contains__", [item], {}, node)
        if isinstance(container, tuple):
            return self._in_items(st, list(container), item, node)
        if isinstance(container, Sym) and container.k == "str":
            return [(st, Sym(z3.Contains(container.t, to_term(item, "str")), "bool"))]
        if isinstance(container, str) and isinstance(item, Sym) and item.k == "str":
            return [(st, Sym(z3.Contains(z3.StringVal(container), item.t), "bool"))]
        if is_host(container):
            if deep_host(item):
                try:
                    return [(st, item in container)]
                except TypeError as ex:
                    return raise_(st, TypeError, *ex.args, node=node)
            if isinstance(container, (frozenset, set, list, dict)):
                return self._in_items(st, sorted(container, key=repr), item, node)
        h = self.specs.get("contains")
        if h is not None:
            r = h(self, st, [container, item], {}, node)
            if r is not None:
                return r
        raise Unsupported(f"'in' on {container!r}", node)

    def _in_items(self, st, items, item, node):
        disj = []
        for x in items:
            rs = self.compare(st, ast.Eq, x, item, node)
            if len(rs) != 1:
                raise Unsupported("forking membership comparison", node)
            r = rs[0][1]
            if r is True:
                return [(st, True)]
            if r is not False:
                disj.append(to_term(r, "bool"))
        if not disj:
            return [(st, False)]
        return [(st, Sym(z3.Or(*disj), "bool"))]

    def held_locks(self, st):
        return tuple(i for i, h in st.heap.items() if isinstance(h, HLock) and h.held)

    # ------------------------------------------------------------- getattr
    def getattr(self, st, obj, name, node=None):
        if self.attr_hook is not None:
            r = self.attr_hook(self, st, obj, name, node)
            if r is not None:
                return r
        if isinstance(obj, Ref):
            h = st.get(obj)
            if isinstance(h, HObj):
                return self.obj_getattr(st, obj, h, name, node)
            return [(st, BoundMethod(obj, name))]
        if isinstance(obj, Sym):
            if obj.k == "str":
                return [(st, BoundMethod(obj, name))]
            if obj.k == "obj":
                h = self.specs.get("getattr_obj")
                if h is not None:
                    r = h(self, st, [obj, name], {}, node)
                    if r is not None:
                        return r
                raise Unsupported(f"attribute {name!r} of an opaque value (no spec)", node)
            raise Unsupported(f"attribute {name!r} of symbolic {obj.k}", node)
        if isinstance(obj, Exc):
            if name == "args":
                return [(st, obj.args)]
            if name == "__class__":
                return [(st, obj.cls)]
            raise Unsupported(f"attribute {name} of exception value", node)
        if isinstance(obj, (BoundMethod, Closure, SSeq)):
            if isinstance(obj, SSeq) or (isinstance(obj, BoundMethod) and obj.name == "__dict__"):
                return [(st, BoundMethod(obj, name))]
            raise Unsupported(f"attribute {name} of function value", node)
        if isinstance(obj, tuple) and not deep_host(obj):
            return [(st, BoundMethod(obj, name))]
        try:
            return [(st, getattr(obj, name))]
        except AttributeError as ex:
            return raise_(st, AttributeError, *ex.args, node=node)

    def obj_getattr(self, st, ref, h, name, node):
        if name in h.fields:
            return [(st, h.fields[name])]
        if name == "__class__":
            return [(st, h.cls)]
        if name == "__dict__":
            return [(st, BoundMethod(ref, "__dict__"))]
        cls = h.cls if inspect.isclass(h.cls) else None
        if cls is not None and f"{cls.__name__}.{name}" in self.specs:
            return [(st, BoundMethod(ref, name))]
        if name in h.lazy:
            v = self.make_lazy(st, ref, h, name, h.lazy[name])
            h.fields[name] = v
            return [(st, v)]
        if cls is not None:
            try:
                static = inspect.getattr_static(cls, name)
            except AttributeError:
                static = None
            if static is not None:
                if isinstance(static, property):
                    return self.call_repo_function(st, static.fget, [ref], {}, node, owner=cls)
                if isinstance(static, (staticmethod,)):
                    return [(st, static.__func__)]
                if isinstance(static, classmethod):
                    return [(st, BoundMethod(cls, name))]
                if isinstance(static, types.FunctionType):
                    return [(st, BoundMethod(ref, name))]
                if isinstance(static, (int, str, bool, tuple, frozenset, type(None), float)) or inspect.isclass(static):
                    return [(st, static)]
                if callable(static):
                    return [(st, BoundMethod(ref, name))]
                return [(st, static)]
        if h.open:
            v = fresh(f"{h.path or 'o'}.{name}", "obj")
            h.fields[name] = v
            return [(st, v)]
        return raise_(st, AttributeError, f"{getattr(cls, '__name__', h.cls)!s} object has no attribute {name!r}", node=node)

    def make_lazy(self, st, ref, h, name, spec):
        path = f"{h.path}.{name}" if h.path else name
        if callable(spec):
            return spec(st, path)
        from .values import sym
        return sym(path, spec)

    def setattr(self, st, obj, name, v, node=None):
        if isinstance(obj, Ref):
            h = st.get(obj)
            if isinstance(h, HObj):
                cls = h.cls if inspect.isclass(h.cls) else None
                if cls is not None:
                    static = None
                    try:
                        static = inspect.getattr_static(cls, name)
                    except AttributeError:
                        pass
                    if isinstance(static, property):
                        if static.fset is None:
                            return raise_(st, AttributeError, f"can't set attribute {name!r}", node=node)
                        return self.call_repo_function(st, static.fset, [obj, v], {}, node, owner=cls)
                    sa = getattr(cls, "__setattr__", None)
                    if sa is not None and sa is not object.__setattr__ and not getattr(h, "plain_setattr", False):
                        return self.call_repo_function(st, sa, [obj, name, v], {}, node, owner=cls)
                h.fields[name] = v
                st.written.add((obj.id, name))
                st.trace.append(Event("write", "setattr", [obj, name, v], lineno=getattr(node, "lineno", None), held=self.held_locks(st)))
                return [(st, None)]
        h = self.specs.get("setattr_obj")
        if h is not None:
            r = h(self, st, [obj, name, v], {}, node)
            if r is not None:
                return r
        raise Unsupported(f"attribute store on {obj!r}", node)

    # ------------------------------------------------------------- getitem
    def getitem(self, st, obj, idx, node=None):
        from . import models
        return models.getitem(self, st, obj, idx, node)

    def getslice(self, st, obj, sl, node=None):
        from . import models
        return models.getslice(self, st, obj, sl, node)

    def setitem(self, st, obj, idx, v, node=None):
        from . import models
        return models.setitem(self, st, obj, idx, v, node)

    def delitem(self, st, obj, idx, node=None):
        from . import models
        return models.delitem(self, st, obj, idx, node)

    # ---------------------------------------------------------------- calls
    def call(self, st, fn, args, kwargs, node=None):
        if isinstance(fn, Closure):
            return self.call_closure(st, fn, args, kwargs, node)
        if isinstance(fn, BoundMethod):
            return self.call_method(st, fn.recv, fn.name, args, kwargs, node)
        if isinstance(fn, (Sym, Ref)):
            if isinstance(fn, Ref):
                h = st.get(fn)
                if isinstance(h, HObj):
                    return self.call_method(st, fn, "__call__", args, kwargs, node)
            h = self.specs.get("call_obj")
            if h is not None:
                r = h(self, st, [fn] + list(args), kwargs, node)
                if r is not None:
                    return r
            raise Unsupported("call of an opaque value (no spec)", node)
        # host callable
        h = self.specs.get(self.spec_key(fn))
        if h is not None:
            return h(self, st, args, kwargs, node)
        if inspect.isclass(fn):
            return self.instantiate(st, fn, args, kwargs, node)
        if isinstance(fn, types.MethodType):
            # bound method of a host object (e.g. a str method on a literal)
            selfv = fn.__self__
            if inspect.ismodule(selfv):
                pass
            elif isinstance(fn.__func__, types.FunctionType) and self.is_repo(fn.__func__):
                return self.call_repo_function(st, fn.__func__, [selfv] + list(args), kwargs, node)
        if isinstance(fn, types.FunctionType) and self.is_repo(fn):
            return self.call_repo_function(st, fn, args, kwargs, node)
        if isinstance(fn, types.BuiltinMethodType) or isinstance(fn, types.MethodWrapperType) or type(fn).__name__ in ("method_descriptor", "builtin_function_or_method"):
            selfv = getattr(fn, "__self__", None)
            if selfv is not None and not inspect.ismodule(selfv) and not inspect.isclass(selfv):
                # method of a host value, e.g. "abc".startswith
                return self.call_method(st, selfv, fn.__name__, args, kwargs, node)
        if self.host_pure(fn) and deep_host(tuple(args)) and deep_host(kwargs):
            try:
                return [(st, fn(*args, **kwargs))]
            except Exception as ex:
                return raise_(st, type(ex), *ex.args, node=node)
        if self.host_pure(fn) and self.specs.get("pure_builtin_obj") is not None:
            r = self.specs["pure_builtin_obj"](self, st, [fn] + list(args), kwargs, node)
            if r is not None:
                return r
        if self.on_unknown_call is not None:
            r = self.on_unknown_call(self, st, fn, args, kwargs, node)
            if r is not None:
                return r
        raise Unsupported(f"call of {getattr(fn, '__qualname__', fn)!r} has no contract/spec", node)

    def spec_key(self, fn):
        try:
            return ("fn", id(fn) if not isinstance(fn, types.MethodType) else id(fn.__func__))
        except Exception:
            return None

    def host_pure(self, fn):
        try:
            return fn in PURE_HOST or fn in self.extra_pure
        except TypeError:
            return False

    extra_pure = set()

    def is_repo(self, fn):
        return getattr(fn, "__module__", "").startswith("jinja2")

    def qualname_of(self, fn):
        return f"{fn.__module__}:{fn.__qualname__}"

    def call_repo_function(self, st, fn, args, kwargs, node=None, owner=None):
        fn = inspect.unwrap(fn) if False else fn
        qn = self.qualname_of(fn)
        h = self.specs.get(qn)
        if h is not None:
            return h(self, st, args, kwargs, node)
        if qn in self.abstract:
            return self.abstract[qn](self, st, args, kwargs, node)
        if "*" in self.inline or qn in self.inline:
            clo = self.closure_of_function(fn)
            return self.call_closure(st, clo, args, kwargs, node)
        if self.on_unknown_call is not None:
            r = self.on_unknown_call(self, st, fn, args, kwargs, node)
            if r is not None:
                return r
        # A private helper (`_name`, not a dunder) without a contract of its own is executed from its real source: that
        # is always sound, and it keeps a contract decided when a maintainer extracts a few lines of a function under
        # contract into a helper (refactoring round, DESIGN 11.7).  Depth-limited against recursive helpers.
        simple = getattr(fn, "__name__", "")
        if self.auto_inline_private and simple.startswith("_") and not simple.startswith("__") and self._auto_inline_depth < 4:
            self._auto_inline_depth += 1
            try:
                clo = self.closure_of_function(fn)
                return self.call_closure(st, clo, args, kwargs, node)
            finally:
                self._auto_inline_depth -= 1
        raise Unsupported(f"call of repo function {qn} without contract (not inlined)", node)

    auto_inline_private = True
    _auto_inline_depth = 0

    def closure_of_function(self, fn):
        from .extract import function_ast
        is_cm = False
        if getattr(fn, "__wrapped__", None) is not None and getattr(fn.__code__, "co_filename", "").endswith("contextlib.py"):
            # @contextmanager: the generator function is the real code; entering runs it up to the yield
            fn = fn.__wrapped__
            is_cm = True
        node, module = function_ast(fn)
        if is_cm:
            c = Closure(node, module, [], fn.__qualname__)
            c.live = fn
            c.defaults = list(fn.__defaults__ or ())
            c.kwdefaults = dict(fn.__kwdefaults__ or {})
            c.contextmanager = True
            return c
        if fn.__closure__:
            # closure cells of a live function: expose as an extra frame is not possible
            # statically; bind free variables as host values at call time
            pass
        c = Closure(node, module, [], fn.__qualname__)
        c.live = fn
        # defaults are host values from the live function
        c.defaults = list(fn.__defaults__ or ())
        c.kwdefaults = dict(fn.__kwdefaults__ or {})
        return c

    def call_method(self, st, recv, name, args, kwargs, node=None):
        from . import models
        if isinstance(recv, Ref):
            h = st.get(recv)
            if isinstance(h, HObj):
                cls = h.cls if inspect.isclass(h.cls) else None
                key = f"{getattr(cls, '__name__', h.cls)}.{name}"
                sp = self.specs.get(key)
                if sp is not None:
                    return sp(self, st, [recv] + list(args), kwargs, node)
                if name in h.fields:
                    return self.call(st, h.fields[name], args, kwargs, node)
                if cls is not None:
                    static = None
                    for k in cls.__mro__:
                        if name in k.__dict__:
                            static = k.__dict__[name]
                            sp = self.specs.get(f"{k.__name__}.{name}")
                            if sp is not None:
                                return sp(self, st, [recv] + list(args), kwargs, node)
                            break
                    if static is None:
                        return raise_(st, AttributeError, f"no attribute {name!r}", node=node)
                    if isinstance(static, staticmethod):
                        return self.call(st, static.__func__, args, kwargs, node)
                    if isinstance(static, classmethod):
                        return self.call(st, static.__func__, [cls] + list(args), kwargs, node)
                    if isinstance(static, types.FunctionType):
                        if self.is_repo(static):
                            return self.call_repo_function(st, static, [recv] + list(args), kwargs, node, owner=cls)
                    raise Unsupported(f"method {key} is not a plain function", node)
                if self.on_unknown_call is not None:
                    r = self.on_unknown_call(self, st, BoundMethod(recv, name), args, kwargs, node)
                    if r is not None:
                        return r
                raise Unsupported(f"method {key} on abstract object without spec", node)
        return models.call_method(self, st, recv, name, args, kwargs, node)

    def instantiate(self, st, cls, args, kwargs, node=None):
        from . import models
        r = models.instantiate(self, st, cls, args, kwargs, node)
        if r is not None:
            return r
        if issubclass(cls, BaseException):
            return [(st, Exc(cls, args, origin=getattr(node, "lineno", None)))]
        if self.is_repo(cls):
            ref = st.alloc(HObj(cls))
            init = cls.__init__
            if init is object.__init__:
                return [(st, ref)]
            rs = self.call_repo_function(st, init, [ref] + list(args), kwargs, node, owner=cls)
            return seq(rs, lambda s, _: [(s, ref)])
        raise Unsupported(f"instantiation of {cls!r}", node)

    # ------------------------------------------------------ inlined closures
    def call_closure(self, st, clo, args, kwargs, node=None):
        fnode = clo.node
        a = fnode.args
        if clo.self_val is not None:
            args = [clo.self_val] + list(args)
        args = list(args)
        kwargs = dict(kwargs)
        local = {}
        pos_params = [p.arg for p in a.posonlyargs + a.args]
        n = len(pos_params)
        defaults = list(clo.defaults)
        for i, p in enumerate(pos_params):
            if i < len(args):
                local[p] = args[i]
                if p in kwargs and i >= len(a.posonlyargs):
                    return raise_(st, TypeError, f"multiple values for argument {p!r}", node=node)
            elif p in kwargs and i >= len(a.posonlyargs):
                local[p] = kwargs.pop(p)
            else:
                di = i - (n - len(defaults))
                if di >= 0:
                    local[p] = defaults[di]
                else:
                    return raise_(st, TypeError, f"missing required argument {p!r}", node=node)
        if len(args) > n:
            if a.vararg is None:
                return raise_(st, TypeError, "too many positional arguments", node=node)
            local[a.vararg.arg] = tuple(args[n:])
        elif a.vararg is not None:
            local[a.vararg.arg] = ()
        for p in a.kwonlyargs:
            if p.arg in kwargs:
                local[p.arg] = kwargs.pop(p.arg)
            elif p.arg in clo.kwdefaults:
                local[p.arg] = clo.kwdefaults[p.arg]
            else:
                return raise_(st, TypeError, f"missing keyword-only argument {p.arg!r}", node=node)
        if kwargs:
            if a.kwarg is None:
                return raise_(st, TypeError, f"unexpected keyword argument {next(iter(kwargs))!r}", node=node)
            local[a.kwarg.arg] = st.alloc(HDict(items=dict(kwargs)))
        elif a.kwarg is not None:
            local[a.kwarg.arg] = st.alloc(HDict(items={}))
        live = getattr(clo, "live", None)
        if live is not None and live.__closure__:
            for nm, cell in zip(live.__code__.co_freevars, live.__closure__):
                try:
                    local.setdefault(nm, cell.cell_contents)
                except ValueError:
                    pass
        fid = st.new_frame(local)
        nonlocals = set()
        if isinstance(fnode, (ast.FunctionDef, ast.AsyncFunctionDef)):
            for sub in ast.walk(fnode):
                if isinstance(sub, ast.Nonlocal):
                    nonlocals.update(sub.names)
        fr = Frame(fid, list(clo.cells), clo.module, clo.qualname, nonlocals, fn_node=fnode)
        if getattr(clo, "contextmanager", False):
            from .stmts import CMGen
            return [(st, CMGen(clo, fr))]
        is_gen = isinstance(fnode, (ast.FunctionDef, ast.AsyncFunctionDef)) and self.is_generator(fnode)
        if is_gen and getattr(self, "depth", 0) > 0:
            return self.call_generator(st, clo, fr, node)
        self.depth = getattr(self, "depth", 0) + 1
        try:
            if isinstance(fnode, ast.Lambda):
                return self.ev(fnode.body, st, fr)
            outs = self.exec_block(fnode.body, st, fr)
        finally:
            self.depth -= 1
        res = []
        for s, c in outs:
            if c.kind == "raise":
                res.append((s, Raised(c.value)))
            elif c.kind == "return":
                res.append((s, c.value))
            elif c.kind == "ok":
                res.append((s, None))
            else:
                raise CheckerError(f"{c.kind} escaped function {clo.qualname}")
        return res

    def run_body(self, st, clo, local):
        """Execute the body of a function with explicitly given parameter bindings (used when
        *args / **kwargs themselves are symbolic)."""
        fnode = clo.node
        fid = st.new_frame(dict(local))
        fr = Frame(fid, list(clo.cells), clo.module, clo.qualname, set(), fn_node=fnode)
        self.depth = getattr(self, "depth", 0) + 1
        try:
            outs = self.exec_block(fnode.body, st, fr)
        finally:
            self.depth -= 1
        res = []
        for s, c in outs:
            if c.kind == "raise":
                res.append((s, Raised(c.value)))
            elif c.kind == "return":
                res.append((s, c.value))
            else:
                res.append((s, None))
        return res

    def is_generator(self, fnode):
        for sub in ast.walk(fnode):
            if isinstance(sub, (ast.Yield, ast.YieldFrom)):
                # not inside a nested def
                return self._owns(fnode, sub)
        return False

    def _owns(self, fnode, target):
        def walk(n):
            for c in ast.iter_child_nodes(n):
                if c is target:
                    return True
                if isinstance(c, (ast.FunctionDef, ast.AsyncFunctionDef, ast.Lambda)):
                    continue
                if walk(c):
                    return True
            return False
        return walk(fnode)

    def call_generator(self, st, clo, fr, node):
        """A nested generator call: run eagerly, collect its yields as a list iterator
        (assumption: the generator body has no effects that depend on laziness)."""
        saved_y = st.yields
        st.yields = []
        self.depth += 1
        try:
            outs = self.exec_block(clo.node.body, st, fr)
        finally:
            self.depth -= 1
        res = []
        for s, c in outs:
            ys = s.yields
            s.yields = list(saved_y)
            if c.kind == "raise":
                res.append((s, Raised(c.value)))
            else:
                res.append((s, s.alloc(HIter(list(ys), 0, tag="generator"))))
        return res
