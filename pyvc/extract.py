"""Extraction of the real functions from /repo's working tree.

The verified text is the `ast` of the function as found in the source file of
the live (imported from /repo/src) module, located by the code object's first
line.  Dropped, exactly: annotations, docstrings, comments, decorators (each
dropped decorator is recorded and must be in DECORATORS)."""
from __future__ import annotations

import ast
import hashlib
import importlib
import inspect
import sys

REPO_SRC = "/repo/src"
DECORATORS = {
    "internalcode": "marks the code object; no semantic effect on the call",
    "pass_context": "attribute tag jinja_pass_arg", "pass_eval_context": "attribute tag jinja_pass_arg",
    "pass_environment": "attribute tag jinja_pass_arg",
    "property": "calling convention", "staticmethod": "calling convention", "classmethod": "calling convention",
    "optimizeconst": "own contract (C08/C20): folds when as_const succeeds and the frame is not volatile",
    "async_variant": "own contract (C09.dispatch)", "contextmanager": "dependency spec",
    "t.overload": "typing only", "overload": "typing only", "lru_cache": "memoisation, result-transparent",
    "abc.MutableMapping.register": "ABC registration", "t.no_type_check": "typing only",
    "functools.wraps": "metadata copy", "wraps": "metadata copy", "update_wrapper": "metadata copy",
}

_module_asts = {}
EXTRACTED = {}  # qualname -> info, for the evidence


def module_ast(module):
    name = module.__name__
    if name not in _module_asts:
        path = inspect.getsourcefile(module)
        src = open(path, encoding="utf-8").read()
        _module_asts[name] = (ast.parse(src), src, path)
    return _module_asts[name]


_function_ast_cache = {}  # code object -> (node, module): the lookup below walks the whole module ast


def function_ast(fn):
    """-> (FunctionDef node, live module) for a live function object."""
    key = getattr(fn, "__code__", None)
    hit = _function_ast_cache.get(key) if key is not None else None
    if hit is not None and (fn.__module__ + ":" + fn.__qualname__) in EXTRACTED:
        return hit
    r = _function_ast_uncached(fn)
    if key is not None:
        _function_ast_cache[key] = r
    return r


def _function_ast_uncached(fn):
    fn = getattr(fn, "__wrapped__", fn) if False else fn
    module = sys.modules[fn.__module__]
    tree, src, path = module_ast(module)
    line = fn.__code__.co_firstlineno
    best = None
    for node in ast.walk(tree):
        if isinstance(node, (ast.FunctionDef, ast.AsyncFunctionDef, ast.Lambda)):
            first = node.lineno
            if isinstance(node, (ast.FunctionDef, ast.AsyncFunctionDef)) and node.decorator_list:
                first = min(d.lineno for d in node.decorator_list)
            if first == line or node.lineno == line:
                if isinstance(node, ast.Lambda) or node.name == fn.__name__:
                    best = node
                    break
    if best is None:
        # decorator wrappers carry the wrapped function's name (functools.update_wrapper): match by line only
        module = sys.modules.get(getattr(fn, "__globals__", {}).get("__name__", fn.__module__), module)
        tree, src, path = module_ast(module)
        for node in ast.walk(tree):
            if isinstance(node, (ast.FunctionDef, ast.AsyncFunctionDef)) and node.lineno == line:
                best = node
                break
    if best is None:
        raise LookupError(f"cannot locate source of {fn.__module__}:{fn.__qualname__}")
    record(fn.__module__ + ":" + fn.__qualname__, best, src, path)
    return best, module


def record(qualname, node, src, path):
    seg = ast.get_source_segment(src, node) or ""
    decos = []
    if isinstance(node, (ast.FunctionDef, ast.AsyncFunctionDef)):
        decos = [ast.unparse(d) for d in node.decorator_list]
    unknown = [d for d in decos if d.split("(")[0] not in DECORATORS]
    EXTRACTED[qualname] = {
        "qualname": qualname,
        "file": path,
        "lineno": node.lineno,
        "sha256": hashlib.sha256(seg.encode()).hexdigest()[:16],
        "dropped_decorators": decos,
        "unknown_decorators": unknown,
    }


def resolve(qualname):
    """'jinja2.utils:LRUCache.__setitem__' -> live object (function, raw from class dict)."""
    modname, _, path = qualname.partition(":")
    obj = importlib.import_module(modname)
    parts = path.split(".")
    for i, p in enumerate(parts):
        if inspect.isclass(obj):
            raw = inspect.getattr_static(obj, p)
            if isinstance(raw, (staticmethod, classmethod)):
                raw = raw.__func__
            if isinstance(raw, property):
                raw = raw.fget
            obj = raw
        else:
            obj = getattr(obj, p)
    while hasattr(obj, "__wrapped__"):
        obj = obj.__wrapped__
    return obj


def nested_function_ast(outer_qualname, inner_name):
    """FunctionDef of a def nested in a repo function (e.g. _make_binop.<locals>.visitor)."""
    outer = resolve(outer_qualname)
    node, module = function_ast(outer)
    for sub in ast.walk(node):
        if isinstance(sub, (ast.FunctionDef, ast.AsyncFunctionDef)) and sub.name == inner_name and sub is not node:
            tree, src, path = module_ast(module)
            record(f"{outer_qualname}.<locals>.{inner_name}", sub, src, path)
            return sub, module
    raise LookupError(f"{inner_name} not found in {outer_qualname}")
