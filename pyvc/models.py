"""Dependency specs (assumption A4): models of builtins and library types used
by the verified functions.  Each model states the library's documented
behaviour over the symbolic encodings; they are assumed, not proved, and are
listed in the evidence as the trusted base."""
from __future__ import annotations

import ast
import builtins
import collections
import inspect
import threading
import z3

from .values import (
    Sym, Ref, BoundMethod, Closure, Exc, SSeq, HObj, HList, HDict, HSet, HLock,
    HIter, Event, Unsupported, CheckerError, fresh, fresh_name, KIND_SORT, Obj, sym,
)
from .smt import to_term, kind_of
from .interp import Raised, seq, is_host, deep_host

USED = set()  # names of dependency specs exercised in this process (for the evidence)


def used(name):
    USED.add(name)


def raise_(st, cls, *args, node=None, tag=""):
    return [(st, Raised(Exc(cls, args, tag=tag, origin=getattr(node, "lineno", None))))]


py_repr_str = z3.Function("py_repr_str", z3.StringSort(), z3.StringSort())
py_str_obj = z3.Function("py_str_obj", Obj, z3.StringSort())
py_repr_obj = z3.Function("py_repr_obj", Obj, z3.StringSort())
py_str_int = z3.Function("py_str_int", z3.IntSort(), z3.StringSort())
py_len_obj = z3.Function("py_len_obj", Obj, z3.IntSort())
py_type_obj = z3.Function("py_type_obj", Obj, Obj)


def lineno(node):
    return getattr(node, "lineno", None)


# --------------------------------------------------------------------- helpers

def norm_index(h_n, idx):
    """Python index normalisation: (in_range condition, normalised index term)."""
    i = to_term(idx, "int")
    ni = z3.If(i < 0, i + h_n, i)
    ok = z3.And(ni >= 0, ni < h_n)
    return ok, ni


from .values import fresh_arr, sel, elem_eq, arr_store  # noqa: E402


# --------------------------------------------------------------------- getitem

def getitem(I, st, obj, idx, node):
    if isinstance(obj, Ref):
        h = st.get(obj)
        if isinstance(h, HList):
            st.trace.append(Event("read", f"{h.tag}.__getitem__", [obj, idx], lineno=lineno(node), held=I.held_locks(st)))
            if h.concrete:
                if isinstance(idx, int):
                    try:
                        return [(st, h.items[idx])]
                    except IndexError:
                        return raise_(st, IndexError, "list index out of range", node=node)
                raise Unsupported("symbolic index into concrete list", node)
            used(f"{h.tag}.__getitem__")
            ok, ni = norm_index(h.n, idx)
            out = []
            for s, b in I.fork_bool(st, ok):
                if b:
                    out.append((s, sel(h.arr, h.k, ni)))
                else:
                    out += raise_(s, IndexError, "index out of range", node=node)
            return out
        if isinstance(h, HDict):
            st.trace.append(Event("read", "dict.__getitem__", [obj, idx], lineno=lineno(node), held=I.held_locks(st)))
            if h.concrete:
                if deep_host(idx):
                    if idx in h.items:
                        return [(st, h.items[idx])]
                    return raise_(st, KeyError, idx, node=node)
                raise Unsupported("symbolic key into concrete dict", node)
            used("dict.__getitem__")
            k = to_term(idx, h.kk)
            out = []
            for s, b in I.fork_bool(st, z3.Select(h.dom, k)):
                if b:
                    out.append((s, Sym(z3.Select(h.val, k), h.vk)))
                else:
                    out += raise_(s, KeyError, idx, node=node)
            return out
        if isinstance(h, HObj):
            return I.call_method(st, obj, "__getitem__", [idx], {}, node)
    if isinstance(obj, SSeq):
        ok, ni = norm_index(obj.n, idx)
        out = []
        for s, b in I.fork_bool(st, ok):
            if b:
                out.append((s, sel(obj.arr, obj.k, ni)))
            else:
                out += raise_(s, IndexError, "index out of range", node=node)
        return out
    if isinstance(obj, tuple):
        if isinstance(idx, int):
            try:
                return [(st, obj[idx])]
            except IndexError:
                return raise_(st, IndexError, "tuple index out of range", node=node)
        raise Unsupported("symbolic index into tuple", node)
    if isinstance(obj, (Sym, str)) and kind_of(obj) == "str":
        s_t = to_term(obj, "str")
        n = z3.Length(s_t)
        ok, ni = norm_index(n, idx)
        out = []
        for s, b in I.fork_bool(st, ok):
            if b:
                out.append((s, Sym(z3.SubString(s_t, ni, 1), "str")))
            else:
                out += raise_(s, IndexError, "string index out of range", node=node)
        return out
    if is_host(obj) and deep_host(idx):
        try:
            return [(st, obj[idx])]
        except Exception as ex:
            return raise_(st, type(ex), *ex.args, node=node)
    if isinstance(obj, dict) and isinstance(idx, Sym) and idx.k == "str" and all(isinstance(k, str) for k in obj):
        return finite_lookup(I, st, obj, idx, node, None, False)
    sp = I.specs.get("getitem_obj")
    if sp is not None:
        r = sp(I, st, [obj, idx], {}, node)
        if r is not None:
            return r
    raise Unsupported(f"subscript of {obj!r}", node)


def finite_lookup(I, st, table, key, node, default, has_default):
    """table[key] for a finite host dict with string keys and a symbolic key: case split over the
    keys (exhaustive) plus the 'no such key' case."""
    from .smt import feasible
    out = []
    for k, v in table.items():
        s = st.fork()
        s.assume(key.t == z3.StringVal(k))
        if feasible(s.pc, I.feas_timeout):
            out.append((s, v))
    st.assume(*[key.t != z3.StringVal(k) for k in table])
    if feasible(st.pc, I.feas_timeout):
        if has_default:
            out.append((st, default))
        else:
            out += raise_(st, KeyError, key, node=node)
    return out


def getslice(I, st, obj, sl, node):
    lo, hi, step = sl
    if isinstance(obj, Ref):
        h = st.get(obj)
        if isinstance(h, HList) and h.concrete and all(x is None or isinstance(x, int) for x in sl):
            return [(st, st.alloc(HList(items=h.items[slice(lo, hi, step)], tag="list")))]
        if isinstance(h, HList) and not h.concrete and step is None:
            sub = sseq_slice(SSeq(h.arr, h.n, h.k), lo, hi, st)
            return [(st, st.alloc(HList(arr=sub.arr, n=sub.n, k=sub.k)))]
    if isinstance(obj, tuple) and all(x is None or isinstance(x, int) for x in sl):
        return [(st, obj[slice(lo, hi, step)])]
    if isinstance(obj, SSeq) and step is None:
        return [(st, sseq_slice(obj, lo, hi, st))]
    if kind_of(obj) == "str" and step is None:
        used("str.__getitem__(slice)")
        s_t = to_term(obj, "str")
        n = z3.Length(s_t)

        def clamp(x, default):
            if x is None:
                return default
            t = to_term(x, "int")
            t = z3.If(t < 0, t + n, t)
            return z3.If(t < 0, z3.IntVal(0), z3.If(t > n, n, t))

        a, b = clamp(lo, z3.IntVal(0)), clamp(hi, n)
        ln = z3.If(b > a, b - a, z3.IntVal(0))
        return [(st, Sym(z3.SubString(s_t, a, ln), "str", getattr(obj, "tags", frozenset())))]
    if is_host(obj) and deep_host(sl):
        return [(st, obj[slice(lo, hi, step)])]
    sp = I.specs.get("getslice_obj")
    if sp is not None:
        r = sp(I, st, [obj, sl], {}, node)
        if r is not None:
            return r
    raise Unsupported(f"slice of {obj!r}", node)


def sseq_slice(s, lo, hi, st):
    """s[lo:hi] for SSeq with Python clamping; result array defined by a quantified axiom."""
    n = s.n

    def clamp(x, default):
        if x is None:
            return default
        t = to_term(x, "int")
        t = z3.If(t < 0, t + n, t)
        return z3.If(t < 0, z3.IntVal(0), z3.If(t > n, n, t))

    a, b = clamp(lo, z3.IntVal(0)), clamp(hi, n)
    ln = z3.If(b > a, b - a, z3.IntVal(0))
    arr = fresh_arr("slice", s.k)
    j = z3.Int(fresh_name("j"))
    st.assume(z3.ForAll([j], z3.Implies(z3.And(0 <= j, j < ln), elem_eq(arr, j, s.arr, a + j, s.k))))
    return SSeq(arr, ln, s.k)


def setitem(I, st, obj, idx, v, node):
    if isinstance(obj, Ref):
        h = st.get(obj)
        st.written.add((obj.id, "*"))
        if isinstance(h, HDict):
            st.trace.append(Event("write", "dict.__setitem__", [obj, idx, v], lineno=lineno(node), held=I.held_locks(st)))
            if h.concrete:
                if deep_host(idx):
                    h.items[idx] = v
                    return [(st, None)]
                raise Unsupported("symbolic key store into concrete dict", node)
            used("dict.__setitem__")
            k = to_term(idx, h.kk)
            h.size = z3.If(z3.Select(h.dom, k), h.size, h.size + 1)
            h.dom = z3.Store(h.dom, k, True)
            h.val = z3.Store(h.val, k, to_term(v, h.vk))
            return [(st, None)]
        if isinstance(h, HList):
            st.trace.append(Event("write", f"{h.tag}.__setitem__", [obj, idx, v], lineno=lineno(node), held=I.held_locks(st)))
            if h.concrete and isinstance(idx, int):
                try:
                    h.items[idx] = v
                except IndexError:
                    return raise_(st, IndexError, "list assignment index out of range", node=node)
                return [(st, None)]
            if not h.concrete:
                ok, ni = norm_index(h.n, idx)
                out = []
                for s, b in I.fork_bool(st, ok):
                    if b:
                        hh = s.get(obj)
                        hh.arr = z3.Store(hh.arr, ni, to_term(v, hh.k))
                        out.append((s, None))
                    else:
                        out += raise_(s, IndexError, "list assignment index out of range", node=node)
                return out
        if isinstance(h, HObj):
            return I.call_method(st, obj, "__setitem__", [idx, v], {}, node)
    sp = I.specs.get("setitem_obj")
    if sp is not None:
        r = sp(I, st, [obj, idx, v], {}, node)
        if r is not None:
            return r
    raise Unsupported(f"item store on {obj!r}", node)


def delitem(I, st, obj, idx, node):
    if isinstance(obj, Ref):
        h = st.get(obj)
        st.written.add((obj.id, "*"))
        if isinstance(h, HDict):
            st.trace.append(Event("write", "dict.__delitem__", [obj, idx], lineno=lineno(node), held=I.held_locks(st)))
            if h.concrete:
                if deep_host(idx):
                    if idx in h.items:
                        del h.items[idx]
                        return [(st, None)]
                    return raise_(st, KeyError, idx, node=node)
                raise Unsupported("symbolic key delete on concrete dict", node)
            used("dict.__delitem__")
            k = to_term(idx, h.kk)
            out = []
            for s, b in I.fork_bool(st, z3.Select(h.dom, k)):
                if b:
                    hh = s.get(obj)
                    hh.dom = z3.Store(hh.dom, k, False)
                    hh.size = hh.size - 1
                    out.append((s, None))
                else:
                    out += raise_(s, KeyError, idx, node=node)
            return out
        if isinstance(h, HObj):
            return I.call_method(st, obj, "__delitem__", [idx], {}, node)
        if isinstance(h, HList):
            # del lst[i] (documented: removes item i, IndexError when out of range)
            st.trace.append(Event("write", f"{h.tag}.__delitem__", [obj, idx], lineno=lineno(node), held=I.held_locks(st)))
            used(f"{h.tag}.__delitem__")
            if h.concrete:
                if isinstance(idx, int):
                    try:
                        del h.items[idx]
                    except IndexError:
                        return raise_(st, IndexError, "list assignment index out of range", node=node)
                    return [(st, None)]
                raise Unsupported("symbolic index delete on concrete list", node)
            ok, ni = norm_index(h.n, idx)
            out = []
            for s, b in I.fork_bool(st, ok):
                if not b:
                    out += raise_(s, IndexError, "list assignment index out of range", node=node)
                    continue
                hh = s.get(obj)
                na = fresh_arr("del", hh.k)
                j = z3.Int(fresh_name("j"))
                s.assume(z3.ForAll([j], z3.Implies(z3.And(0 <= j, j < ni), elem_eq(na, j, hh.arr, j, hh.k))))
                s.assume(z3.ForAll([j], z3.Implies(z3.And(ni <= j, j < hh.n - 1), elem_eq(na, j, hh.arr, j + 1, hh.k))))
                hh.arr, hh.n = na, hh.n - 1
                out.append((s, None))
            return out
    sp = I.specs.get("delitem_obj")
    if sp is not None:
        r = sp(I, st, [obj, idx], {}, node)
        if r is not None:
            return r
    raise Unsupported(f"item delete on {obj!r}", node)


# ------------------------------------------------------------- method calls

def call_method(I, st, recv, name, args, kwargs, node):
    if isinstance(recv, Ref):
        h = st.get(recv)
        if isinstance(h, HList):
            return list_method(I, st, recv, h, name, args, kwargs, node)
        if isinstance(h, HDict):
            return dict_method(I, st, recv, h, name, args, kwargs, node)
        if isinstance(h, HSet):
            return set_method(I, st, recv, h, name, args, kwargs, node)
        if isinstance(h, HLock):
            raise Unsupported("explicit lock method call", node)
        if isinstance(h, HIter):
            if name == "__next__":
                return iter_next(I, st, recv, node)
            if name in ("close", "aclose"):
                st.trace.append(Event("call", f"iter.{name}", [recv], lineno=lineno(node)))
                return [(st, None)]
    if isinstance(recv, BoundMethod) and recv.name == "__dict__" and isinstance(recv.recv, Ref):
        # obj.__dict__.<method>: a view on the instance fields
        h = st.get(recv.recv)
        if name == "update":
            for a in args:
                for k, v in I.dict_concrete(st, a, node).items():
                    h.fields[k] = v
                    st.written.add((recv.recv.id, k))
            for k, v in kwargs.items():
                h.fields[k] = v
            return [(st, None)]
        if name == "copy":
            # materialise lazily created fields first so that the copy is a full snapshot
            for k in list(h.lazy):
                if k not in h.fields:
                    I.getattr(st, recv.recv, k, node)
            return [(st, st.alloc(HDict(items=dict(st.get(recv.recv).fields))))]
        if name == "clear":
            for k in list(h.fields):
                st.written.add((recv.recv.id, k))
            h.fields.clear()
            h.lazy.clear()
            return [(st, None)]
        raise Unsupported(f"__dict__.{name}", node)
    if kind_of(recv) == "str" and not isinstance(recv, Ref):
        return str_method(I, st, recv, name, args, kwargs, node)
    if isinstance(recv, SSeq):
        if name == "__len__":
            return [(st, Sym(recv.n, "int"))]
    if isinstance(recv, tuple):
        if name == "index" or name == "count":
            raise Unsupported(f"tuple.{name} on symbolic tuple", node)
    if isinstance(recv, Sym) and recv.k == "obj":
        sp = I.specs.get("method_obj")
        if sp is not None:
            r = sp(I, st, [recv, name] + list(args), kwargs, node)
            if r is not None:
                return r
        raise Unsupported(f"method {name!r} on opaque value (no spec)", node)
    if is_host(recv):
        m = getattr(recv, name)
        if deep_host(tuple(args)) and deep_host(kwargs) and host_method_pure(recv, name):
            try:
                return [(st, m(*args, **kwargs))]
            except Exception as ex:
                return raise_(st, type(ex), *ex.args, node=node)
        if inspect.isclass(recv) or inspect.ismodule(recv):
            return I.call(st, m, args, kwargs, node)
    raise Unsupported(f"method {name!r} on {recv!r}", node)


def host_method_pure(recv, name):
    return isinstance(recv, (str, bytes, int, float, tuple, frozenset, type(None), bool, range)) or (
        isinstance(recv, (dict, list, set)) and name in ("get", "keys", "values", "items", "copy", "index", "count", "__contains__", "__getitem__", "__len__")
    )


# ---- list / deque ----------------------------------------------------------

def list_method(I, st, ref, h, name, args, kwargs, node):
    tag = h.tag
    ev_kind = "write" if name in ("append", "appendleft", "extend", "pop", "popleft", "remove", "clear", "insert", "reverse", "sort", "extendleft", "rotate") else "read"
    st.trace.append(Event(ev_kind, f"{tag}.{name}", [ref] + list(args), lineno=lineno(node), held=I.held_locks(st)))
    if ev_kind == "write":
        st.written.add((ref.id, "*"))
    used(f"{tag}.{name}")
    if h.concrete:
        return clist_method(I, st, ref, h, name, args, kwargs, node)
    n, arr, k = h.n, h.arr, h.k
    if name == "append" and isinstance(args[0], (SSeq, tuple)) and k == "obj":
        # a sequence stored into an object array: box it on the heap
        a0 = args[0]
        box = st.alloc(HList(arr=a0.arr, n=a0.n, k=a0.k, tag="tuple") if isinstance(a0, SSeq) else HList(items=list(a0), tag="tuple"))
        args = [box]
    if name == "append":
        h.arr = arr_store(arr, k, n, args[0], to_term)
        h.n = n + 1
        return [(st, None)]
    if name == "insert" and len(args) == 2 and isinstance(args[0], int) and args[0] >= 0 and not isinstance(k, tuple):
        # list.insert(i, x) on an abstract list, concrete i >= 0: position min(i, n) takes x, the tail shifts right
        na = fresh_arr("ins", k)
        j = z3.Int(fresh_name("j"))
        pos = z3.If(n < args[0], n, z3.IntVal(args[0]))
        st.assume(z3.Select(na, pos) == to_term(args[1], k),
                  z3.ForAll([j], z3.Implies(z3.And(0 <= j, j < pos), z3.Select(na, j) == z3.Select(arr, j))),
                  z3.ForAll([j], z3.Implies(z3.And(pos <= j, j < n), z3.Select(na, j + 1) == z3.Select(arr, j))))
        h.arr, h.n = na, n + 1
        return [(st, None)]
    if name == "__len__":
        return [(st, Sym(n, "int"))]
    if name == "clear":
        h.n = z3.IntVal(0)
        return [(st, None)]
    if name == "popleft" or (name == "pop" and args and args[0] == 0):
        out = []
        for s, b in I.fork_bool(st, n > 0):
            if not b:
                out += raise_(s, IndexError, "pop from an empty deque", node=node)
                continue
            hh = s.get(ref)
            x = Sym(z3.Select(hh.arr, 0), k)
            na = fresh_arr("shl", k)
            j = z3.Int(fresh_name("j"))
            s.assume(z3.ForAll([j], z3.Implies(z3.And(0 <= j, j < hh.n - 1), z3.Select(na, j) == z3.Select(hh.arr, j + 1))))
            hh.arr, hh.n = na, hh.n - 1
            out.append((s, x))
        return out
    if name == "pop" and not args:
        out = []
        for s, b in I.fork_bool(st, n > 0):
            if not b:
                out += raise_(s, IndexError, "pop from empty list", node=node)
                continue
            hh = s.get(ref)
            x = Sym(z3.Select(hh.arr, hh.n - 1), k)
            hh.n = hh.n - 1
            out.append((s, x))
        return out
    if name == "remove":
        x = to_term(args[0], k)
        i0 = z3.Int(fresh_name("rm_i"))
        j = z3.Int(fresh_name("j"))
        exists = z3.Exists([j], z3.And(0 <= j, j < n, z3.Select(arr, j) == x))
        out = []
        # present: first occurrence i0 removed
        s1 = st.fork()
        s1.assume(0 <= i0, i0 < n, z3.Select(arr, i0) == x)
        s1.assume(z3.ForAll([j], z3.Implies(z3.And(0 <= j, j < i0), z3.Select(arr, j) != x)))
        from .smt import feasible
        if feasible(s1.pc, I.feas_timeout):
            hh = s1.get(ref)
            na = fresh_arr("rm", k)
            s1.assume(z3.ForAll([j], z3.Implies(z3.And(0 <= j, j < i0), z3.Select(na, j) == z3.Select(arr, j))))
            s1.assume(z3.ForAll([j], z3.Implies(z3.And(i0 <= j, j < n - 1), z3.Select(na, j) == z3.Select(arr, j + 1))))
            hh.arr, hh.n = na, n - 1
            s1.ghost = dict(s1.ghost)
            s1.ghost.setdefault("removed_at", [])
            s1.ghost["removed_at"] = s1.ghost["removed_at"] + [i0]
            out.append((s1, None))
        s2 = st
        s2.assume(z3.ForAll([j], z3.Implies(z3.And(0 <= j, j < n), z3.Select(arr, j) != x)))
        if feasible(s2.pc, I.feas_timeout):
            out += raise_(s2, ValueError, "x not in list", node=node)
        return out
    if name == "extend":
        src = args[0]
        if isinstance(src, Ref) and isinstance(st.get(src), HList):
            hs = st.get(src)
            if hs.concrete:
                for x in hs.items:
                    h.arr = z3.Store(h.arr, h.n, to_term(x, k))
                    h.n = h.n + 1
                return [(st, None)]
            na = fresh_arr("ext", k)
            j = z3.Int(fresh_name("j"))
            st.assume(z3.ForAll([j], z3.Implies(z3.And(0 <= j, j < n), z3.Select(na, j) == z3.Select(arr, j))))
            st.assume(z3.ForAll([j], z3.Implies(z3.And(0 <= j, j < hs.n), z3.Select(na, n + j) == z3.Select(hs.arr, j))))
            h.arr, h.n = na, n + hs.n
            return [(st, None)]
        if isinstance(src, (tuple, list)):
            for x in src:
                h.arr = z3.Store(h.arr, h.n, to_term(x, k))
                h.n = h.n + 1
            return [(st, None)]
    if name == "copy" or name == "__copy__":
        return [(st, st.alloc(HList(arr=arr, n=n, k=k, tag=tag)))]
    if name == "index" and len(args) == 1 and not isinstance(k, tuple):
        # documented: index of the FIRST occurrence of x; ValueError when x does not occur
        x = to_term(args[0], k)
        i0 = z3.Int(fresh_name("idx_i"))
        j = z3.Int(fresh_name("j"))
        from .smt import feasible
        out = []
        s1 = st.fork()
        s1.assume(0 <= i0, i0 < n, z3.Select(arr, i0) == x)
        s1.assume(z3.ForAll([j], z3.Implies(z3.And(0 <= j, j < i0), z3.Select(arr, j) != x)))
        if feasible(s1.pc, I.feas_timeout):
            out.append((s1, Sym(i0, "int")))
        st.assume(z3.ForAll([j], z3.Implies(z3.And(0 <= j, j < n), z3.Select(arr, j) != x)))
        if feasible(st.pc, I.feas_timeout):
            out += raise_(st, ValueError, "x is not in list", node=node)
        return out
    if name == "reverse":
        na = fresh_arr("rev", k)
        j = z3.Int(fresh_name("j"))
        st.assume(z3.ForAll([j], z3.Implies(z3.And(0 <= j, j < n), elem_eq(na, j, arr, n - 1 - j, k))))
        h.arr = na
        return [(st, None)]
    raise Unsupported(f"{tag}.{name} on abstract list", node)


def clist_method(I, st, ref, h, name, args, kwargs, node):
    items = h.items
    if name == "append":
        items.append(args[0])
        return [(st, None)]
    if name == "appendleft":
        items.insert(0, args[0])
        return [(st, None)]
    if name == "extend":
        a0 = args[0]
        if not items and isinstance(a0, Ref) and isinstance(st.get(a0), HList) and not st.get(a0).concrete:
            src = st.get(a0)
            st.trace.append(Event("read", f"{src.tag}.__iter__", [a0], lineno=lineno(node), held=I.held_locks(st)))
            h.items, h.arr, h.n, h.k = None, src.arr, src.n, src.k
            return [(st, None)]
        if not items and isinstance(a0, Ref) and isinstance(st.get(a0), HDict) and not st.get(a0).concrete:
            # iterating an abstract dict: its keys, each once, in insertion order - which the dom/val/size model does not
            # track, so the order is unconstrained (sound over-approximation: every property proved holds for every order)
            src = st.get(a0)
            used("iter(dict): the keys, each exactly once, in an order the dict model does not track")
            arr = z3.Const(fresh_name("dictkeys"), z3.ArraySort(z3.IntSort(), Obj))
            i, j = z3.Int(fresh_name("dk_i")), z3.Int(fresh_name("dk_j"))
            k = z3.Const(fresh_name("dk_k"), Obj)
            pos = z3.Function(fresh_name("dk_pos"), Obj, z3.IntSort())
            st.assume(z3.ForAll([i], z3.Implies(z3.And(0 <= i, i < src.size), z3.Select(src.dom, z3.Select(arr, i)))),
                      z3.ForAll([i, j], z3.Implies(z3.And(0 <= i, i < j, j < src.size), z3.Select(arr, i) != z3.Select(arr, j))),
                      z3.ForAll([k], z3.Implies(z3.Select(src.dom, k), z3.And(0 <= pos(k), pos(k) < src.size, z3.Select(arr, pos(k)) == k))))
            st.trace.append(Event("read", "dict.__iter__", [a0], lineno=lineno(node), held=I.held_locks(st)))
            h.items, h.arr, h.n, h.k = None, arr, src.size, "obj"
            return [(st, None)]
        items.extend(I.iter_concrete(st, a0, node))
        return [(st, None)]
    if name == "insert":
        if isinstance(args[0], int):
            items.insert(args[0], args[1])
            return [(st, None)]
    if name == "pop":
        if not items:
            return raise_(st, IndexError, "pop from empty list", node=node)
        if not args:
            return [(st, items.pop())]
        if isinstance(args[0], int):
            try:
                return [(st, items.pop(args[0]))]
            except IndexError:
                return raise_(st, IndexError, "pop index out of range", node=node)
    if name == "popleft":
        if not items:
            return raise_(st, IndexError, "pop from an empty deque", node=node)
        return [(st, items.pop(0))]
    if name == "clear":
        items.clear()
        return [(st, None)]
    if name == "reverse":
        items.reverse()
        return [(st, None)]
    if name == "copy":
        return [(st, st.alloc(HList(items=list(items), tag=h.tag)))]
    if name == "__len__":
        return [(st, len(items))]
    if name == "__iter__":
        return [(st, st.alloc(HIter(list(items), 0)))]
    if name == "index" and deep_host(args[0]) and deep_host(items):
        try:
            return [(st, items.index(args[0]))]
        except ValueError:
            return raise_(st, ValueError, "not in list", node=node)
    if name == "remove":
        for i, x in enumerate(items):
            rs = I.compare(st, ast.Eq, x, args[0], node)
            if len(rs) == 1 and rs[0][1] is True:
                del items[i]
                return [(st, None)]
            if len(rs) == 1 and rs[0][1] is False:
                continue
            raise Unsupported("list.remove with symbolic equality", node)
        return raise_(st, ValueError, "list.remove(x): x not in list", node=node)
    if name == "sort":
        raise Unsupported("list.sort", node)
    raise Unsupported(f"list.{name}", node)


# ---- dict -------------------------------------------------------------------

def dict_method(I, st, ref, h, name, args, kwargs, node):
    writes = name in ("clear", "update", "pop", "popitem", "setdefault")
    st.trace.append(Event("write" if writes else "read", f"dict.{name}", [ref] + list(args), lineno=lineno(node), held=I.held_locks(st)))
    if writes:
        st.written.add((ref.id, "*"))
    used(f"dict.{name}")
    if h.concrete:
        return cdict_method(I, st, ref, h, name, args, kwargs, node)
    if name == "clear":
        h.dom = z3.K(KIND_SORT[h.kk], z3.BoolVal(False))
        h.size = z3.IntVal(0)
        return [(st, None)]
    if name == "__len__":
        return [(st, Sym(h.size, "int"))]
    if name == "get":
        k = to_term(args[0], h.kk)
        default = args[1] if len(args) > 1 else kwargs.get("default", None)
        out = []
        for s, b in I.fork_bool(st, z3.Select(h.dom, k)):
            out.append((s, Sym(z3.Select(h.val, k), h.vk) if b else default))
        return out
    if name == "update":
        src = args[0]
        if isinstance(src, Ref) and isinstance(st.get(src), HDict) and not st.get(src).concrete:
            hs = st.get(src)
            nd = z3.Const(fresh_name("upd_dom"), h.dom.sort())
            nv = z3.Const(fresh_name("upd_val"), h.val.sort())
            ns = z3.Int(fresh_name("upd_size"))
            kq = z3.Const(fresh_name("kq"), KIND_SORT[h.kk])
            st.assume(z3.ForAll([kq], z3.Select(nd, kq) == z3.Or(z3.Select(h.dom, kq), z3.Select(hs.dom, kq))))
            st.assume(z3.ForAll([kq], z3.Select(nv, kq) == z3.If(z3.Select(hs.dom, kq), z3.Select(hs.val, kq), z3.Select(h.val, kq))))
            # size: exact only when the receiver is empty (the only use here); else bounded
            st.assume(z3.Implies(h.size == 0, ns == hs.size), ns >= h.size, ns >= hs.size, ns <= h.size + hs.size)
            h.dom, h.val, h.size = nd, nv, ns
            return [(st, None)]
    if name == "copy":
        return [(st, st.alloc(HDict(dom=h.dom, val=h.val, size=h.size, kk=h.kk, vk=h.vk)))]
    if name == "pop":
        k = to_term(args[0], h.kk)
        out = []
        for s, b in I.fork_bool(st, z3.Select(h.dom, k)):
            hh = s.get(ref)
            if b:
                v = Sym(z3.Select(hh.val, k), hh.vk)
                hh.dom = z3.Store(hh.dom, k, False)
                hh.size = hh.size - 1
                out.append((s, v))
            elif len(args) > 1:
                out.append((s, args[1]))
            else:
                out += raise_(s, KeyError, args[0], node=node)
        return out
    if name == "items":
        # some duplicate-free enumeration of the (key, value) pairs; `pos` maps every key to its position (Skolem witness).
        # Recorded in st.ghost["dict_items"] as (dict ref, SSeq, pos function) for loop invariants.
        from .values import fresh_sseq
        it = fresh_sseq("items", (h.kk, h.vk))
        pos = z3.Function(fresh_name("items_pos"), KIND_SORT[h.kk], z3.IntSort())
        j = z3.Int(fresh_name("j"))
        kq = z3.Const(fresh_name("kq"), KIND_SORT[h.kk])
        K, V = it.arr
        st.assume(it.n == h.size, it.n >= 0)
        st.assume(z3.ForAll([j], z3.Implies(z3.And(0 <= j, j < it.n), z3.And(z3.Select(h.dom, z3.Select(K, j)), z3.Select(V, j) == z3.Select(h.val, z3.Select(K, j)),
                                                                          pos(z3.Select(K, j)) == j))))
        st.assume(z3.ForAll([kq], z3.Implies(z3.Select(h.dom, kq), z3.And(0 <= pos(kq), pos(kq) < it.n, z3.Select(K, pos(kq)) == kq))))
        st.ghost = dict(st.ghost)
        st.ghost["dict_items"] = list(st.ghost.get("dict_items", [])) + [(ref, it, pos)]
        return [(st, st.alloc(HIter(it, 0)))]
    if name == "__iter__" or name == "keys":
        # some enumeration of the keys: a fresh sequence all of whose elements are keys
        from .values import fresh_sseq
        ks = fresh_sseq("keys", h.kk)
        j = z3.Int(fresh_name("j"))
        st.assume(ks.n == h.size, z3.ForAll([j], z3.Implies(z3.And(0 <= j, j < ks.n), z3.Select(h.dom, z3.Select(ks.arr, j)))))
        kq = z3.Const(fresh_name("kq"), KIND_SORT[h.kk])
        st.assume(z3.Implies(z3.Exists([kq], z3.Select(h.dom, kq)), ks.n > 0))
        return [(st, st.alloc(HIter(ks, 0)))]
    raise Unsupported(f"dict.{name} on abstract dict", node)


def cdict_method(I, st, ref, h, name, args, kwargs, node):
    d = h.items
    if name == "get" and args and isinstance(args[0], Sym) and args[0].k == "str" and all(isinstance(k, str) for k in d):
        # d.get(<symbolic str>[, default]) on a dict with string keys: exhaustive case split over the keys
        return finite_lookup(I, st, d, args[0], node, args[1] if len(args) > 1 else None, True)
    if name in ("get", "pop", "setdefault", "__contains__", "__getitem__") and not deep_host(args[0]):
        raise Unsupported(f"dict.{name} with symbolic key on concrete dict", node)
    if name == "get":
        return [(st, d.get(args[0], args[1] if len(args) > 1 else None))]
    if name == "pop":
        if args[0] in d:
            return [(st, d.pop(args[0]))]
        if len(args) > 1:
            return [(st, args[1])]
        return raise_(st, KeyError, args[0], node=node)
    if name == "setdefault":
        return [(st, d.setdefault(args[0], args[1] if len(args) > 1 else None))]
    if name == "update":
        if len(args) == 1 and not d and not kwargs and isinstance(args[0], Ref) and isinstance(st.get(args[0]), HDict) and not st.get(args[0]).concrete:
            # {}.update(abstract): the receiver becomes an equal abstract map
            src = st.get(args[0])
            h.items, h.dom, h.val, h.size, h.kk, h.vk = None, src.dom, src.val, src.size, src.kk, src.vk
            return [(st, None)]
        for a in args:
            d.update(I.dict_concrete(st, a, node) if not isinstance(a, (tuple, list)) else dict(a))
        d.update(kwargs)
        return [(st, None)]
    if name == "clear":
        d.clear()
        return [(st, None)]
    if name == "copy":
        return [(st, st.alloc(HDict(items=dict(d))))]
    if name == "keys":
        return [(st, tuple(d.keys()))]
    if name == "values":
        return [(st, tuple(d.values()))]
    if name == "items":
        return [(st, tuple(d.items()))]
    if name == "__len__":
        return [(st, len(d))]
    if name == "__contains__":
        return [(st, args[0] in d)]
    raise Unsupported(f"dict.{name}", node)


# ---- set --------------------------------------------------------------------

def set_method(I, st, ref, h, name, args, kwargs, node):
    used(f"set.{name}")
    sp = I.specs.get(f"set.{name}")
    if sp is not None:
        # contract-module hook (same pattern as str.<name>): handler returns None to fall through
        r = sp(I, st, [ref] + list(args), kwargs, node)
        if r is not None:
            return r
    if h.items is not None:
        if name == "add":
            st.written.add((ref.id, "*"))
            r = I._in_items(st, h.items, args[0], node)[0][1]
            if r is True:
                return [(st, None)]
            if r is False:
                h.items.append(args[0])
                return [(st, None)]
            # membership depends on symbolic equality: case split
            out = []
            for s2, b in I.fork_bool(st, to_term(r, "bool")):
                if not b:
                    s2.get(ref).items.append(args[0])
                out.append((s2, None))
            return out
        if name == "update":
            # every `add` may fork (membership of a symbolic element): thread the forked states through
            results = [(st, None)]
            for x in I.iter_concrete(st, args[0], node):
                nxt = []
                for s, _ in results:
                    nxt.extend(set_method(I, s, ref, s.get(ref), "add", [x], {}, node))
                results = nxt
            return results
        if name == "discard" or name == "remove":
            st.written.add((ref.id, "*"))
            for i, x in enumerate(h.items):
                r = I.compare(st, ast.Eq, x, args[0], node)[0][1]
                if r is True:
                    del h.items[i]
                    return [(st, None)]
            if name == "remove":
                return raise_(st, KeyError, args[0], node=node)
            return [(st, None)]
        if name == "copy":
            return [(st, st.alloc(HSet(items=list(h.items))))]
        if name == "__len__":
            return [(st, len(h.items))]
    else:
        if name == "add":
            st.written.add((ref.id, "*"))
            k = to_term(args[0], h.kk)
            h.size = z3.If(z3.Select(h.dom, k), h.size, h.size + 1)
            h.dom = z3.Store(h.dom, k, True)
            return [(st, None)]
        if name == "discard":
            st.written.add((ref.id, "*"))
            k = to_term(args[0], h.kk)
            h.size = z3.If(z3.Select(h.dom, k), h.size - 1, h.size)
            h.dom = z3.Store(h.dom, k, False)
            return [(st, None)]
        if name == "clear" and not isinstance(h.kk, tuple):
            st.written.add((ref.id, "*"))
            h.dom = z3.K(KIND_SORT[h.kk], z3.BoolVal(False))
            h.size = z3.IntVal(0)
            return [(st, None)]
        if name == "copy":
            return [(st, st.alloc(HSet(dom=h.dom, size=h.size, kk=h.kk)))]
    raise Unsupported(f"set.{name}", node)


# ---- iterators ----------------------------------------------------------------

def iter_next(I, st, ref, node, default=None, has_default=False):
    h = st.get(ref)
    used("iterator.__next__")
    if isinstance(h.items, list):
        if h.cursor < len(h.items):
            v = h.items[h.cursor]
            h.cursor += 1
            return [(st, v)]
        if has_default:
            return [(st, default)]
        return raise_(st, StopIteration, node=node)
    s = h.items
    cur = to_term(h.cursor, "int")
    out = []
    for s1, b in I.fork_bool(st, cur < s.n):
        hh = s1.get(ref)
        if b:
            hh.cursor = Sym(cur + 1, "int")
            out.append((s1, sel(s.arr, s.k, cur)))
        elif has_default:
            out.append((s1, default))
        else:
            out += raise_(s1, StopIteration, node=node)
    return out


# ---- str -----------------------------------------------------------------------

def str_method(I, st, recv, name, args, kwargs, node):
    if name == "join" and args and getattr(args[0], "is_abstract_iterable", False):
        sp = I.specs.get("join_abstract")
        if sp is not None:
            return sp(I, st, [recv] + list(args), kwargs, node)
    if is_host(recv) and deep_host(tuple(args)) and deep_host(kwargs):
        try:
            return [(st, getattr(recv, name)(*args, **kwargs))]
        except Exception as ex:
            return raise_(st, type(ex), *ex.args, node=node)
    if name == "join" and is_host(recv) and len(args) == 1:
        # sep.join(<sequence of known length with symbolic string elements>)
        try:
            items = I.iter_concrete(st, args[0], node)
        except Unsupported:
            items = None
        if items is not None and all(kind_of(x) == "str" for x in items):
            pieces = []
            for i, x in enumerate(items):
                if i:
                    pieces.append(recv)
                pieces.append(x)
            return [(st, I.concat_strs(pieces) if pieces else "")]
    used(f"str.{name}")
    s = to_term(recv, "str")
    tags = getattr(recv, "tags", frozenset())
    if name == "startswith":
        a = args[0]
        if isinstance(a, tuple):
            return [(st, Sym(z3.Or(*[z3.PrefixOf(to_term(x, "str"), s) for x in a]), "bool"))]
        return [(st, Sym(z3.PrefixOf(to_term(a, "str"), s), "bool"))]
    if name == "endswith":
        a = args[0]
        if isinstance(a, tuple):
            return [(st, Sym(z3.Or(*[z3.SuffixOf(to_term(x, "str"), s) for x in a]), "bool"))]
        return [(st, Sym(z3.SuffixOf(to_term(a, "str"), s), "bool"))]
    if name == "__len__":
        return [(st, Sym(z3.Length(s), "int"))]
    if name == "find":
        return [(st, Sym(z3.IndexOf(s, to_term(args[0], "str"), 0), "int"))]
    if name == "replace" and len(args) == 2:
        # z3 str.replace_all
        a0, a1 = to_term(args[0], "str"), to_term(args[1], "str")
        t = z3.SeqRef(z3.Z3_mk_seq_replace_all(s.ctx_ref(), s.as_ast(), a0.as_ast(), a1.as_ast()), s.ctx)
        return [(st, Sym(t, "str", tags))]
    if name == "__contains__":
        return [(st, Sym(z3.Contains(s, to_term(args[0], "str")), "bool"))]
    if name == "count" and isinstance(args[0], str) and len(args[0]) == 1:
        f = str_count_fn(args[0])
        return [(st, Sym(f(s), "int"))]
    if name == "rstrip" and not args:
        r = fresh("rstrip", "str")
        ws = fresh("ws", "str")
        st.assume(s == z3.Concat(r.t, ws.t), is_ws(ws.t), not_ends_ws(r.t))
        return [(st, Sym(r.t, "str", tags))]
    if name == "lstrip" and not args:
        r = fresh("lstrip", "str")
        ws = fresh("ws", "str")
        st.assume(s == z3.Concat(ws.t, r.t), is_ws(ws.t), not_starts_ws(r.t))
        return [(st, Sym(r.t, "str", tags))]
    if name == "rfind":
        sub = to_term(args[0], "str")
        r = fresh("rfind", "int")
        # documented: highest index where sub is found, else -1
        st.assume(r.t == z3.LastIndexOf(s, sub))
        return [(st, r)]
    if name == "isidentifier" or name == "isdigit" or name == "isspace" or name == "isupper" or name == "islower":
        f = z3.Function(f"str.{name}", z3.StringSort(), z3.BoolSort())
        return [(st, Sym(f(s), "bool"))]
    if name in ("lower", "upper", "strip", "capitalize", "title", "casefold"):
        f = z3.Function(f"str.{name}", z3.StringSort(), z3.StringSort())
        return [(st, Sym(f(s), "str"))]
    sp = I.specs.get(f"str.{name}")
    if sp is not None:
        return sp(I, st, [recv] + list(args), kwargs, node)
    raise Unsupported(f"str.{name} on symbolic string", node)


_count_fns = {}


def str_count_fn(ch):
    if ch not in _count_fns:
        _count_fns[ch] = z3.Function(f"str.count[{ch!r}]", z3.StringSort(), z3.IntSort())
    return _count_fns[ch]


WS_CHARS = " \t\n\r\x0b\x0c"
_ws_re = z3.Star(z3.Union(*[z3.Re(c) for c in WS_CHARS]))


def is_ws(t):
    return z3.InRe(t, _ws_re)


def not_ends_ws(t):
    return z3.And(*[z3.Not(z3.SuffixOf(z3.StringVal(c), t)) for c in WS_CHARS])


def not_starts_ws(t):
    return z3.And(*[z3.Not(z3.PrefixOf(z3.StringVal(c), t)) for c in WS_CHARS])


# ------------------------------------------------------------ instantiate

def instantiate(I, st, cls, args, kwargs, node):
    if cls is list:
        if not args:
            return [(st, st.alloc(HList(items=[])))]
        a = args[0]
        if isinstance(a, Ref):
            h = st.get(a)
            if isinstance(h, HList) and not h.concrete:
                st.trace.append(Event("read", f"{h.tag}.__iter__", [a], lineno=lineno(node), held=I.held_locks(st)))
                return [(st, st.alloc(HList(arr=h.arr, n=h.n, k=h.k)))]
            if isinstance(h, HObj):
                rs = I.call_method(st, a, "__iter__", [], {}, node)
                return seq(rs, lambda s, it: instantiate(I, s, list, [it], {}, node))
            if isinstance(h, HIter) and isinstance(h.items, SSeq):
                sub = h.items if (isinstance(h.cursor, int) and h.cursor == 0) else sseq_slice(h.items, h.cursor, None, st)
                h.cursor = Sym(h.items.n, "int")
                return [(st, st.alloc(HList(arr=sub.arr, n=sub.n, k=sub.k)))]
        if isinstance(a, SSeq):
            return [(st, st.alloc(HList(arr=a.arr, n=a.n, k=a.k)))]
        return [(st, st.alloc(HList(items=list(I.iter_concrete(st, a, node)))))]
    if cls is tuple:
        if not args:
            return [(st, ())]
        a = args[0]
        if isinstance(a, Ref):
            h = st.get(a)
            if isinstance(h, HList) and not h.concrete:
                st.trace.append(Event("read", f"{h.tag}.__iter__", [a], lineno=lineno(node), held=I.held_locks(st)))
                return [(st, SSeq(h.arr, h.n, h.k))]
        if isinstance(a, SSeq):
            return [(st, a)]
        return [(st, tuple(I.iter_concrete(st, a, node)))]
    if cls is dict:
        if not args and not kwargs:
            return [(st, st.alloc(HDict(items={})))]
        d = {}
        for a in args:
            if isinstance(a, Ref) and isinstance(st.get(a), HDict) and not st.get(a).concrete:
                h = st.get(a)
                if kwargs or len(args) > 1:
                    raise Unsupported("dict(abstract, **kw)", node)
                return [(st, st.alloc(HDict(dom=h.dom, val=h.val, size=h.size, kk=h.kk, vk=h.vk)))]
            if isinstance(a, (Ref, dict)):
                d.update(I.dict_concrete(st, a, node))
            else:
                d.update(dict(I.iter_concrete(st, a, node)))
        d.update(kwargs)
        return [(st, st.alloc(HDict(items=d)))]
    if cls is set or cls is frozenset:
        if not args:
            return [(st, st.alloc(HSet(items=[])))]
        return [(st, st.alloc(HSet(items=list(dict.fromkeys(I.iter_concrete(st, args[0], node))))))]
    if cls is collections.deque:
        if not args:
            return [(st, st.alloc(HList(items=[], tag="deque")))]
        return [(st, st.alloc(HList(items=list(I.iter_concrete(st, args[0], node)), tag="deque")))]
    if cls in (threading.Lock, getattr(threading, "_CLock", None)) or getattr(cls, "__name__", "") == "lock":
        return [(st, st.alloc(HLock()))]
    if cls is str:
        return builtin_str(I, st, args, kwargs, node)
    if cls is int:
        return builtin_int(I, st, args, kwargs, node)
    if cls is bool:
        if not args:
            return [(st, False)]
        t = I.truth_term(st, args[0])
        if t is None:
            return I.truth(st, args[0], None, node)
        return [(st, t if isinstance(t, bool) else Sym(t, "bool"))]
    if cls is type and len(args) == 1:
        a = args[0]
        if isinstance(a, Ref):
            h = st.get(a)
            if isinstance(h, HObj):
                return [(st, h.cls)]
            if isinstance(h, HList):
                return [(st, collections.deque if h.tag == "deque" else list)]
            if isinstance(h, HDict):
                return [(st, dict)]
        if is_host(a):
            return [(st, type(a))]
        if isinstance(a, Sym) and a.k in ("int", "str", "bool"):
            return [(st, {"int": int, "str": str, "bool": bool}[a.k])]
        if isinstance(a, Exc) and a.cls is not None:
            return [(st, a.cls)]
        sp = I.specs.get("type_obj")
        if sp is not None:
            r = sp(I, st, [a], {}, node)
            if r is not None:
                return r
        if isinstance(a, Sym) and a.k == "obj":
            # the class of an opaque value: an opaque value itself (py_type is a function of the value)
            return [(st, Sym(py_type_obj(a.t), "obj", a.tags))]
        raise Unsupported("type() of opaque value", node)
    return None


def builtin_str(I, st, args, kwargs, node):
    if not args:
        return [(st, "")]
    a = args[0]
    if isinstance(a, Sym):
        if a.k == "str":
            return [(st, a)]
        if a.k == "int":
            return [(st, Sym(py_str_int(a.t), "str"))]
        if a.k == "obj":
            sp = I.specs.get("str_obj")
            if sp is not None:
                r = sp(I, st, [a], {}, node)
                if r is not None:
                    return r
            return [(st, Sym(py_str_obj(a.t), "str", a.tags))]
    if isinstance(a, Ref):
        h = st.get(a)
        if isinstance(h, HObj) and inspect.isclass(h.cls) and "__str__" in {n for k in h.cls.__mro__[:-1] for n in k.__dict__}:
            return I.call_method(st, a, "__str__", [], {}, node)
        raise Unsupported("str() of heap value", node)
    if is_host(a) and deep_host(a):
        return [(st, str(a))]
    if isinstance(a, Exc):
        # str(exception): some string (contract-supplied spec "str_exc" may refine it)
        sp = I.specs.get("str_exc")
        if sp is not None:
            r = sp(I, st, [a], {}, node)
            if r is not None:
                return r
        return [(st, fresh("str_exc", "str"))]
    raise Unsupported("str() of symbolic composite", node)


def builtin_repr(I, st, args, kwargs, node):
    a = args[0]
    if isinstance(a, Sym):
        if a.k == "str":
            return [(st, Sym(py_repr_str(a.t), "str", a.tags | {"repr"}))]
        if a.k == "int":
            return [(st, Sym(py_str_int(a.t), "str"))]
        if a.k == "obj":
            return [(st, Sym(py_repr_obj(a.t), "str", a.tags | {"repr"}))]
        if a.k == "bool":
            return [(st, Sym(z3.If(a.t, z3.StringVal("True"), z3.StringVal("False")), "str"))]
    if is_host(a) and deep_host(a):
        return [(st, repr(a))]
    if isinstance(a, tuple):
        parts = []
        for x in a:
            rs = builtin_repr(I, st, [x], {}, node)
            parts.append(rs[0][1])
        body = []
        for i, p in enumerate(parts):
            if i:
                body.append(", ")
            body.append(p)
        if len(parts) == 1:
            body.append(",")
        return [(st, I.concat_strs(["("] + body + [")"]))]
    sp = I.specs.get("repr_obj")
    if sp is not None:
        r = sp(I, st, [a], {}, node)
        if r is not None:
            return r
    raise Unsupported(f"repr() of {a!r}", node)


def builtin_int(I, st, args, kwargs, node):
    if not args:
        return [(st, 0)]
    a = args[0]
    if isinstance(a, Sym) and a.k == "int":
        return [(st, a)]
    if isinstance(a, Sym) and a.k == "bool":
        return [(st, Sym(to_term(a, "int"), "int"))]
    if is_host(a) and deep_host(tuple(args)):
        try:
            return [(st, int(*args))]
        except Exception as ex:
            return raise_(st, type(ex), *ex.args, node=node)
    sp = I.specs.get("int_obj")
    if sp is not None:
        r = sp(I, st, args, kwargs, node)
        if r is not None:
            return r
    raise Unsupported("int() of symbolic non-int", node)


def builtin_len(I, st, args, kwargs, node):
    a = args[0]
    if isinstance(a, Ref):
        h = st.get(a)
        if isinstance(h, HList):
            st.trace.append(Event("read", f"{h.tag}.__len__", [a], lineno=lineno(node), held=I.held_locks(st)))
            return [(st, len(h.items) if h.concrete else Sym(h.n, "int"))]
        if isinstance(h, HDict):
            st.trace.append(Event("read", "dict.__len__", [a], lineno=lineno(node), held=I.held_locks(st)))
            return [(st, len(h.items) if h.concrete else Sym(h.size, "int"))]
        if isinstance(h, HSet):
            return [(st, len(h.items) if h.items is not None else Sym(h.size, "int"))]
        if isinstance(h, HObj):
            return I.call_method(st, a, "__len__", [], {}, node)
    if isinstance(a, SSeq):
        return [(st, Sym(a.n, "int"))]
    if isinstance(a, tuple):
        return [(st, len(a))]
    if kind_of(a) == "str":
        if is_host(a):
            return [(st, len(a))]
        return [(st, Sym(z3.Length(a.t), "int"))]
    if isinstance(a, Sym) and a.k == "obj":
        sp = I.specs.get("len_obj")
        if sp is not None:
            r = sp(I, st, args, kwargs, node)
            if r is not None:
                return r
    if is_host(a):
        try:
            return [(st, len(a))]
        except TypeError as ex:
            return raise_(st, TypeError, *ex.args, node=node)
    raise Unsupported(f"len() of {a!r}", node)


def builtin_isinstance(I, st, args, kwargs, node):
    from .ops import isinst_fn
    v, classes = args
    if isinstance(classes, Ref):
        classes = tuple(st.get(classes).items)
    cl = classes if isinstance(classes, tuple) else (classes,)
    if isinstance(v, Ref):
        h = st.get(v)
        t = None
        if isinstance(h, HObj):
            t = h.cls if inspect.isclass(h.cls) else None
            if t is None:
                raise Unsupported("isinstance on object of unknown class", node)
        elif isinstance(h, HList):
            t = collections.deque if h.tag == "deque" else list
        elif isinstance(h, HDict):
            t = dict
        elif isinstance(h, HSet):
            t = set
        elif isinstance(h, HIter):
            t = type(iter([]))
        elif isinstance(h, HLock):
            return [(st, False)]
        if t is None:
            t = list if type(h).__name__ == "HNodeList" else object
        return [(st, any(issubclass(t, c) for c in cl))]
    if isinstance(v, Sym):
        if v.k == "obj":
            sp = I.specs.get("isinstance_obj")
            if sp is not None:
                r = sp(I, st, [v, cl], {}, node)
                if r is not None:
                    return r
            return [(st, Sym(z3.Or(*[isinst_fn(c)(v.t) for c in cl]), "bool"))]
        t = {"int": int, "str": str, "bool": bool}[v.k]
        if "markup" in v.tags:
            import markupsafe
            t = markupsafe.Markup
        return [(st, any(issubclass(t, c) for c in cl))]
    if isinstance(v, Exc):
        if v.cls is not None:
            return [(st, any(issubclass(v.cls, c) for c in cl))]
        raise Unsupported("isinstance on abstract exception", node)
    if isinstance(v, SSeq):
        return [(st, any(issubclass(tuple, c) for c in cl))]
    if isinstance(v, (BoundMethod, Closure)):
        import types
        return [(st, any(issubclass(types.FunctionType, c) for c in cl))]
    return [(st, isinstance(v, cl))]


def builtin_next(I, st, args, kwargs, node):
    it = args[0]
    if isinstance(it, Ref) and isinstance(st.get(it), HIter):
        return iter_next(I, st, it, node, args[1] if len(args) > 1 else None, len(args) > 1)
    sp = I.specs.get("next_obj")
    if sp is not None:
        r = sp(I, st, args, kwargs, node)
        if r is not None:
            return r
    raise Unsupported(f"next() of {it!r}", node)


def builtin_iter(I, st, args, kwargs, node):
    a = args[0]
    if isinstance(a, Ref):
        h = st.get(a)
        if isinstance(h, HIter):
            return [(st, a)]
        if isinstance(h, HList):
            if h.concrete:
                return [(st, st.alloc(HIter(list(h.items), 0)))]
            return [(st, st.alloc(HIter(SSeq(h.arr, h.n, h.k), 0)))]
        if isinstance(h, HObj):
            return I.call_method(st, a, "__iter__", [], {}, node)
        if isinstance(h, HDict):
            if h.concrete:
                return [(st, st.alloc(HIter(list(h.items.keys()), 0)))]
            return dict_method(I, st, a, h, "__iter__", [], {}, node)
        if isinstance(h, HSet) and h.items is not None:
            # iter(set) of a set with known elements: some enumeration (here: the recorded order)
            return [(st, st.alloc(HIter(list(h.items), 0)))]
    if isinstance(a, SSeq):
        return [(st, st.alloc(HIter(a, 0)))]
    if isinstance(a, tuple):
        return [(st, st.alloc(HIter(list(a), 0)))]
    sp = I.specs.get("iter_obj")
    if sp is not None:
        r = sp(I, st, args, kwargs, node)
        if r is not None:
            return r
    if is_host(a):
        return [(st, st.alloc(HIter(list(a), 0)))]
    raise Unsupported(f"iter() of {a!r}", node)


def builtin_reversed(I, st, args, kwargs, node):
    a = args[0]
    if isinstance(a, SSeq):
        arr = fresh_arr("rev", a.k)
        j = z3.Int(fresh_name("j"))
        st.assume(z3.ForAll([j], z3.Implies(z3.And(0 <= j, j < a.n), elem_eq(arr, j, a.arr, a.n - 1 - j, a.k))))
        return [(st, st.alloc(HIter(SSeq(arr, a.n, a.k), 0)))]
    items = I.iter_concrete(st, a, node)
    return [(st, st.alloc(HIter(list(reversed(items)), 0)))]


def builtin_getattr(I, st, args, kwargs, node):
    obj, name = args[0], args[1]
    if not isinstance(name, str):
        sp = I.specs.get("getattr_dyn")
        if sp is not None:
            r = sp(I, st, args, kwargs, node)
            if r is not None:
                return r
        raise Unsupported("getattr with symbolic name", node)
    rs = I.getattr(st, obj, name, node)
    if len(args) < 3:
        return rs
    out = []
    for s, v in rs:
        if isinstance(v, Raised) and v.exc.cls is not None and issubclass(v.exc.cls, AttributeError):
            out.append((s, args[2]))
        else:
            out.append((s, v))
    return out


def builtin_hasattr(I, st, args, kwargs, node):
    rs = builtin_getattr(I, st, list(args) + [_MISSING], kwargs, node)
    return [(s, v if isinstance(v, Raised) else (v is not _MISSING)) for s, v in rs]


_MISSING = object()


def builtin_callable(I, st, args, kwargs, node):
    a = args[0]
    if isinstance(a, (BoundMethod, Closure)):
        return [(st, True)]
    if isinstance(a, Ref):
        h = st.get(a)
        if isinstance(h, HObj) and inspect.isclass(h.cls):
            return [(st, hasattr(h.cls, "__call__"))]
        return [(st, False)]
    if isinstance(a, Sym):
        if a.k == "obj":
            f = z3.Function("py_callable", Obj, z3.BoolSort())
            return [(st, Sym(f(a.t), "bool"))]
        return [(st, False)]
    return [(st, callable(a))]


def install(I):
    def reg(fn, h):
        I.specs[("fn", id(fn))] = h

    reg(len, builtin_len)
    reg(isinstance, builtin_isinstance)
    reg(repr, builtin_repr)
    reg(next, builtin_next)
    reg(iter, builtin_iter)
    reg(reversed, builtin_reversed)
    reg(getattr, builtin_getattr)
    reg(hasattr, builtin_hasattr)
    reg(callable, builtin_callable)
    reg(threading.Lock, lambda I, st, args, kwargs, node: [(st, st.alloc(HLock()))])
    import math

    def float_pred(fn):
        # math.isfinite / isnan / isinf: host value -> computed; opaque value -> an uninterpreted
        # predicate of the value (dependency spec: total and pure on numbers, TypeError otherwise is
        # not modelled because callers guard with isinstance)
        pred = z3.Function(f"math.{fn.__name__}", Obj, z3.BoolSort())

        def h(I, st, args, kwargs, node):
            a = args[0]
            if is_host(a):
                try:
                    return [(st, fn(a))]
                except Exception as ex:
                    return raise_(st, type(ex), *ex.args, node=node)
            if isinstance(a, Sym) and a.k == "int":
                return [(st, fn is math.isfinite)]
            if isinstance(a, Sym):
                used(f"math.{fn.__name__}")
                return [(st, Sym(pred(to_term(a, "obj")), "bool"))]
            raise Unsupported(f"math.{fn.__name__} of {a!r}", node)
        return h

    for _fn in (math.isfinite, math.isnan, math.isinf):
        reg(_fn, float_pred(_fn))
