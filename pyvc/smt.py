"""z3 / cvc5 back ends, conversions between host values and z3 terms."""
from __future__ import annotations

import os
import subprocess
import tempfile
import time
import z3

from .values import Sym, Obj, KIND_SORT, Unsupported, Ref

_host_consts = {}


def host_const(v):
    """Distinct Obj constant standing for a host sentinel / None / class."""
    key = id(v)
    if key not in _host_consts:
        name = getattr(v, "__name__", None) or repr(v)
        c = z3.Const(f"host:{name}:{len(_host_consts)}", Obj)
        _host_consts[key] = (c, v)
    return _host_consts[key][0]


def host_distinct_axiom():
    cs = [c for c, _ in _host_consts.values()]
    cs += list(_ref_consts.values())
    if len(cs) < 2:
        return z3.BoolVal(True)
    return z3.Distinct(*cs)


_ref_consts = {}


def ref_const(r: Ref):
    if r.id not in _ref_consts:
        _ref_consts[r.id] = z3.Const(f"ref:{r.id}", Obj)
    return _ref_consts[r.id]


int2obj = z3.Function("int2obj", z3.IntSort(), Obj)
str2obj = z3.Function("str2obj", z3.StringSort(), Obj)
bool2obj = z3.Function("bool2obj", z3.BoolSort(), Obj)


def to_term(v, kind=None):
    """Host or Sym value -> z3 term of ``kind`` (or natural kind)."""
    if isinstance(v, Sym):
        if kind is None or kind == v.k:
            return v.t
        if kind == "obj":
            return {"int": int2obj, "str": str2obj, "bool": bool2obj}[v.k](v.t)
        if kind == "int" and v.k == "bool":
            return z3.If(v.t, z3.IntVal(1), z3.IntVal(0))
        raise Unsupported(f"cannot use {v.k} term as {kind}")
    if isinstance(v, bool):
        if kind in (None, "bool"):
            return z3.BoolVal(v)
        if kind == "int":
            return z3.IntVal(int(v))
        if kind == "obj":
            return bool2obj(z3.BoolVal(v))
    if isinstance(v, int):
        if kind in (None, "int"):
            return z3.IntVal(v)
        if kind == "obj":
            return int2obj(z3.IntVal(v))
    if isinstance(v, str):
        if kind in (None, "str"):
            return z3.StringVal(v)
        if kind == "obj":
            return str2obj(z3.StringVal(v))
    if isinstance(v, Ref):
        if kind in (None, "obj"):
            return ref_const(v)
    if kind in (None, "obj"):
        try:
            hash(v)
        except TypeError:
            raise Unsupported(f"cannot embed host value {type(v).__name__} as a term")
        return host_const(v)
    raise Unsupported(f"cannot convert host value {v!r} to {kind}")


def kind_of(v):
    if isinstance(v, Sym):
        return v.k
    if isinstance(v, bool):
        return "bool"
    if isinstance(v, int):
        return "int"
    if isinstance(v, str):
        return "str"
    return "obj"


class Result:
    def __init__(self, status, model=None, seconds=0.0, backend="z3", reason=""):
        self.status = status  # 'unsat' | 'sat' | 'unknown'
        self.model = model
        self.seconds = seconds
        self.backend = backend
        self.reason = reason


def _solver(timeout_ms, seed):
    s = z3.Solver()
    s.set("timeout", int(timeout_ms))
    try:
        s.set("random_seed", int(seed) % (2 ** 31))
    except Exception:
        pass
    return s


def check_sat(formulas, timeout_ms=10000, seed=0, use_cvc5=True):
    """Satisfiability of the conjunction.  z3 first; cvc5 (CLI) takes unknowns."""
    t0 = time.time()
    # strategy: z3 briefly; cvc5 takes z3's unknowns; then z3 again with the full budget
    first = min(timeout_ms, 2500) if use_cvc5 else timeout_ms
    reason = ""
    for budget in ([first, timeout_ms] if (use_cvc5 and first < timeout_ms) else [first]):
        s = _solver(budget, seed)
        s.add(host_distinct_axiom())
        for f in formulas:
            s.add(f)
        r = s.check()
        if r == z3.unsat:
            return Result("unsat", None, time.time() - t0, "z3")
        if r == z3.sat:
            return Result("sat", s.model(), time.time() - t0, "z3")
        reason = s.reason_unknown()
        if use_cvc5 and budget == first:
            r2 = cvc5_check(s, timeout_ms)
            if r2 is not None:
                r2.seconds = time.time() - t0
                return r2
    return Result("unknown", None, time.time() - t0, "z3", reason)


CVC5 = "/usr/bin/cvc5"


def cvc5_check(solver, timeout_ms):
    if not os.path.exists(CVC5):
        return None
    try:
        text = solver.to_smt2()
    except Exception:
        return None
    t0 = time.time()
    with tempfile.NamedTemporaryFile("w", suffix=".smt2", delete=False, dir=os.environ.get("PYVC_TMP", None)) as f:
        f.write("(set-logic ALL)\n" + text)
        path = f.name
    try:
        p = subprocess.run(
            [CVC5, "--strings-exp", f"--tlimit={int(timeout_ms)}", path],
            capture_output=True, text=True, timeout=timeout_ms / 1000 + 5,
        )
        out = p.stdout.strip().splitlines()
        first = out[0] if out else ""
        if first == "unsat":
            return Result("unsat", None, time.time() - t0, "cvc5")
        # a cvc5 'sat' carries no model here; leave the verdict to z3's unknown
        return None
    except Exception:
        return None
    finally:
        try:
            os.unlink(path)
        except OSError:
            pass


def feasible(pc, timeout_ms=2000):
    """Quick feasibility of a path condition: False only when proved unsat."""
    if not pc:
        return True
    s = _solver(timeout_ms, 0)
    s.add(host_distinct_axiom())
    for f in pc:
        s.add(f)
    return s.check() != z3.unsat


def model_value(model, term):
    v = model.eval(term, model_completion=True)
    if z3.is_int_value(v):
        return v.as_long()
    if z3.is_true(v):
        return True
    if z3.is_false(v):
        return False
    if z3.is_string_value(v):
        return v.as_string()
    return str(v)
