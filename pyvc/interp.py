"""Forward symbolic execution of real Python function bodies (ast) with path
splitting.  Every evaluation returns a list of (state, value) pairs; a value
of class ``Raised`` is an abrupt exceptional completion."""
from __future__ import annotations

import ast
import builtins
import inspect
import operator
import textwrap
import z3

from .values import (
    Sym, Ref, BoundMethod, Closure, Exc, SSeq, HObj, HList, HDict, HSet, HLock,
    HIter, State, Event, Unsupported, CheckerError, fresh, fresh_name, KIND_SORT, Obj,
)
from .smt import to_term, kind_of, feasible


class Raised:
    __slots__ = ("exc",)

    def __init__(self, exc):
        self.exc = exc

    def __repr__(self):
        return f"Raised({self.exc!r})"


class Ctl:
    """Statement completion: kind in ok/return/break/continue/raise."""

    __slots__ = ("kind", "value")

    def __init__(self, kind, value=None):
        self.kind = kind
        self.value = value

    def __repr__(self):
        return f"Ctl({self.kind}, {self.value!r})"


OK = Ctl("ok")


class Frame:
    def __init__(self, fid, chain, module, qualname, nonlocals=(), fn_node=None):
        self.fid = fid
        self.chain = chain  # enclosing frame ids (innermost first)
        self.module = module
        self.qualname = qualname
        self.nonlocals = set(nonlocals)
        self.fn_node = fn_node
        self.loop_ord = 0


def seq(results, fn):
    out = []
    for st, v in results:
        if isinstance(v, Raised):
            out.append((st, v))
        else:
            out.extend(fn(st, v))
    return out


PURE_HOST = {
    len, isinstance, issubclass, repr, str, int, float, bool, tuple, frozenset, abs, min, max,
    sorted, reversed, enumerate, zip, range, type, hasattr, getattr, callable, id, hash, ord, chr,
    sum, any, all, iter, next, divmod, round, format, list, dict, set, map, filter,
}

BINOPS = {
    ast.Add: operator.add, ast.Sub: operator.sub, ast.Mult: operator.mul, ast.Div: operator.truediv,
    ast.FloorDiv: operator.floordiv, ast.Mod: operator.mod, ast.Pow: operator.pow,
    ast.BitOr: operator.or_, ast.BitAnd: operator.and_, ast.BitXor: operator.xor,
    ast.LShift: operator.lshift, ast.RShift: operator.rshift,
}
CMPOPS = {
    ast.Eq: operator.eq, ast.NotEq: operator.ne, ast.Lt: operator.lt, ast.LtE: operator.le,
    ast.Gt: operator.gt, ast.GtE: operator.ge,
}


def is_host(v):
    return not isinstance(v, (Sym, Ref, BoundMethod, Closure, Exc, SSeq, Raised))


def deep_host(v):
    """True if v is a host value containing no symbolic parts."""
    if isinstance(v, (tuple, list, frozenset, set)):
        return all(deep_host(x) for x in v)
    if isinstance(v, dict):
        return all(deep_host(k) and deep_host(x) for k, x in v.items())
    return is_host(v)


class InterpBase:
    def __init__(self):
        self.specs = {}  # id(callable) or 'Class.method' -> handler
        self.inline = set()  # qualnames ('module:Class.method') allowed to inline; '*' = all repo
        self.abstract = {}  # qualname -> AbstractCall
        self.loops = {}  # (qualname, ordinal) -> LoopSpec
        self.max_paths = 4000
        self.obligations = []  # side obligations raised during execution (lock discipline, asserts)
        self.attr_hook = None  # optional: fn(interp, st, obj, name) -> results or None
        self.feas_timeout = 300
        self.src_cache = {}
        self.on_unknown_call = None
        from . import models
        models.install(self)

    # ------------------------------------------------------------------ util
    def fork_bool(self, st, cond):
        """cond: z3 Bool.  Returns [(st_true, True), (st_false, False)] of feasible branches."""
        cond_s = z3.simplify(cond)
        if z3.is_true(cond_s):
            return [(st, True)]
        if z3.is_false(cond_s):
            return [(st, False)]
        out = []
        if feasible(st.pc + [cond], self.feas_timeout):
            s1 = st.fork()
            s1.assume(cond)
            out.append((s1, True))
        if feasible(st.pc + [z3.Not(cond)], self.feas_timeout):
            s2 = st.fork() if out else st
            s2.assume(z3.Not(cond))
            out.append((s2, False))
        return out

    truthy_fn = z3.Function("py_truthy", Obj, z3.BoolSort())

    def truth_term(self, st, v):
        """Python truthiness of v as host bool or z3 Bool."""
        if isinstance(v, Sym):
            if v.k == "bool":
                return v.t
            if v.k == "int":
                return v.t != 0
            if v.k == "str":
                return z3.Length(v.t) > 0
            return self.truthy_fn(v.t)
        if isinstance(v, SSeq):
            return v.n > 0
        if isinstance(v, Ref):
            h = st.get(v)
            if isinstance(h, HList):
                return (len(h.items) > 0) if h.concrete else (h.n > 0)
            if isinstance(h, HDict):
                if h.concrete:
                    return len(h.items) > 0
                kq = z3.Const(fresh_name("tk"), KIND_SORT[h.kk])
                return z3.Exists([kq], z3.Select(h.dom, kq))
            if isinstance(h, HSet):
                return (len(h.items) > 0) if h.items is not None else (h.size > 0)
            if isinstance(h, HObj):
                cls = h.cls if inspect.isclass(h.cls) else None
                if cls is not None and (hasattr(cls, "__bool__") or hasattr(cls, "__len__")):
                    return None  # needs a call
                return True
            return True
        if isinstance(v, (BoundMethod, Closure)):
            return True
        return bool(v)

    def truth(self, st, v, fr=None, node=None):
        t = self.truth_term(st, v)
        if t is None:
            h = st.get(v)
            name = "__bool__" if hasattr(h.cls, "__bool__") else "__len__"
            rs = self.call_method(st, v, name, [], {}, node)
            return seq(rs, lambda s, r: self.truth(s, r, fr, node))
        if isinstance(t, bool):
            return [(st, t)]
        return self.fork_bool(st, t)

    # ------------------------------------------------------------ name lookup
    def lookup(self, st, fr, name, node=None):
        if name in st.frames[fr.fid] and name not in fr.nonlocals:
            return st.frames[fr.fid][name]
        for fid in fr.chain:
            if name in st.frames[fid]:
                return st.frames[fid][name]
        g = fr.module.__dict__
        if name in g:
            return g[name]
        if hasattr(builtins, name):
            return getattr(builtins, name)
        raise Unsupported(f"unbound name {name!r}", node)

    def store_name(self, st, fr, name, v):
        if name in fr.nonlocals:
            for fid in fr.chain:
                if name in st.frames[fid]:
                    st.frames[fid][name] = v
                    return
        st.frames[fr.fid][name] = v

    # ------------------------------------------------------------ expressions
    def ev(self, e, st, fr):
        m = getattr(self, "ev_" + type(e).__name__, None)
        if m is None:
            raise Unsupported(f"expression {type(e).__name__}", e)
        return m(e, st, fr)

    def ev_list(self, es, st, fr):
        results = [(st, [])]
        for e in es:
            nxt = []
            for s, acc in results:
                if isinstance(acc, Raised):
                    nxt.append((s, acc))
                    continue
                if isinstance(e, ast.Starred):
                    for s2, v in self.ev(e.value, s, fr):
                        if isinstance(v, Raised):
                            nxt.append((s2, v))
                        else:
                            nxt.append((s2, acc + list(self.iter_concrete(s2, v, e))))
                    continue
                for s2, v in self.ev(e, s, fr):
                    nxt.append((s2, v if isinstance(v, Raised) else acc + [v]))
            results = nxt
        return results

    def ev_Constant(self, e, st, fr):
        return [(st, e.value)]

    def ev_Name(self, e, st, fr):
        return [(st, self.lookup(st, fr, e.id, e))]

    def ev_Tuple(self, e, st, fr):
        return seq(self.ev_list(e.elts, st, fr), lambda s, vs: [(s, tuple(vs))])

    def ev_List(self, e, st, fr):
        return seq(self.ev_list(e.elts, st, fr), lambda s, vs: [(s, s.alloc(HList(items=list(vs))))])

    def ev_Set(self, e, st, fr):
        return seq(self.ev_list(e.elts, st, fr), lambda s, vs: [(s, s.alloc(HSet(items=list(dict.fromkeys(vs)))))])

    def ev_Dict(self, e, st, fr):
        keys, vals = e.keys, e.values
        if any(k is None for k in keys):
            raise Unsupported("dict unpacking display", e)

        def mk(s, kv):
            n = len(keys)
            ks, vs = kv[:n], kv[n:]
            for k in ks:
                if not deep_host(k):
                    raise Unsupported("dict display with symbolic key", e)
            return [(s, s.alloc(HDict(items=dict(zip(ks, vs)))))]

        return seq(self.ev_list(list(keys) + list(vals), st, fr), mk)

    def ev_Attribute(self, e, st, fr):
        return seq(self.ev(e.value, st, fr), lambda s, v: self.getattr(s, v, e.attr, e))

    def ev_Subscript(self, e, st, fr):
        def f(s, obj):
            if isinstance(e.slice, ast.Slice):
                parts = [e.slice.lower, e.slice.upper, e.slice.step]
                present = [p for p in parts if p is not None]

                def g(s2, vs):
                    it = iter(vs)
                    sl = tuple(next(it) if p is not None else None for p in parts)
                    return self.getslice(s2, obj, sl, e)

                return seq(self.ev_list(present, s, fr), g)
            return seq(self.ev(e.slice, s, fr), lambda s2, i: self.getitem(s2, obj, i, e))

        return seq(self.ev(e.value, st, fr), f)

    def ev_IfExp(self, e, st, fr):
        def f(s, c):
            out = []
            for s2, b in self.truth(s, c, fr, e):
                out.extend(self.ev(e.body if b else e.orelse, s2, fr))
            return out

        return seq(self.ev(e.test, st, fr), f)

    def ev_BoolOp(self, e, st, fr):
        is_and = isinstance(e.op, ast.And)

        def go(i, s):
            def f(s2, v):
                if i == len(e.values) - 1:
                    return [(s2, v)]
                out = []
                for s3, b in self.truth(s2, v, fr, e):
                    if b == is_and:
                        out.extend(go(i + 1, s3))
                    else:
                        out.append((s3, v))
                return out

            return seq(self.ev(e.values[i], s, fr), f)

        return go(0, st)

    def ev_UnaryOp(self, e, st, fr):
        def f(s, v):
            if isinstance(e.op, ast.Not):
                t = self.truth_term(s, v)
                if t is None:
                    return seq(self.truth(s, v, fr, e), lambda s2, b: [(s2, not b)])
                if isinstance(t, bool):
                    return [(s, not t)]
                return [(s, Sym(z3.Not(t), "bool"))]
            if isinstance(v, Sym) and v.k == "int":
                if isinstance(e.op, ast.USub):
                    return [(s, Sym(-v.t, "int"))]
                if isinstance(e.op, ast.UAdd):
                    return [(s, v)]
            if is_host(v):
                op = {ast.USub: operator.neg, ast.UAdd: operator.pos, ast.Invert: operator.invert}[type(e.op)]
                return [(s, op(v))]
            h = self.specs.get(("unop", type(e.op)))  # contract-supplied spec for -x / +x / ~x on an opaque value
            if h is not None and isinstance(v, Sym) and v.k == "obj":
                r = h(self, s, [v], {}, e)
                if r is not None:
                    return r
            raise Unsupported("unary op on symbolic value", e)

        return seq(self.ev(e.operand, st, fr), f)

    def ev_BinOp(self, e, st, fr):
        return seq(self.ev_list([e.left, e.right], st, fr), lambda s, vs: self.binop(s, type(e.op), vs[0], vs[1], e))

    def ev_Compare(self, e, st, fr):
        # a < b < c  ==  a < b and b < c, each operand evaluated once
        def go(i, s, left, acc):
            def f(s2, right):
                def g(s3, r):
                    if i == len(e.ops) - 1:
                        return [(s3, self.and_vals(acc, r))]
                    # short circuit
                    t = self.truth_term(s3, r)
                    if isinstance(t, bool):
                        if not t:
                            return [(s3, False)]
                        return go(i + 1, s3, right, acc)
                    out = []
                    for s4, b in self.fork_bool(s3, t):
                        if b:
                            out.extend(go(i + 1, s4, right, acc))
                        else:
                            out.append((s4, False))
                    return out

                return seq(self.compare(s2, type(e.ops[i]), left, right, e), g)

            return seq(self.ev(e.comparators[i], s, fr), f)

        return seq(self.ev(e.left, st, fr), lambda s, l: go(0, s, l, True))

    def and_vals(self, a, b):
        if a is True:
            return b
        if a is False:
            return False
        return Sym(z3.And(to_term(a, "bool"), to_term(b, "bool")), "bool")

    def ev_Lambda(self, e, st, fr):
        return self.make_closure(e, st, fr, "<lambda>")

    def ev_JoinedStr(self, e, st, fr):
        parts = []
        exprs = []
        for v in e.values:
            if isinstance(v, ast.Constant):
                parts.append(v.value)
            else:
                if v.format_spec is not None:
                    raise Unsupported("format spec in f-string", e)
                parts.append(v)
                exprs.append(v.value)

        def f(s, vs):
            it = iter(vs)
            pieces = []
            results = [(s, [])]
            for p in parts:
                if isinstance(p, str):
                    results = [(s2, acc + [p]) for s2, acc in results]
                    continue
                val = next(it)
                conv = {-1: "str", 115: "str", 114: "repr", 97: "ascii"}[p.conversion]
                nxt = []
                for s2, acc in results:
                    if isinstance(acc, Raised):
                        nxt.append((s2, acc))
                        continue
                    fn = builtins.str if conv == "str" else builtins.repr
                    for s3, sv in self.call(s2, fn, [val], {}, e):
                        nxt.append((s3, sv if isinstance(sv, Raised) else acc + [sv]))
                results = nxt
            out = []
            for s2, acc in results:
                if isinstance(acc, Raised):
                    out.append((s2, acc))
                else:
                    out.append((s2, self.concat_strs(acc)))
            return out

        return seq(self.ev_list(exprs, st, fr), f)

    def concat_strs(self, pieces):
        if all(isinstance(p, str) for p in pieces):
            return "".join(pieces)
        merged = []
        for p in pieces:
            if isinstance(p, str) and merged and isinstance(merged[-1], str):
                merged[-1] += p
            else:
                merged.append(p)
        merged = [m for m in merged if not (isinstance(m, str) and m == "")]
        if len(merged) == 1:
            return merged[0]
        tags = set()
        for m in merged:
            if isinstance(m, Sym):
                tags |= m.tags
        return Sym(z3.Concat(*[to_term(m, "str") for m in merged]), "str", tags)

    def ev_NamedExpr(self, e, st, fr):
        def f(s, v):
            self.store_name(s, fr, e.target.id, v)
            return [(s, v)]

        return seq(self.ev(e.value, st, fr), f)

    def ev_Await(self, e, st, fr):
        # A7: await is a transparent call
        return self.ev(e.value, st, fr)

    def ev_Yield(self, e, st, fr):
        if e.value is None:
            st.yields.append(None)
            return [(st, None)]

        def f(s, v):
            s.yields.append(v)
            s.trace.append(Event("yield", "yield", [v], lineno=e.lineno))
            return [(s, None)]

        return seq(self.ev(e.value, st, fr), f)

    def ev_YieldFrom(self, e, st, fr):
        def f(s, v):
            for x in self.iter_concrete(s, v, e, allow_abstract=True):
                s.yields.append(x)
                s.trace.append(Event("yield", "yield", [x], lineno=e.lineno))
            return [(s, None)]

        return seq(self.ev(e.value, st, fr), f)

    def ev_Starred(self, e, st, fr):
        raise Unsupported("starred expression outside call/display", e)

    def ev_Call(self, e, st, fr):
        def f(s, fn):
            pos = [a for a in e.args]

            def g(s2, argv):
                kw_exprs = [k.value for k in e.keywords]

                def h(s3, kwv):
                    kwargs = {}
                    for k, v in zip(e.keywords, kwv):
                        if k.arg is None:
                            if self.specs.get("star_kwargs_abstract") and not self.is_concrete_iterable(s3, v):
                                # `f(**m)` with an abstract mapping m: handed to the callee's spec under the key "**" (opt-in per contract)
                                kwargs["**"] = v
                                continue
                            kwargs.update(self.dict_concrete(s3, v, e))
                        else:
                            kwargs[k.arg] = v
                    return self.call(s3, fn, argv, kwargs, e)

                return seq(self.ev_list(kw_exprs, s2, fr), h)

            return seq(self.ev_list(pos, s, fr), g)

        return seq(self.ev(e.func, st, fr), f)

    # comprehensions: desugared to loops over concrete iterables
    def _comp(self, e, st, fr, elt_fn, finish):
        # runs in a child frame
        fid = st.new_frame()
        cfr = Frame(fid, [fr.fid] + fr.chain, fr.module, fr.qualname + ".<comp>", fn_node=fr.fn_node)

        def gen(i, s):
            if i == len(e.generators):
                return elt_fn(s, cfr)
            g = e.generators[i]
            if g.is_async:
                pass  # A7

            def f(s2, itv):
                if not self.is_concrete_iterable(s2, itv):
                    if len(e.generators) != 1 or (g.ifs and not getattr(self.specs.get("comp_abstract"), "handles_filters", False)):
                        raise Unsupported("comprehension over abstract iterable with filter/nesting", e)
                    return self._comp_abstract(e, g, s2, cfr, itv, elt_fn)
                items = self.iter_concrete(s2, itv, e)
                results = [(s2, [])]
                for item in items:
                    nxt = []
                    for s3, acc in results:
                        if isinstance(acc, Raised):
                            nxt.append((s3, acc))
                            continue
                        self.assign(g.target, item, s3, cfr)
                        conds = [(s3, True)]
                        for c in g.ifs:
                            nc = []
                            for s4, ok in conds:
                                if ok is not True:
                                    nc.append((s4, ok))
                                    continue
                                for s5, cv in self.ev(c, s4, cfr):
                                    if isinstance(cv, Raised):
                                        nc.append((s5, cv))
                                    else:
                                        for s6, b in self.truth(s5, cv, cfr, c):
                                            nc.append((s6, b))
                            conds = nc
                        for s4, ok in conds:
                            if isinstance(ok, Raised):
                                nxt.append((s4, ok))
                            elif ok is False:
                                nxt.append((s4, acc))
                            else:
                                for s5, sub in gen(i + 1, s4):
                                    nxt.append((s5, sub if isinstance(sub, Raised) else acc + sub))
                    results = nxt
                return results

            src = fr if i == 0 else cfr
            return seq(self.ev(g.iter, s, src), f)

        return seq(gen(0, st), finish)

    def _comp_abstract(self, e, g, st, cfr, itv, elt_fn):
        """[elt for x in S] over a sequence of symbolic length: the element is evaluated once
        for a generic index i; the result array is defined by  forall j. res[j] = elt[i:=j]."""
        from .values import sel, fresh_arr
        hook = self.specs.get("comp_abstract")
        if hook is not None:
            r = hook(self, e, g, st, cfr, itv, elt_fn)
            if r is not None:
                return r
        seqv = self.as_sseq(st, itv, e)
        i = z3.Int(fresh_name("ci"))
        s1 = st.fork()
        s1.assume(i >= 0, i < seqv.n)
        out = []
        normal = []
        for s2, r in self.assign(g.target, sel(seqv.arr, seqv.k, i), s1, cfr):
            if isinstance(r, Raised):
                out.append((s2, r))
                continue
            for s3, v in elt_fn(s2, cfr):
                if isinstance(v, Raised):
                    out.append((s3, v))
                else:
                    normal.append((s3, v[0]))
        if len(normal) != 1:
            if not normal and out:
                # every generic element raises; the empty sequence still returns normally
                s0 = st
                s0.assume(seqv.n == 0)
                return out + [(s0, [])]
            raise Unsupported("comprehension element forks on the generic element", e)
        v = normal[0][1]
        kind = self._kind_of_value(v, e)
        arr = fresh_arr("comp", kind)
        j = z3.Int(fresh_name("cj"))
        eqs = self._elem_defs(arr, kind, j, v, i)
        st.assume(z3.ForAll([j], z3.Implies(z3.And(0 <= j, j < seqv.n), z3.And(*eqs))))
        st.assume(seqv.n >= 0)
        res = SSeq(arr, seqv.n, kind)
        return out + [(st, res)]

    def _kind_of_value(self, v, node):
        if isinstance(v, tuple):
            return tuple(self._kind_of_value(x, node) for x in v)
        if isinstance(v, (Ref, BoundMethod, Closure, SSeq)):
            raise Unsupported("comprehension element is a heap value", node)
        return kind_of(v)

    def _elem_defs(self, arr, kind, j, v, i):
        if isinstance(kind, tuple):
            out = []
            for a, k, x in zip(arr, kind, v):
                out += self._elem_defs(a, k, j, x, i)
            return out
        return [z3.Select(arr, j) == z3.substitute(to_term(v, kind), (i, j))]

    def ev_ListComp(self, e, st, fr):
        def fin(s, vs):
            if isinstance(vs, SSeq):
                return [(s, s.alloc(HList(arr=vs.arr, n=vs.n, k=vs.k)))]
            if not isinstance(vs, list):
                return [(s, vs)]  # opaque iterable produced by a comp_abstract hook
            return [(s, s.alloc(HList(items=list(vs))))]

        return self._comp(e, st, fr, lambda s, cfr: seq(self.ev(e.elt, s, cfr), lambda s2, v: [(s2, [v])]), fin)

    def ev_GeneratorExp(self, e, st, fr):
        # eager evaluation (assumption: element expressions are pure or order-insensitive)
        def fin(s, vs):
            if isinstance(vs, SSeq):
                return [(s, s.alloc(HIter(vs, 0, tag="generator")))]
            if not isinstance(vs, list):
                return [(s, vs)]
            return [(s, tuple(vs))]

        return self._comp(e, st, fr, lambda s, cfr: seq(self.ev(e.elt, s, cfr), lambda s2, v: [(s2, [v])]), fin)

    def ev_SetComp(self, e, st, fr):
        return self._comp(
            e, st, fr,
            lambda s, cfr: seq(self.ev(e.elt, s, cfr), lambda s2, v: [(s2, [v])]),
            lambda s, vs: [(s, s.alloc(HSet(items=list(dict.fromkeys(vs)))))],
        )

    def ev_DictComp(self, e, st, fr):
        def elt(s, cfr):
            return seq(self.ev_list([e.key, e.value], s, cfr), lambda s2, kv: [(s2, [tuple(kv)])])

        def fin(s, kvs):
            if not isinstance(kvs, list):
                return [(s, kvs)]  # abstract mapping produced by a comp_abstract hook
            for k, _ in kvs:
                if not deep_host(k):
                    raise Unsupported("dict comprehension with symbolic key", e)
            return [(s, s.alloc(HDict(items=dict(kvs))))]

        return self._comp(e, st, fr, elt, fin)

    # -------------------------------------------------------------- closures
    def make_closure(self, node, st, fr, name):
        args = node.args
        dexprs = list(args.defaults) + [d for d in args.kw_defaults if d is not None]

        def f(s, dv):
            nd = len(args.defaults)
            kwd = {}
            it = iter(dv[nd:])
            for a, d in zip(args.kwonlyargs, args.kw_defaults):
                if d is not None:
                    kwd[a.arg] = next(it)
            c = Closure(node, fr.module, [fr.fid] + fr.chain, fr.qualname + ".<locals>." + name, dv[:nd], kwd)
            return [(s, c)]

        return seq(self.ev_list(dexprs, st, fr), f)

    # ------------------------------------------------------ concrete iteration
    def iter_concrete(self, st, v, node=None, allow_abstract=False):
        """Items of an iterable whose length is known on this path."""
        if isinstance(v, Ref):
            h = st.get(v)
            if isinstance(h, HList) and h.concrete:
                return list(h.items)
            if isinstance(h, HDict) and h.concrete:
                return list(h.items.keys())
            if isinstance(h, HSet) and h.items is not None:
                return list(h.items)
            if isinstance(h, HIter) and isinstance(h.items, list):
                rest = h.items[h.cursor:]
                h.cursor = len(h.items)
                return rest
            raise Unsupported(f"iteration over abstract {type(h).__name__} needs a loop contract", node)
        if isinstance(v, (Sym, SSeq)):
            raise Unsupported("iteration over symbolic value needs a loop contract", node)
        if isinstance(v, (tuple, list, frozenset, set, range, dict, str)) or hasattr(v, "__iter__"):
            if isinstance(v, (set, frozenset)):
                return sorted(v, key=repr)
            return list(v)
        raise Unsupported(f"not iterable: {v!r}", node)

    def dict_concrete(self, st, v, node=None):
        if isinstance(v, Ref):
            h = st.get(v)
            if isinstance(h, HDict) and h.concrete:
                return dict(h.items)
        if isinstance(v, dict):
            return dict(v)
        if isinstance(v, BoundMethod) and v.name == "__dict__" and isinstance(v.recv, Ref) and isinstance(st.get(v.recv), HObj) \
                and not st.get(v.recv).lazy and not st.get(v.recv).open:
            # obj.__dict__ of an instance all of whose attributes are materialised: the instance fields
            return dict(st.get(v.recv).fields)
        raise Unsupported("** of a symbolic mapping", node)
