from .interp import InterpBase
from .ops import OpsMixin
from .stmts import StmtMixin, LoopSpec  # noqa


class Interp(OpsMixin, StmtMixin, InterpBase):
    pass
