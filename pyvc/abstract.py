"""Helpers to build abstract pre-states and abstract callees for contracts."""
from __future__ import annotations

import z3

from .values import (
    Sym, Ref, BoundMethod, Exc, SSeq, HObj, HList, HDict, HSet, HLock, HIter, Event,
    fresh, fresh_name, sym, KIND_SORT, Obj, fresh_arr,
)
from .interp import Raised
from .smt import to_term


def obj(st, cls, path="", fields=None, lazy=None, open=False):
    """Abstract instance of a live class with given / lazily created fields."""
    return st.alloc(HObj(cls, fields=fields, lazy=lazy, path=path, open=open), initial=True)


def alist(st, prefix, kind="obj", tag="list"):
    arr = fresh_arr(prefix + "_arr", kind)
    n = z3.Int(fresh_name(prefix + "_n"))
    st.assume(n >= 0)
    return st.alloc(HList(arr=arr, n=n, k=kind, tag=tag), initial=True)


def sseq(st, prefix, kind="obj"):
    arr = fresh_arr(prefix + "_arr", kind)
    n = z3.Int(fresh_name(prefix + "_n"))
    st.assume(n >= 0)
    return SSeq(arr, n, kind)


def adict(st, prefix, kk="obj", vk="obj"):
    dom = z3.Const(fresh_name(prefix + "_dom"), z3.ArraySort(KIND_SORT[kk], z3.BoolSort()))
    val = z3.Const(fresh_name(prefix + "_val"), z3.ArraySort(KIND_SORT[kk], KIND_SORT[vk]))
    size = z3.Int(fresh_name(prefix + "_size"))
    st.assume(size >= 0)
    return st.alloc(HDict(dom=dom, val=val, size=size, kk=kk, vk=vk), initial=True)


def call_event(st, name, args, kwargs, result, node):
    st.trace.append(Event("call", name, args, kwargs, result, lineno=getattr(node, "lineno", None)))


def abstract_fn(name, returns="obj", raises=(), tags=(), result=None, effect=None):
    """Spec handler for a callee known only by name: records a 'call' event, returns a fresh
    value of kind ``returns`` (or result(st, args, kwargs)), and forks one exceptional outcome
    per entry of ``raises`` (a class = exactly that class; ('any', Base) = some subclass)."""

    def handler(I, st, args, kwargs, node):
        out = []
        for r in raises:
            s = st.fork()
            if isinstance(r, tuple):
                e = Exc(None, (), tag=f"{name}#{len(s.trace)}", within=r[1], origin=getattr(node, "lineno", None))
            else:
                e = Exc(r, (), tag=f"{name}#{len(s.trace)}", origin=getattr(node, "lineno", None))
            e.from_call = name
            call_event(s, name, args, kwargs, e, node)
            out.append((s, Raised(e)))
        if result is not None:
            v = result(st, args, kwargs)
        elif returns is None:
            v = None
        else:
            v = fresh(name.replace(".", "_"), returns, tags=set(tags) | {f"from:{name}"})
        if effect is not None:
            effect(st, args, kwargs, v)
        call_event(st, name, args, kwargs, v, node)
        out.append((st, v))
        return out

    return handler


def opaque_arithmetic(I, raises=(("any", Exception),)):
    """Policy for code that computes with opaque (data) values: pure builtins, operators and
    comparisons applied to them are abstract callees (fresh result, may raise, 'call' event
    `builtin.<name>` / `operator.<op>` / `compare.<op>`).  Lets a contract still decide when the
    function under contract does arithmetic on values it should only have passed on."""

    def pure(I_, st, args, kwargs, node):
        fn = args[0]
        return abstract_fn(f"builtin.{getattr(fn, '__name__', fn)}", returns="obj", raises=raises)(I_, st, args[1:], kwargs, node)

    I.specs["pure_builtin_obj"] = pure

    def cmp(I_, st, args, kwargs, node):
        op = args[0]
        return abstract_fn(f"compare.{op.__name__}", returns="bool", raises=raises)(I_, st, args[1:], kwargs, node)

    I.specs["compare_obj"] = cmp
    import ast as _ast
    for op in (_ast.Add, _ast.Sub, _ast.Mult, _ast.Div, _ast.FloorDiv, _ast.Mod, _ast.Pow):
        I.specs.setdefault(("binop", op), abstract_fn(f"operator.{op.__name__}", returns="obj", raises=raises))


def calls(out, name):
    return [e for e in out.st.trace if e.kind == "call" and e.name == name]


def list_terms(st, v):
    """(arr, n, kind) of a list/tuple value, concrete or abstract, as z3 terms."""
    if isinstance(v, SSeq):
        return v.arr, v.n, v.k
    if isinstance(v, tuple):
        items, k = list(v), "obj"
    else:
        h = st.get(v)
        if isinstance(h, HIter):
            if isinstance(h.items, SSeq):
                return h.items.arr, h.items.n, h.items.k
            items, k = list(h.items), "obj"
        elif not h.concrete:
            return h.arr, h.n, h.k
        else:
            items, k = h.items, "obj"
    kinds = {("obj" if isinstance(x, (Ref, SSeq)) or not isinstance(x, (Sym, int, str, bool)) else (x.k if isinstance(x, Sym) else {bool: "bool", int: "int", str: "str"}[type(x)])) for x in items}
    k = kinds.pop() if len(kinds) == 1 else "obj"
    arr = z3.K(z3.IntSort(), z3.Const(f"dummy_{k}", KIND_SORT[k]))
    for i, x in enumerate(items):
        arr = z3.Store(arr, i, to_term(x, k))
    return arr, z3.IntVal(len(items)), k
