"""Regex facts (DESIGN 2.9): structural facts read off `re._parser.parse(p.pattern, p.flags)` of the
REAL compiled pattern objects held by a real `jinja2.lexer.Lexer` (or by the module), for each
configuration of the finite family A9.  Nothing here looks at the pattern *text*; every fact is a
statement about the parse tree that `re` executes (assumption A8), so a re-spelling of a pattern that
keeps its structure/language keeps the facts, and a fact that cannot be established returns None
(the obligations that need it are then undecided, never violated).

  width(p)               (min, max) of any match
  partition(p)           top level = capturing groups 1..k (+ zero-width tail): any match = g1.g2...gk
  one_named(p)           top level = group 1 + alternation of exactly-one-named-group branches
  sign_groups(p)         the groups at m.groups()[2::2] are the '-' / '+' / '' groups, exactly one set per match
  lazy_text(p)           group 1 is `.*?` under DOTALL
  contains_literal(t,s)  every match of the (sub)tree contains the literal s outside optional parts
  end_forms(t)           the alternatives of an end-tag (sub)tree as (literal text, trailing) pairs,
                         trailing in {none, '\\s*', '\\n?'}
  to_z3(p)               z3 regular expression of the language of p (no back-references / look-around)
"""
from __future__ import annotations

import itertools
import re
import re._constants as C
import re._parser as P

MAXREPEAT = C.MAXREPEAT

# ------------------------------------------------------------------ the A9 family


def family():
    """The finite listed family of lexer configurations (assumption A9): name -> Environment kwargs."""
    delims = {
        "default": {},
        "asp": dict(block_start_string="<%", block_end_string="%>", variable_start_string="<%=", variable_end_string="%>",
                    comment_start_string="<!--", comment_end_string="-->"),
        "dollar": dict(block_start_string="<?", block_end_string="?>", variable_start_string="${", variable_end_string="}",
                       comment_start_string="<!--", comment_end_string="-->"),
        "shared": dict(block_start_string="{%%", block_end_string="%%}", variable_start_string="{%%=", variable_end_string="=%%}",
                       comment_start_string="{%%#", comment_end_string="#%%}"),
        "line#": dict(line_statement_prefix="#", line_comment_prefix="##"),
        "line%": dict(line_statement_prefix="%", line_comment_prefix="//"),
    }
    out = {}
    for dn, d in delims.items():
        for trim, lstrip in itertools.product((False, True), repeat=2):
            kw = dict(d, trim_blocks=trim, lstrip_blocks=lstrip)
            out[f"{dn}/trim={int(trim)},lstrip={int(lstrip)}"] = kw
    for nl in ("\n", "\r\n", "\r"):
        for ktn in (False, True):
            out[f"default/nl={nl!r},ktn={int(ktn)}"] = dict(newline_sequence=nl, keep_trailing_newline=ktn)
    return out


def delimiter_families():
    """One representative per delimiter set (trim/lstrip off)."""
    return {k: v for k, v in family().items() if k.endswith("trim=0,lstrip=0")}


def lexer_for(kwargs):
    """A real Lexer built by the real Environment for this configuration."""
    import jinja2
    return jinja2.Environment(**kwargs).lexer


# ------------------------------------------------------------------ parse trees


def tree(p):
    """Parse tree of a compiled pattern (what `re` executes, A8)."""
    return P.parse(p.pattern, p.flags)


def items(t):
    return list(t.data) if isinstance(t, P.SubPattern) else list(t)


def width(p):
    t = tree(p) if hasattr(p, "pattern") else p
    lo, hi = t.getwidth()
    return int(lo), (None if hi >= MAXREPEAT else int(hi))


ZERO_WIDTH = (C.AT, C.ASSERT, C.ASSERT_NOT)


def is_group(it):
    return it[0] is C.SUBPATTERN and it[1][0] is not None


def group_content(it):
    return items(it[1][3])


def partition(p):
    """[1..k] when the top level of p is the capturing groups 1..k in order, optionally followed by
    zero-width assertions; then any match is group(1)+...+group(k) and all k groups participate."""
    its = items(tree(p))
    groups = []
    i = 0
    while i < len(its) and is_group(its[i]) and not it_flags(its[i]):
        groups.append(its[i][1][0])
        i += 1
    if not groups or any(x[0] not in ZERO_WIDTH for x in its[i:]):
        return None
    if groups != list(range(1, len(groups) + 1)):
        return None
    return groups


def it_flags(it):
    return bool(it[1][1] or it[1][2])


def group_names(p):
    return {v: k for k, v in p.groupindex.items()}


def one_named(p):
    """Root-rule shape: [group 1, BRANCH of branches each consisting of exactly one *named* group].
    -> {'text': 1, 'branches': [(name, group number, content items)]} or None."""
    its = items(tree(p))
    if len(its) != 2 or not is_group(its[0]) or its[0][1][0] != 1 or its[1][0] is not C.BRANCH:
        return None
    names = group_names(p)
    branches = []
    for b in its[1][1][1]:
        b = items(b)
        if len(b) != 1 or not is_group(b[0]) or b[0][1][0] not in names or it_flags(b[0]):
            return None
        branches.append((names[b[0][1][0]], b[0][1][0], group_content(b[0])))
    if len({n for n, _, _ in branches}) != len(branches):
        return None
    return {"text": 1, "branches": branches}


def inner_groups(content, mandatory=True):
    """[(group number, content, mandatory?)] of every capturing group nested in a sequence of items."""
    out = []
    for it in content:
        op, av = it
        if op is C.SUBPATTERN:
            if av[0] is not None:
                out.append((av[0], items(av[3]), mandatory))
            out += inner_groups(items(av[3]), mandatory)
        elif op is C.BRANCH:
            for b in av[1]:
                out += inner_groups(items(b), False)
        elif op in (C.MAX_REPEAT, C.MIN_REPEAT, C.POSSESSIVE_REPEAT):
            out += inner_groups(items(av[2]), mandatory and av[0] == 1 and av[1] == 1)
        elif op in (C.ASSERT, C.ASSERT_NOT):
            out += inner_groups(items(av[1]), False)
        elif op is C.ATOMIC_GROUP:
            out += inner_groups(items(av), mandatory)
    return out


def is_sign_content(content):
    """the group content is the alternation '-' | '+' | '' (in any order / spelling)"""
    alts = alternatives(content)
    return alts is not None and sorted(alts) == sorted([(("lit", "-"),), (("lit", "+"),), ()])


def sign_groups(p):
    """The groups the OptionalLStrip code reads as `groups[2::2]` (group numbers 3, 5, ...):
    -> list of (owner, group number) when (a) every such group is a sign group ('-' | '+' | ''),
    (b) in every match exactly one of them participates (it is the one mandatory capturing group inside the
    matched named branch / inside group 2), (c) there are no other capturing groups.  Else None."""
    on = one_named(p)
    total = tree(p).state.groups - 1
    if on is not None:
        out = []
        expect = 2
        for name, g, content in on["branches"]:
            inner = inner_groups(content)
            if g != expect or len(inner) != 1 or inner[0][0] != g + 1 or not inner[0][2] or not is_sign_content(inner[0][1]):
                return None
            out.append((name, g + 1))
            expect += 2
        if expect - 1 != total:
            return None
        return out
    part = partition(p)
    if part == [1, 2]:
        its = items(tree(p))
        inner = inner_groups(group_content(its[1]))
        if inner_groups(group_content(its[0])) or len(inner) != 1 or inner[0][0] != 3 or not inner[0][2] or not is_sign_content(inner[0][1]) or total != 3:
            return None
        return [(None, 3)]
    return None


def lazy_text(p):
    """group 1 is `.*?` and `.` matches every character (DOTALL)"""
    its = items(tree(p))
    if not its or not is_group(its[0]) or its[0][1][0] != 1:
        return False
    c = group_content(its[0])
    return (len(c) == 1 and c[0][0] is C.MIN_REPEAT and c[0][1][0] == 0 and c[0][1][1] >= MAXREPEAT
            and [x[0] for x in items(c[0][1][2])] == [C.ANY] and bool(p.flags & re.DOTALL))


def greedy_all(p):
    """p is `.+` under DOTALL: at a position before the end it matches everything up to the end"""
    its = items(tree(p))
    return (len(its) == 1 and its[0][0] is C.MAX_REPEAT and its[0][1][0] == 1 and its[0][1][1] >= MAXREPEAT
            and [x[0] for x in items(its[0][1][2])] == [C.ANY] and bool(p.flags & re.DOTALL))


# ------------------------------------------------------------------ literal containment


def flatten(content):
    """inline capturing / non-capturing groups (they do not change what is matched)"""
    out = []
    for it in content:
        if it[0] is C.SUBPATTERN and not it_flags(it):
            out += flatten(items(it[1][3]))
        else:
            out.append(it)
    return out


def contains_literal(content, s):
    """True when every string matched by the item sequence contains the literal `s` (as consecutive LITERAL items,
    outside optional / repeated-from-zero parts).  Conservative: False means 'not established'."""
    if not s:
        return False
    run = ""
    for it in flatten(items(content)):
        op, av = it
        if op is C.LITERAL:
            run += chr(av)
            if s in run:
                return True
            continue
        run = ""
        if op is C.BRANCH:
            if all(contains_literal(b, s) for b in av[1]):
                return True
        elif op in (C.MAX_REPEAT, C.MIN_REPEAT, C.POSSESSIVE_REPEAT):
            if av[0] >= 1 and contains_literal(av[2], s):
                return True
    return False


# ------------------------------------------------------------------ alternatives / end forms


def atom_of(it):
    op, av = it
    if op is C.LITERAL:
        return ("lit", chr(av))
    if op is C.MAX_REPEAT:
        lo, hi, sub = av
        sub = items(sub)
        if lo == 0 and hi >= MAXREPEAT and len(sub) == 1 and sub[0][0] is C.IN and list(sub[0][1]) == [(C.CATEGORY, C.CATEGORY_SPACE)]:
            return ("ws*",)
        if lo == 0 and hi == 1 and len(sub) == 1 and sub[0] == (C.LITERAL, 10):
            return ("nl?",)
    return ("other", repr(it))


def alternatives(content, limit=512):
    """The language of an item sequence as a finite list of atom sequences (alternation and groups expanded;
    `\\s*` and `\\n?` kept as atoms; anything else is an 'other' atom).  None if it explodes."""
    seqs = [()]
    for it in items(content):
        op, av = it
        if op is C.SUBPATTERN and not it_flags(it):
            sub = alternatives(av[3], limit)
        elif op is C.BRANCH:
            sub = []
            for b in av[1]:
                r = alternatives(b, limit)
                if r is None:
                    return None
                sub += r
        elif op is C.IN and all(x[0] is C.LITERAL for x in av):
            sub = [(("lit", chr(x[1])),) for x in av]  # the parser turns a|b into [ab]
        else:
            sub = [(atom_of(it),)]
        if sub is None:
            return None
        seqs = [a + b for a in seqs for b in sub]
        if len(seqs) > limit:
            return None
    return seqs


def form_of(alt):
    """(literal text, trailing) of one alternative: a run of literals followed by at most one trailing atom."""
    text = ""
    i = 0
    while i < len(alt) and alt[i][0] == "lit":
        text += alt[i][1]
        i += 1
    rest = alt[i:]
    if not rest:
        return (text, "none")
    if len(rest) == 1 and rest[0] == ("ws*",):
        return (text, "\\s*")
    if len(rest) == 1 and rest[0] == ("nl?",):
        return (text, "\\n?")
    return (text, "?" + repr(rest))


def end_forms(content, delimiter=None):
    """Set of forms accepted by an end-tag alternation.  With `delimiter`, each form is returned as the triple
    (sign, delimiter, trailing) where literal text == sign + delimiter; forms that are not of that shape keep
    ('?', text, trailing)."""
    alts = alternatives(content)
    if alts is None:
        return None
    out = set()
    for a in alts:
        text, trailing = form_of(a)
        if delimiter is None:
            out.add((text, trailing))
        elif text == delimiter:
            out.add(("", delimiter, trailing))
        elif text in ("+" + delimiter, "-" + delimiter):
            out.add((text[0], delimiter, trailing))
        else:
            out.add(("?", text, trailing))
    return out


def split_after_literal(content, word):
    """For `<head> word \\s* <tail>` (raw begin / raw end): -> (head alternatives as strings with <ws*> marks, tail items)
    where the tail is everything after the `\\s*` that follows the literal `word`.  None if not of that shape."""
    its = flatten(items(content))
    n = len(word)
    for i in range(len(its) - n + 1):
        if all(its[i + j] == (C.LITERAL, ord(word[j])) for j in range(n)):
            if i + n < len(its) and atom_of(its[i + n]) == ("ws*",):
                return its[:i], its[i + n + 1:]
    return None


def render_alt(alt):
    return "".join(a[1] if a[0] == "lit" else "<" + a[0] + ">" if a[0] != "other" else "<?>" for a in alt)


# ------------------------------------------------------------------ character classes / z3 translation

_class_cache = {}


def char_ranges(pred, limit=0x30000):
    """maximal ranges [(lo, hi)] of code points < limit satisfying pred (z3's alphabet ends at U+2FFFF)"""
    out = []
    start = None
    for i in range(limit):
        if pred(chr(i)):
            if start is None:
                start = i
        elif start is not None:
            out.append((start, i - 1))
            start = None
    if start is not None:
        out.append((start, limit - 1))
    return out


def space_ranges():
    """code points for which `\\s` matches in a str pattern == Py_UNICODE_ISSPACE == str.isspace (checked against
    `re` itself by regex_space_is_isspace())"""
    if "space" not in _class_cache:
        _class_cache["space"] = char_ranges(str.isspace)
    return _class_cache["space"]


def regex_space_is_isspace():
    """table fact: for every code point, re `\\s` matches exactly when str.isspace() (the class str.rstrip() strips).
    -> list of disagreeing code points"""
    ws = re.compile(r"\s")
    return [i for i in range(0x110000) if (ws.fullmatch(chr(i)) is not None) != chr(i).isspace() or
            (chr(i).isspace() != (("x" + chr(i)).rstrip() == "x"))]


def category_ranges(cat):
    import unicodedata
    key = str(cat)
    if key in _class_cache:
        return _class_cache[key]
    neg = False
    base = cat
    table = {
        C.CATEGORY_SPACE: str.isspace, C.CATEGORY_NOT_SPACE: lambda c: not c.isspace(),
        C.CATEGORY_DIGIT: lambda c: unicodedata.category(c) == "Nd", C.CATEGORY_NOT_DIGIT: lambda c: unicodedata.category(c) != "Nd",
        C.CATEGORY_WORD: lambda c: c.isalnum() or c == "_", C.CATEGORY_NOT_WORD: lambda c: not (c.isalnum() or c == "_"),
    }
    if base not in table:
        raise NotImplementedError(f"category {cat}")
    _class_cache[key] = char_ranges(table[base])
    return _class_cache[key]


def _z3char(i):
    import z3
    return z3.StringVal(chr(i))


def z3_of_ranges(ranges):
    import z3
    parts = [z3.Re(_z3char(a)) if a == b else z3.Range(_z3char(a), _z3char(b)) for a, b in ranges]
    if not parts:
        return z3.Empty(z3.ReSort(z3.StringSort()))
    return parts[0] if len(parts) == 1 else z3.Union(*parts)


def z3_space():
    return z3_of_ranges(space_ranges())


def _in_ranges(av, ignorecase):
    """ranges of an IN set (without NEGATE handling)"""
    rs = []
    for op, a in av:
        if op is C.LITERAL:
            rs.append((a, a))
        elif op is C.RANGE:
            rs.append((a[0], a[1]))
        elif op is C.CATEGORY:
            rs += category_ranges(a)
        elif op is C.NEGATE:
            continue
        else:
            raise NotImplementedError(f"set member {op}")
    if ignorecase:
        extra = []
        for a, b in rs:
            if b - a < 256:
                for i in range(a, b + 1):
                    for v in {chr(i).lower(), chr(i).upper()}:
                        if len(v) == 1:
                            extra.append((ord(v), ord(v)))
        rs += extra
    return rs


def to_z3(p, dropped=None):
    """z3 regular expression for the language of pattern p (or of a parse (sub)tree given with flags in
    `p=(tree, flags)`).  Unsupported constructs (back-references, look-around other than a leading look-behind,
    anchors) raise NotImplementedError; a leading look-behind is dropped and appended to `dropped`."""
    import z3
    if hasattr(p, "pattern"):
        t, flags = tree(p), p.flags
    else:
        t, flags = p
    ic = bool(flags & re.IGNORECASE)
    dotall = bool(flags & re.DOTALL)
    S = z3.StringSort()

    def cat(parts):
        parts = [x for x in parts if x is not None]
        if not parts:
            return z3.Re(z3.StringVal(""))
        return parts[0] if len(parts) == 1 else z3.Concat(*parts)

    def lit(i):
        ch = chr(i)
        if ic and (ch.lower() != ch.upper()) and len(ch.lower()) == 1 and len(ch.upper()) == 1:
            return z3.Union(z3.Re(z3.StringVal(ch.lower())), z3.Re(z3.StringVal(ch.upper())))
        return z3.Re(z3.StringVal(ch))

    def seq(content, top=False):
        parts = []
        for n, it in enumerate(items(content)):
            op, av = it
            if op is C.LITERAL:
                parts.append(lit(av))
            elif op is C.NOT_LITERAL:
                parts.append(z3.Diff(z3.AllChar(z3.ReSort(S)), lit(av)))
            elif op is C.ANY:
                a = z3.AllChar(z3.ReSort(S))
                parts.append(a if dotall else z3.Diff(a, z3.Re(z3.StringVal("\n"))))
            elif op is C.IN:
                r = z3_of_ranges(_in_ranges(av, ic))
                if any(x[0] is C.NEGATE for x in av):
                    r = z3.Diff(z3.AllChar(z3.ReSort(S)), r)
                parts.append(r)
            elif op is C.BRANCH:
                bs = [seq(b) for b in av[1]]
                parts.append(bs[0] if len(bs) == 1 else z3.Union(*bs))
            elif op is C.SUBPATTERN:
                if it_flags(it):
                    raise NotImplementedError("inline flags")
                parts.append(seq(av[3]))
            elif op in (C.MAX_REPEAT, C.MIN_REPEAT, C.POSSESSIVE_REPEAT):
                lo, hi, sub = av
                r = seq(sub)
                if hi >= MAXREPEAT:
                    parts.append(z3.Star(r) if lo == 0 else z3.Plus(r) if lo == 1 else z3.Concat(z3.Loop(r, lo, lo), z3.Star(r)))
                elif lo == 0 and hi == 1:
                    parts.append(z3.Option(r))
                else:
                    parts.append(z3.Loop(r, lo, hi))
            elif op is C.ASSERT and top and n == 0 and av[0] == -1:
                if dropped is not None:
                    dropped.append(repr(it))
            elif op is C.ATOMIC_GROUP:
                raise NotImplementedError("atomic group")
            else:
                raise NotImplementedError(f"regex construct {op}")
        return cat(parts)

    return seq(t, top=True)
