"""Statements: assignments, control flow, exceptions, loops (unrolled over
concrete iterables, cut at contract-supplied invariants otherwise)."""
from __future__ import annotations

import ast
import inspect
import z3

from .values import (
    Sym, Ref, BoundMethod, Closure, Exc, SSeq, HObj, HList, HDict, HSet, HLock,
    HIter, State, Event, Unsupported, CheckerError, fresh, fresh_name,
)
from .smt import to_term, feasible
from .interp import Raised, Ctl, OK, Frame, seq, is_host, deep_host


class LoopSpec:
    """Contract of one loop.

    invariant(ctx) -> list of z3 Bool (ctx gives access to the state and the
    iteration index k); havoc: local names re-bound by the loop, as
    {name: kind | factory(st)}; heap: callable(st) that havocs heap objects
    the loop writes and returns nothing.
    """

    def __init__(self, invariant, havoc=None, heap=None, name="loop", variant=None):
        self.invariant = invariant
        self.havoc = havoc or {}
        self.heap = heap
        self.name = name
        self.variant = variant


class StmtMixin:
    def exec_block(self, stmts, st, fr):
        """-> list[(state, Ctl)]"""
        results = [(st, OK)]
        for stmt in stmts:
            nxt = []
            for s, c in results:
                if c.kind != "ok":
                    nxt.append((s, c))
                    continue
                nxt.extend(self.exec_stmt(stmt, s, fr))
            results = nxt
            if len(results) > self.max_paths:
                raise Unsupported(f"path explosion (> {self.max_paths})", stmt)
        return results

    def exec_stmt(self, stmt, st, fr):
        m = getattr(self, "st_" + type(stmt).__name__, None)
        if m is None:
            raise Unsupported(f"statement {type(stmt).__name__}", stmt)
        return m(stmt, st, fr)

    def _lift(self, results):
        """expression results -> statement results"""
        return [(s, Ctl("raise", v.exc) if isinstance(v, Raised) else OK) for s, v in results]

    def st_Expr(self, n, st, fr):
        if isinstance(n.value, ast.Constant):
            return [(st, OK)]
        return self._lift(self.ev(n.value, st, fr))

    def st_Pass(self, n, st, fr):
        return [(st, OK)]

    def st_Import(self, n, st, fr):
        import importlib
        for a in n.names:
            mod = importlib.import_module(a.name)
            top = importlib.import_module(a.name.split(".")[0])
            st.frames[fr.fid][a.asname or a.name.split(".")[0]] = mod if a.asname else top
        return [(st, OK)]

    def st_ImportFrom(self, n, st, fr):
        import importlib
        pkg = fr.module.__package__ if n.level else None
        name = ("." * n.level) + (n.module or "")
        mod = importlib.import_module(name, pkg)
        for a in n.names:
            st.frames[fr.fid][a.asname or a.name] = getattr(mod, a.name)
        return [(st, OK)]

    def st_Global(self, n, st, fr):
        raise Unsupported("global statement", n)

    def st_Nonlocal(self, n, st, fr):
        return [(st, OK)]

    def st_FunctionDef(self, n, st, fr):
        def f(s, clo):
            # decorators are dropped (recorded by the extractor); only plain nested defs
            if n.decorator_list:
                raise Unsupported("decorated nested function", n)
            self.store_name(s, fr, n.name, clo)
            return [(s, None)]

        return self._lift(seq(self.make_closure(n, st, fr, n.name), f))

    st_AsyncFunctionDef = st_FunctionDef

    def st_Return(self, n, st, fr):
        if n.value is None:
            return [(st, Ctl("return", None))]
        return [(s, Ctl("raise", v.exc) if isinstance(v, Raised) else Ctl("return", v)) for s, v in self.ev(n.value, st, fr)]

    def st_Break(self, n, st, fr):
        return [(st, Ctl("break"))]

    def st_Continue(self, n, st, fr):
        return [(st, Ctl("continue"))]

    def st_Assert(self, n, st, fr):
        def f(s, v):
            out = []
            for s2, b in self.truth(s, v, fr, n):
                if b:
                    out.append((s2, None))
                else:
                    out.append((s2, Raised(Exc(AssertionError, (), origin=n.lineno))))
            return out

        return self._lift(seq(self.ev(n.test, st, fr), f))

    def st_Raise(self, n, st, fr):
        if n.exc is None:
            cur = st.ghost.get("handling")
            if not cur:
                raise Unsupported("bare raise outside handler", n)
            return [(st, Ctl("raise", cur[-1]))]

        def f(s, v):
            if inspect.isclass(v) and issubclass(v, BaseException):
                v = Exc(v, (), origin=n.lineno)
            if isinstance(v, Ref):
                h = s.get(v)
                if isinstance(h, HObj) and inspect.isclass(h.cls) and issubclass(h.cls, BaseException):
                    e = Exc(h.cls, (), origin=n.lineno)
                    e.ref = v
                    v = e
            if isinstance(v, Sym) and v.k == "obj":
                # `raise <opaque value>`: an exception object of unknown class, or (if it can be None)
                # Python's own TypeError "exceptions must derive from BaseException"
                from .smt import host_const
                outs = []
                for s2, is_none in self.fork_bool(s, v.t == host_const(None)):
                    if is_none:
                        outs.append((s2, Raised(Exc(TypeError, ("exceptions must derive from BaseException",), origin=n.lineno))))
                    else:
                        e = Exc(None, (), tag=f"raise {v.t}", within=BaseException, origin=n.lineno)
                        e.sym = v
                        outs.append((s2, Raised(e)))
                return outs
            if v is None:
                return [(s, Raised(Exc(TypeError, ("exceptions must derive from BaseException",), origin=n.lineno)))]
            if not isinstance(v, Exc):
                raise Unsupported(f"raise of non-exception value {v!r}", n)
            if v.origin is None:
                v.origin = n.lineno
            if n.cause is not None:
                rs = self.ev(n.cause, s, fr)
                out = []
                for s2, c in rs:
                    if isinstance(c, Raised):
                        out.append((s2, c))
                    else:
                        v2 = Exc(v.cls, v.args, v.tag, v.within, cause=c, origin=v.origin)
                        out.append((s2, Raised(v2)))
                return out
            return [(s, Raised(v))]

        return self._lift(seq(self.ev(n.exc, st, fr), f))

    def st_Delete(self, n, st, fr):
        results = [(st, OK)]
        for t in n.targets:
            nxt = []
            for s, c in results:
                if c.kind != "ok":
                    nxt.append((s, c))
                    continue
                if isinstance(t, ast.Name):
                    s.frames[fr.fid].pop(t.id, None)
                    nxt.append((s, OK))
                elif isinstance(t, ast.Subscript):
                    def f(s2, vs):
                        return self.delitem(s2, vs[0], vs[1], n)
                    if isinstance(t.slice, ast.Slice):
                        sl = t.slice
                        if sl.lower is None and sl.upper is None and sl.step is None:
                            # `del lst[:]` on a list/deque: documented to remove every item (== lst.clear())
                            def h(s2, o, _n=n):
                                if isinstance(o, Ref) and isinstance(s2.get(o), HList):
                                    return self.call_method(s2, o, "clear", [], {}, _n)
                                raise Unsupported("del of full slice on a non-list", _n)
                            nxt.extend(self._lift(seq(self.ev(t.value, s, fr), h)))
                            continue
                        raise Unsupported("del of slice", n)
                    nxt.extend(self._lift(seq(self.ev_list([t.value, t.slice], s, fr), f)))
                elif isinstance(t, ast.Attribute):
                    def g(s2, o):
                        if isinstance(o, Ref) and isinstance(s2.get(o), HObj):
                            s2.get(o).fields.pop(t.attr, None)
                            s2.written.add((o.id, t.attr))
                            return [(s2, None)]
                        raise Unsupported("del attribute", n)
                    nxt.extend(self._lift(seq(self.ev(t.value, s, fr), g)))
                else:
                    raise Unsupported("del target", n)
            results = nxt
        return results

    # ------------------------------------------------------------ assignment
    def assign(self, target, v, st, fr):
        """-> list[(state, None|Raised)]"""
        if isinstance(target, ast.Name):
            self.store_name(st, fr, target.id, v)
            return [(st, None)]
        if isinstance(target, ast.Attribute):
            return seq(self.ev(target.value, st, fr), lambda s, o: self.setattr(s, o, target.attr, v, target))
        if isinstance(target, ast.Subscript):
            if isinstance(target.slice, ast.Slice):
                raise Unsupported("slice assignment", target)
            return seq(self.ev_list([target.value, target.slice], st, fr), lambda s, ov: self.setitem(s, ov[0], ov[1], v, target))
        if isinstance(target, (ast.Tuple, ast.List)):
            items = self.unpack(st, v, len(target.elts), target)
            if isinstance(items, Raised):
                return [(st, items)]
            results = [(st, None)]
            for t, x in zip(target.elts, items):
                nxt = []
                for s, r in results:
                    if isinstance(r, Raised):
                        nxt.append((s, r))
                    else:
                        if isinstance(t, ast.Starred):
                            raise Unsupported("starred assignment target", target)
                        nxt.extend(self.assign(t, x, s, fr))
                results = nxt
            return results
        raise Unsupported(f"assignment target {type(target).__name__}", target)

    def unpack(self, st, v, n, node):
        if isinstance(v, tuple):
            items = list(v)
        elif isinstance(v, Ref) and isinstance(st.get(v), HList) and st.get(v).concrete:
            items = list(st.get(v).items)
        elif is_host(v) and hasattr(v, "__iter__"):
            items = list(v)
        else:
            h = self.specs.get("unpack")
            if h is not None:
                r = h(self, st, v, n, node)
                if r is not None:
                    return r
            raise Unsupported(f"unpacking of {v!r}", node)
        if len(items) != n:
            return Raised(Exc(ValueError, ("unpack length mismatch",), origin=getattr(node, "lineno", None)))
        return items

    def st_Assign(self, n, st, fr):
        def f(s, v):
            results = [(s, None)]
            for t in n.targets:
                nxt = []
                for s2, r in results:
                    if isinstance(r, Raised):
                        nxt.append((s2, r))
                    else:
                        nxt.extend(self.assign(t, v, s2, fr))
                results = nxt
            return results

        return self._lift(seq(self.ev(n.value, st, fr), f))

    def st_AnnAssign(self, n, st, fr):
        if n.value is None:
            return [(st, OK)]
        return self._lift(seq(self.ev(n.value, st, fr), lambda s, v: self.assign(n.target, v, s, fr)))

    def st_AugAssign(self, n, st, fr):
        t = n.target
        if isinstance(t, ast.Name):
            load = ast.Name(id=t.id, ctx=ast.Load())
        elif isinstance(t, ast.Attribute):
            load = ast.Attribute(value=t.value, attr=t.attr, ctx=ast.Load())
        elif isinstance(t, ast.Subscript):
            load = ast.Subscript(value=t.value, slice=t.slice, ctx=ast.Load())
        else:
            raise Unsupported("augmented assignment target", n)
        ast.copy_location(load, n)

        def f(s, vs):
            cur, rhs = vs
            # in-place operators on mutable heap values mutate the referent
            if isinstance(cur, Ref):
                h = s.get(cur)
                if isinstance(h, HList) and isinstance(n.op, ast.Add):
                    rs = self.call_method(s, cur, "extend", [rhs], {}, n)
                    return seq(rs, lambda s2, _: self.assign(t, cur, s2, fr))
            hook = self.specs.get(("augassign", type(n.op)))
            if hook is not None:
                r = hook(self, s, [cur, rhs], {}, n)
                if r is not None:
                    return seq(r, lambda s2, nv: self.assign(t, nv, s2, fr))
            return seq(self.binop(s, type(n.op), cur, rhs, n), lambda s2, nv: self.assign(t, nv, s2, fr))

        return self._lift(seq(self.ev_list([load, n.value], st, fr), f))

    # ----------------------------------------------------------------- if
    def st_If(self, n, st, fr):
        def f(s, v):
            out = []
            for s2, b in self.truth(s, v, fr, n):
                out.extend([(s3, c) for s3, c in self.exec_block(n.body if b else n.orelse, s2, fr)])
            return out

        res = []
        for s, v in self.ev(n.test, st, fr):
            if isinstance(v, Raised):
                res.append((s, Ctl("raise", v.exc)))
            else:
                res.extend(f(s, v))
        return res

    # ---------------------------------------------------------------- try
    def exc_matches(self, st, exc, classes):
        """-> 'yes' | 'no' | 'maybe' """
        if exc.cls is not None:
            return "yes" if issubclass(exc.cls, classes) else "no"
        # abstract exception: class unknown, below exc.within
        if issubclass(exc.within, classes):
            return "yes"
        cl = classes if isinstance(classes, tuple) else (classes,)
        excl = getattr(exc, "excluded", ())
        if any(issubclass(c, exc.within) and not any(issubclass(c, e) for e in excl) for c in cl):
            return "maybe"
        return "no"

    def st_Try(self, n, st, fr):
        body = self.exec_block(n.body, st, fr)
        after_handlers = []
        for s, c in body:
            if c.kind == "ok":
                after_handlers.extend(self.exec_block(n.orelse, s, fr) if n.orelse else [(s, c)])
            elif c.kind == "raise":
                after_handlers.extend(self.handle(n, s, c.value, fr))
            else:
                after_handlers.append((s, c))
        if not n.finalbody:
            return after_handlers
        out = []
        for s, c in after_handlers:
            for s2, c2 in self.exec_block(n.finalbody, s, fr):
                out.append((s2, c if c2.kind == "ok" else c2))
        return out

    def handle(self, n, st, exc, fr):
        out = []
        pending = [(st, exc)]
        for h in n.handlers:
            nxt = []
            for s, e in pending:
                if h.type is None:
                    classes = BaseException
                else:
                    rs = self.ev(h.type, s, fr)
                    if len(rs) != 1 or isinstance(rs[0][1], Raised):
                        raise Unsupported("except clause expression", h)
                    classes = rs[0][1]
                    if isinstance(classes, Ref):
                        classes = tuple(s.get(classes).items)
                m = self.exc_matches(s, e, classes)
                branches = []
                if m == "yes":
                    branches.append((s, e, True))
                elif m == "no":
                    branches.append((s, e, False))
                else:
                    s_yes = s.fork()
                    cl = classes if isinstance(classes, tuple) else (classes,)
                    e_yes = Exc(None, e.args, e.tag, within=cl[0] if len(cl) == 1 else e.within, origin=e.origin)
                    e_yes.caught_as = cl
                    e_yes.src = getattr(e, "src", e)
                    s_yes.note(f"abstract exception {e.tag} assumed to match {[c.__name__ for c in cl]}")
                    branches.append((s_yes, e_yes, True))
                    e_no = Exc(None, e.args, e.tag, within=e.within, origin=e.origin)
                    e_no.excluded = tuple(getattr(e, "excluded", ())) + cl
                    e_no.src = getattr(e, "src", e)
                    branches.append((s, e_no, False))
                for s2, e2, hit in branches:
                    if not hit:
                        nxt.append((s2, e2))
                        continue
                    if h.name:
                        s2.frames[fr.fid][h.name] = e2
                    s2.ghost = dict(s2.ghost)
                    s2.ghost["handling"] = list(s2.ghost.get("handling", [])) + [e2]
                    # ghost record of every handler entered: (original exception, classes of the clause, line) - used by C38
                    s2.ghost["caught"] = tuple(s2.ghost.get("caught", ())) + ((getattr(e2, "src", e2), classes, h.lineno),)
                    for s3, c3 in self.exec_block(h.body, s2, fr):
                        s3.ghost = dict(s3.ghost)
                        s3.ghost["handling"] = list(s3.ghost.get("handling", []))[:-1]
                        out.append((s3, c3))
            pending = nxt
        out.extend((s, Ctl("raise", e)) for s, e in pending)
        return out

    # --------------------------------------------------------------- with
    def st_With(self, n, st, fr):
        if len(n.items) != 1:
            # nest
            inner = ast.With(items=n.items[1:], body=n.body)
            ast.copy_location(inner, n)
            outer = ast.With(items=n.items[:1], body=[inner])
            ast.copy_location(outer, n)
            return self.st_With(outer, st, fr)
        item = n.items[0]
        res = []
        for s, cm in self.ev(item.context_expr, st, fr):
            if isinstance(cm, Raised):
                res.append((s, Ctl("raise", cm.exc)))
                continue
            for s2, ev in self.cm_enter(s, cm, n):
                if isinstance(ev, Raised):
                    res.append((s2, Ctl("raise", ev.exc)))
                    continue
                if item.optional_vars is not None:
                    ars = self.assign(item.optional_vars, ev, s2, fr)
                else:
                    ars = [(s2, None)]
                for s3, r in ars:
                    if isinstance(r, Raised):
                        res.extend(self.cm_exit(s3, cm, Ctl("raise", r.exc), n))
                        continue
                    for s4, c in self.exec_block(n.body, s3, fr):
                        res.extend(self.cm_exit(s4, cm, c, n))
        return res

    st_AsyncWith = st_With

    def cm_enter(self, st, cm, node):
        if isinstance(cm, Ref):
            h = st.get(cm)
            if isinstance(h, HLock):
                self.side_obligation(st, "lock.not_reentrant", not h.held, node)
                h.held = True
                h.acquisitions += 1
                st.trace.append(Event("lock", "acquire", [cm], lineno=node.lineno))
                return [(st, cm)]
        if isinstance(cm, CMGen):
            pre, post = cm.split()
            out = []
            for s, c in self.exec_block(pre, st, cm.fr):
                if c.kind == "ok":
                    out.append((s, None))
                elif c.kind == "raise":
                    out.append((s, Raised(c.value)))
                else:
                    raise Unsupported("contextmanager generator returned before its yield", node)
            return out
        sp = self.specs.get("cm_enter")
        if sp is not None:
            r = sp(self, st, cm, node)
            if r is not None:
                return r
        raise Unsupported(f"context manager {cm!r}", node)

    def cm_exit(self, st, cm, ctl, node):
        if isinstance(cm, Ref):
            h = st.get(cm)
            if isinstance(h, HLock):
                h.held = False
                st.trace.append(Event("lock", "release", [cm], lineno=node.lineno))
                return [(st, ctl)]
        if isinstance(cm, CMGen):
            if ctl.kind != "ok":
                # an exception / return / break leaves through the generator's yield: a plain
                # (no try around the yield) generator-contextmanager does not run its tail
                return [(st, ctl)]
            pre, post = cm.split()
            out = []
            for s, c in self.exec_block(post, st, cm.fr):
                out.append((s, c if c.kind == "raise" else OK))
            return out
        sp = self.specs.get("cm_exit")
        if sp is not None:
            r = sp(self, st, cm, ctl, node)
            if r is not None:
                return r
        raise Unsupported(f"context manager exit {cm!r}", node)

    def side_obligation(self, st, name, cond, node):
        """An obligation generated by the semantics itself (lock discipline ...)."""
        self.obligations.append((name, list(st.pc), cond, getattr(node, "lineno", None)))

    # -------------------------------------------------------------- loops
    def st_For(self, n, st, fr):
        ordinal = self.loop_ordinal(fr, n)
        res = []
        for s, itv in self.ev(n.iter, st, fr):
            if isinstance(itv, Raised):
                res.append((s, Ctl("raise", itv.exc)))
                continue
            spec = self.loops.get((fr.qualname, ordinal))
            if spec is not None and not self.is_concrete_iterable(s, itv):
                res.extend(self.cut_for(n, s, fr, itv, spec))
                continue
            sp = self.specs.get("for_abstract")
            if sp is not None and not self.is_concrete_iterable(s, itv):
                r = sp(self, n, s, fr, itv)
                if r is not None:
                    res.extend(r)
                    continue
            if not self.is_concrete_iterable(s, itv):
                r = self.map_loop_as_comprehension(n, s, fr)
                if r is not None:
                    res.extend(r)
                    continue
            items = self.iter_concrete(s, itv, n)
            res.extend(self.unrolled(n, s, fr, items))
        return res

    st_AsyncFor = st_For

    def map_loop_as_comprehension(self, n, st, fr):
        """A loop over an abstract sequence without a loop contract whose body only fills a fresh, still empty local list or
        dict - `for x in xs: [if c:] acc.append(e)` or `acc[k] = v` - is the comprehension `[e for x in xs if c]` /
        `{k: v for x in xs if c}` written out; it is executed as that comprehension (the engine's quantified model of
        comprehensions), so that a maintainer's rewrite of a comprehension as a loop keeps a contract decided.  Returns None
        when the loop does not have exactly that shape (the caller then reports the missing loop contract)."""
        if n.orelse or len(n.body) != 1 or isinstance(n, ast.AsyncFor):
            return None
        stmt, tests = n.body[0], []
        while isinstance(stmt, ast.If) and not stmt.orelse and len(stmt.body) == 1:
            tests.append(stmt.test)
            stmt = stmt.body[0]
        acc, comp = None, None
        gen = ast.comprehension(target=n.target, iter=n.iter, ifs=tests, is_async=0)
        if (isinstance(stmt, ast.Expr) and isinstance(stmt.value, ast.Call) and isinstance(stmt.value.func, ast.Attribute)
                and stmt.value.func.attr == "append" and isinstance(stmt.value.func.value, ast.Name)
                and len(stmt.value.args) == 1 and not stmt.value.keywords and not isinstance(stmt.value.args[0], ast.Starred)):
            acc, comp, kind = stmt.value.func.value.id, ast.ListComp(elt=stmt.value.args[0], generators=[gen]), HList
        elif (isinstance(stmt, ast.Assign) and len(stmt.targets) == 1 and isinstance(stmt.targets[0], ast.Subscript)
              and isinstance(stmt.targets[0].value, ast.Name) and not isinstance(stmt.targets[0].slice, ast.Slice)):
            acc, comp, kind = stmt.targets[0].value.id, ast.DictComp(key=stmt.targets[0].slice, value=stmt.value, generators=[gen]), HDict
        if acc is None:
            return None
        used_names = {x.id for part in [n.iter, n.target] + tests + ([comp.elt] if isinstance(comp, ast.ListComp) else [comp.key, comp.value])
                      for x in ast.walk(part) if isinstance(x, ast.Name)}
        if acc in used_names:
            return None
        try:
            ref = self.lookup(st, fr, acc, n)
        except Exception:
            return None
        if not isinstance(ref, Ref) or not isinstance(st.get(ref), kind):
            return None
        h0 = st.get(ref)
        if h0.items is None or len(h0.items) != 0:
            return None
        ast.copy_location(comp, n)
        ast.fix_missing_locations(comp)
        out = []
        for s2, v in self.ev(comp, st, fr):
            if isinstance(v, Raised):
                out.append((s2, Ctl("raise", v.exc)))
                continue
            if not isinstance(v, Ref) or not isinstance(s2.get(v), kind):
                return None
            hr, ha = s2.get(v), s2.get(ref)
            if kind is HList:
                ha.items, ha.arr, ha.n, ha.k = hr.items, hr.arr, hr.n, hr.k
            else:
                ha.items, ha.dom, ha.val, ha.size, ha.kk, ha.vk = hr.items, hr.dom, hr.val, hr.size, hr.kk, hr.vk
            out.append((s2, OK))
        return out

    def loop_ordinal(self, fr, n):
        if fr.fn_node is None:
            return 0
        k = 0
        for sub in ast.walk(fr.fn_node):
            if isinstance(sub, (ast.For, ast.While, ast.AsyncFor)):
                if sub is n:
                    return k
                k += 1
        return -1

    def is_concrete_iterable(self, st, v):
        try:
            # do not consume iterators here
            if isinstance(v, Ref):
                h = st.get(v)
                if isinstance(h, HList):
                    return h.concrete
                if isinstance(h, HDict):
                    return h.concrete
                if isinstance(h, HSet):
                    return h.items is not None
                if isinstance(h, HIter):
                    return isinstance(h.items, list)
                return False
            if isinstance(v, (Sym, SSeq)):
                return False
            if getattr(v, "is_abstract_iterable", False):
                return False
            return True
        except Unsupported:
            return False

    def unrolled(self, n, st, fr, items):
        active = [(st, OK)]
        done = []
        for item in items:
            nxt = []
            for s, _ in active:
                for s2, r in self.assign(n.target, item, s, fr):
                    if isinstance(r, Raised):
                        done.append((s2, Ctl("raise", r.exc)))
                        continue
                    for s3, c in self.exec_block(n.body, s2, fr):
                        if c.kind in ("ok", "continue"):
                            nxt.append((s3, OK))
                        elif c.kind == "break":
                            done.append((s3, OK))  # skips else
                        else:
                            done.append((s3, c))
            active = nxt
            if len(active) + len(done) > self.max_paths:
                raise Unsupported("path explosion in unrolled loop", n)
        for s, _ in active:
            if n.orelse:
                done.extend(self.exec_block(n.orelse, s, fr))
            else:
                done.append((s, OK))
        return done

    def cut_for(self, n, st, fr, itv, spec):
        """Loop cut at the contract's invariant.  itv must be an SSeq / abstract list."""
        seqv = self.as_sseq(st, itv, n)
        k0 = 0
        ctx = LoopCtx(self, n,st, fr, z3.IntVal(0), seqv)
        for i, inv in enumerate(spec.invariant(ctx)):
            self.obligations.append((f"{spec.name}.inv_entry[{i}]", list(st.pc), inv, n.lineno))
        # arbitrary iteration
        s = st.fork()
        k = z3.Int(fresh_name("k"))
        self.havoc(s, fr, spec, n)
        ctx = LoopCtx(self, n,s, fr, k, seqv)
        s.assume(k >= 0, k < seqv.n)
        for inv in spec.invariant(ctx):
            s.assume(inv)
        from .values import sel
        item = sel(seqv.arr, seqv.k, k)
        out = []
        for s2, r in self.assign(n.target, item, s, fr):
            if isinstance(r, Raised):
                out.append((s2, Ctl("raise", r.exc)))
                continue
            for s3, c in self.exec_block(n.body, s2, fr):
                if c.kind in ("ok", "continue"):
                    ctx2 = LoopCtx(self, n,s3, fr, k + 1, seqv)
                    for i, inv in enumerate(spec.invariant(ctx2)):
                        self.obligations.append((f"{spec.name}.inv_preserved[{i}]", list(s3.pc), inv, n.lineno))
                elif c.kind == "break":
                    out.append((s3, OK))
                else:
                    out.append((s3, c))
        # exit
        s = st.fork()
        self.havoc(s, fr, spec, n)
        ctx = LoopCtx(self, n,s, fr, seqv.n, seqv)
        s.assume(seqv.n >= 0)
        for inv in spec.invariant(ctx):
            s.assume(inv)
        if n.orelse:
            out.extend(self.exec_block(n.orelse, s, fr))
        else:
            out.append((s, OK))
        return out

    def as_sseq(self, st, v, node):
        if isinstance(v, SSeq):
            return v
        if isinstance(v, Ref):
            h = st.get(v)
            if isinstance(h, HList) and not h.concrete:
                return SSeq(h.arr, h.n, h.k)
            if isinstance(h, HIter) and isinstance(h.items, SSeq):
                return h.items
        raise Unsupported("loop contract on a non-sequence iterable", node)

    def havoc(self, st, fr, spec, node):
        assigned = set()
        comp_scoped = set()  # targets of comprehensions / lambdas live in their own scope
        for sub in ast.walk(node):
            if isinstance(sub, (ast.ListComp, ast.SetComp, ast.DictComp, ast.GeneratorExp)):
                for g in sub.generators:
                    comp_scoped.update(id(x) for x in ast.walk(g.target) if isinstance(x, ast.Name))
        for sub in ast.walk(node):
            if isinstance(sub, ast.Name) and isinstance(sub.ctx, ast.Store) and id(sub) not in comp_scoped:
                assigned.add(sub.id)
        tnames = {x.id for x in ast.walk(node.target) if isinstance(x, ast.Name)} if hasattr(node, "target") else set()
        missing = assigned - set(spec.havoc) - tnames
        if missing:
            raise CheckerError(f"loop contract {spec.name} does not havoc assigned names {sorted(missing)}")
        for name, kind in spec.havoc.items():
            if callable(kind):
                v = kind(st)
            else:
                v = fresh(name, kind)
            st.frames[fr.fid][name] = v
        if spec.heap is not None:
            spec.heap(st, st.frames[fr.fid])

    def st_While(self, n, st, fr):
        ordinal = self.loop_ordinal(fr, n)
        spec = self.loops.get((fr.qualname, ordinal))
        if spec is None:
            return self.unrolled_while(n, st, fr)
        ctx = LoopCtx(self, n,st, fr, None, None)
        for i, inv in enumerate(spec.invariant(ctx)):
            self.obligations.append((f"{spec.name}.inv_entry[{i}]", list(st.pc), inv, n.lineno))
        s = st.fork()
        self.havoc(s, fr, spec, n)
        ctx = LoopCtx(self, n,s, fr, None, None)
        for inv in spec.invariant(ctx):
            s.assume(inv)
        out = []
        v0 = spec.variant(ctx) if spec.variant else None
        for s1, tv in self.ev(n.test, s, fr):
            if isinstance(tv, Raised):
                out.append((s1, Ctl("raise", tv.exc)))
                continue
            for s2, b in self.truth(s1, tv, fr, n):
                if not b:
                    if n.orelse:
                        out.extend(self.exec_block(n.orelse, s2, fr))
                    else:
                        out.append((s2, OK))
                    continue
                for s3, c in self.exec_block(n.body, s2, fr):
                    if c.kind in ("ok", "continue"):
                        ctx2 = LoopCtx(self, n,s3, fr, None, None)
                        for i, inv in enumerate(spec.invariant(ctx2)):
                            self.obligations.append((f"{spec.name}.inv_preserved[{i}]", list(s3.pc), inv, n.lineno))
                        if v0 is not None:
                            v1 = spec.variant(ctx2)
                            self.obligations.append((f"{spec.name}.variant_decreases", list(s3.pc), z3.And(v1 < v0, v0 >= 0), n.lineno))
                    elif c.kind == "break":
                        out.append((s3, OK))
                    else:
                        out.append((s3, c))
        return out

    def unrolled_while(self, n, st, fr, limit=64):
        active = [st]
        done = []
        for _ in range(limit):
            if not active:
                break
            nxt = []
            for s in active:
                for s1, tv in self.ev(n.test, s, fr):
                    if isinstance(tv, Raised):
                        done.append((s1, Ctl("raise", tv.exc)))
                        continue
                    for s2, b in self.truth(s1, tv, fr, n):
                        if not b:
                            done.extend(self.exec_block(n.orelse, s2, fr) if n.orelse else [(s2, OK)])
                            continue
                        for s3, c in self.exec_block(n.body, s2, fr):
                            if c.kind in ("ok", "continue"):
                                nxt.append(s3)
                            elif c.kind == "break":
                                done.append((s3, OK))
                            else:
                                done.append((s3, c))
            active = nxt
        if active:
            raise Unsupported("while loop without contract did not terminate under concrete unrolling", n)
        return done


class CMGen:
    """A @contextmanager generator function called with bound arguments: `with` runs the body up to
    its single top-level `yield`, then the rest on normal exit."""

    def __init__(self, clo, fr):
        self.clo = clo
        self.fr = fr

    def split(self):
        body = self.clo.node.body
        idx = [i for i, s in enumerate(body) if isinstance(s, ast.Expr) and isinstance(s.value, ast.Yield)]
        if len(idx) != 1:
            raise Unsupported("contextmanager generator without a single top-level yield", self.clo.node)
        for i, s in enumerate(body):
            if i != idx[0] and any(isinstance(x, (ast.Yield, ast.YieldFrom)) for x in ast.walk(s)):
                raise Unsupported("contextmanager generator with nested yield", s)
        return body[: idx[0]], body[idx[0] + 1:]


class LoopCtx:
    def __init__(self, interp, node, st, fr, k, seqv):
        self.interp = interp
        self.st = st
        self.fr = fr
        self.k = k
        self.seq = seqv
        snaps = interp.__dict__.setdefault("_loop_entry", {})
        key = (fr.fid, id(node))
        if key not in snaps:
            snaps[key] = st.fork()  # first context of a loop is built on its entry state
        self.entry = snaps[key]

    def local(self, name):
        return self.st.frames[self.fr.fid][name]

    def entry_local(self, name):
        """value of a local at loop entry (before any iteration)"""
        return self.entry.frames[self.fr.fid][name]

    def term(self, name, kind=None):
        return to_term(self.local(name), kind)

    def heap(self, ref):
        return self.st.get(ref)
