"""Order-taint abstract interpretation of real function bodies (used by C30).

The "secret" is the hash seed.  Abstract values carry
    kind     set | dict | list | str | iter | tuple | obj | scalar | unknown
    otaint   the iteration ORDER of the container depends on the hash seed (sets: always, not recorded)
    vtaint   the VALUE / content depends on the hash seed
    cls      live classes the value may be an instance of (for attribute / method typing)
    elem     abstract value of the elements (lists / dict values / iterators)

Iterating a set - or an order-tainted list / dict / iterator - makes the loop body an *unordered context*: every
effect whose result depends on the order in which it happens is tainted there (list.append, dict insertion of a
possibly new key, calls of effectful methods such as write / writeline, early exits), effects that commute are not
(set.add, writes to one fixed existing key are handled by a separate lemma).  sorted(), len(), membership,
truthiness, set algebra, min/max/sum/any/all give untainted results; next(iter(s)) / s[0] only under a dominating
`len(s) == 1` test.  Typing comes from the live code: annotations of parameters, of `self.x: T = ...` assignments in
__init__, class-level annotations (node fields), return annotations, and constructor calls.  Values of unknown type
are assumed not to be sets (assumption cross-checked natively by the iteration-site probe of C30.typing.probe).
"""
from __future__ import annotations

import ast
import builtins
import inspect
import sys
import typing

from pyvc import extract

SET_KINDS = {"set", "frozenset", "Set", "FrozenSet", "AbstractSet", "MutableSet"}
DICT_KINDS = {"dict", "Dict", "Mapping", "MutableMapping", "OrderedDict", "defaultdict", "ChainMap"}
LIST_KINDS = {"list", "List", "Sequence", "MutableSequence", "deque", "Collection"}
ITER_KINDS = {"Iterable", "Iterator", "Generator"}
TUPLE_KINDS = {"tuple", "Tuple"}
STR_KINDS = {"str"}
SCALAR_KINDS = {"int", "bool", "float", "None", "NoneType", "bytes"}

PURE_BUILTINS = {"len", "bool", "isinstance", "issubclass", "hasattr", "callable", "id", "int", "float", "abs", "ord", "chr", "type",
                 "any", "all", "sum", "min", "max", "sorted", "set", "frozenset", "range", "divmod", "round", "hash", "object"}
ORDER_PRESERVING = {"list", "tuple", "enumerate", "iter", "reversed", "map", "filter", "zip", "chain", "islice", "dict", "OrderedDict", "deque"}
PURE_METHODS = {"get", "items", "keys", "values", "copy", "startswith", "endswith", "format", "join", "split", "rsplit", "strip", "lstrip", "rstrip",
                "replace", "lower", "upper", "isidentifier", "find", "index", "count", "encode", "decode", "partition", "rpartition", "splitlines",
                "issubset", "issuperset", "isdisjoint", "union", "intersection", "difference", "symmetric_difference", "__contains__", "test", "test_any",
                "isdigit", "isalpha", "title", "capitalize", "zfill", "ljust", "rjust", "center", "expandtabs", "casefold", "group", "groups", "match", "search"}
SET_MUTATORS = {"add", "update", "discard", "remove", "difference_update", "intersection_update", "symmetric_difference_update", "clear"}
LIST_MUTATORS = {"append", "extend", "insert", "appendleft", "extendleft"}
LIST_OTHER_MUT = {"pop", "popleft", "remove", "clear", "sort", "reverse"}
DICT_MUTATORS = {"update", "setdefault", "pop", "popitem", "clear", "__setitem__"}


class AV:
    __slots__ = ("kind", "otaint", "vtaint", "cls", "elem", "why", "items")

    def __init__(self, kind="unknown", otaint=False, vtaint=False, cls=(), elem=None, why=None, items=None):
        self.kind, self.otaint, self.vtaint, self.cls, self.elem, self.why = kind, otaint, vtaint, tuple(cls), elem, why
        self.items = items  # per-position values of a tuple / list display

    def tainted(self):
        return self.vtaint or (self.otaint and self.kind != "set")

    def copy(self):
        a = AV(self.kind, self.otaint, self.vtaint, self.cls, self.elem, self.why, self.items)
        return a

    def __repr__(self):
        return f"AV({self.kind}{' O!' if self.otaint else ''}{' V!' if self.vtaint else ''}{' ' + ','.join(c.__name__ for c in self.cls) if self.cls else ''})"


def join(*avs):
    avs = [a for a in avs if a is not None]
    if not avs:
        return AV("unknown")
    kinds = {a.kind for a in avs}
    kind = avs[0].kind if len(kinds) == 1 else ("set" if "set" in kinds else "unknown")
    cls = tuple(dict.fromkeys(c for a in avs for c in a.cls))
    elem = None
    es = [a.elem for a in avs if a.elem is not None]
    if es:
        elem = join(*es)
    r = AV(kind, any(a.otaint for a in avs), any(a.vtaint for a in avs), cls, elem, next((a.why for a in avs if a.why), None))
    # joining a set with a non-set: keep "may be a set"
    if all(a.items is not None for a in avs) and len({len(a.items) for a in avs}) == 1:
        r.items = [join(*col) for col in zip(*[a.items for a in avs])]
    return r


# ------------------------------------------------------------------------------------------ typing from the live code

class Types:
    """kinds of attributes / returns derived from annotations and constructors in the live modules"""

    def __init__(self):
        self._attr_cache = {}

    def ann_to_av(self, ann, module):
        """annotation AST (or string / typing object) -> AV"""
        if ann is None:
            return AV("unknown")
        if isinstance(ann, str):
            try:
                ann = ast.parse(ann, mode="eval").body
            except SyntaxError:
                return AV("unknown")
        if not isinstance(ann, ast.AST):
            return self.obj_to_av(ann)
        if isinstance(ann, ast.Constant):
            if isinstance(ann.value, str):
                return self.ann_to_av(ann.value, module)
            if ann.value is None:
                return AV("scalar")
            return AV("unknown")
        if isinstance(ann, ast.BinOp) and isinstance(ann.op, ast.BitOr):
            parts = [self.ann_to_av(ann.left, module), self.ann_to_av(ann.right, module)]
            parts = [p for p in parts if not (p.kind == "scalar" and not p.cls)] or parts
            return join(*parts)
        if isinstance(ann, ast.Subscript):
            base = ann.value
            name = base.attr if isinstance(base, ast.Attribute) else getattr(base, "id", "")
            args = ann.slice.elts if isinstance(ann.slice, ast.Tuple) else [ann.slice]
            if name in ("Optional", "Union"):
                parts = [self.ann_to_av(a, module) for a in args]
                parts = [p for p in parts if not (p.kind == "scalar" and not p.cls)] or parts
                return join(*parts)
            if name in ("Literal", "Type", "type", "Callable", "ClassVar", "Final"):
                return AV("scalar") if name == "Literal" else AV("unknown")
            k = self.name_kind(name)
            elem = None
            if k in ("set", "list", "iter") and args:
                elem = self.ann_to_av(args[0], module)
            elif k == "dict" and len(args) == 2:
                elem = self.ann_to_av(args[1], module)
            elif k == "tuple" and args:
                elem = join(*[self.ann_to_av(a, module) for a in args if not (isinstance(a, ast.Constant) and a.value is Ellipsis)])
            if k:
                return AV(k, elem=elem)
            return AV("unknown")
        if isinstance(ann, (ast.Name, ast.Attribute)):
            name = ann.attr if isinstance(ann, ast.Attribute) else ann.id
            k = self.name_kind(name)
            if k:
                return AV(k)
            obj = self.resolve(ann, module)
            if inspect.isclass(obj):
                return AV("obj", cls=(obj,))
            if name in ("Self",):
                return AV("obj")
            return AV("unknown")
        return AV("unknown")

    def obj_to_av(self, tp):
        origin = typing.get_origin(tp)
        args = typing.get_args(tp)
        if origin is typing.Union or str(origin) == "<class 'types.UnionType'>":
            parts = [self.obj_to_av(a) for a in args if a is not type(None)]
            return join(*parts) if parts else AV("scalar")
        base = origin or tp
        if isinstance(base, typing.ForwardRef):
            return self.ann_to_av(base.__forward_arg__, sys.modules.get("jinja2.nodes"))
        if isinstance(base, str):
            return self.ann_to_av(base, sys.modules.get("jinja2.nodes"))
        name = getattr(base, "__name__", "") or str(base)
        k = self.name_kind(name)
        if k:
            elem = None
            if args and k in ("set", "list", "iter"):
                elem = self.obj_to_av(args[0])
            elif len(args) == 2 and k == "dict":
                elem = self.obj_to_av(args[1])
            elif args and k == "tuple":
                elem = join(*[self.obj_to_av(a) for a in args if a is not Ellipsis])
            return AV(k, elem=elem)
        if inspect.isclass(base):
            return AV("obj", cls=(base,))
        return AV("unknown")

    @staticmethod
    def name_kind(name):
        if name in SET_KINDS:
            return "set"
        if name in DICT_KINDS:
            return "dict"
        if name in LIST_KINDS:
            return "list"
        if name in ITER_KINDS:
            return "iter"
        if name in TUPLE_KINDS:
            return "tuple"
        if name in STR_KINDS:
            return "str"
        if name in SCALAR_KINDS:
            return "scalar"
        return None

    @staticmethod
    def resolve(node, module):
        """live object an annotation / callee expression denotes in `module`"""
        try:
            if isinstance(node, ast.Name):
                if module is not None and hasattr(module, node.id):
                    return getattr(module, node.id)
                b = getattr(builtins, node.id, None)
                if b is not None:
                    return b
                # names imported under TYPE_CHECKING only: a class of that name anywhere in the package
                if module is not None and node.id[:1].isupper():
                    pkg = module.__name__.split(".")[0]
                    for mn, m in list(sys.modules.items()):
                        if (mn == pkg or mn.startswith(pkg + ".")) and m is not None:
                            c = m.__dict__.get(node.id)
                            if inspect.isclass(c) and c.__module__ == mn:
                                return c
                return None
            if isinstance(node, ast.Attribute):
                base = Types.resolve(node.value, module)
                if base is None:
                    return None
                return inspect.getattr_static(base, node.attr) if inspect.isclass(base) else getattr(base, node.attr, None)
        except Exception:
            return None
        return None

    def attr_av(self, cls, attr):
        """abstract value of instance attribute `attr` of live class `cls`"""
        key = (cls, attr)
        if key in self._attr_cache:
            a = self._attr_cache[key]
            return a.copy() if a is not None else None
        r = self._attr_av(cls, attr)
        self._attr_cache[key] = r
        return r.copy() if r is not None else None

    def _attr_av(self, cls, attr):
        for k in cls.__mro__:
            if k is object:
                continue
            module = sys.modules.get(k.__module__)
            # class level annotations (node fields etc.)
            ann = k.__dict__.get("__annotations__", {})
            if attr in ann:
                a = ann[attr]
                return self.ann_to_av(a, module) if isinstance(a, (str, ast.AST)) else self.obj_to_av(a)
            raw = k.__dict__.get(attr)
            if isinstance(raw, property) and raw.fget is not None:
                try:
                    if not is_repo(raw.fget):
                        raise LookupError("not a repo function")
                    node, mod = extract.function_ast(raw.fget)
                    return self.ann_to_av(node.returns, mod)
                except Exception:
                    return AV("unknown")
            if raw is not None and not callable(raw) and not isinstance(raw, (staticmethod, classmethod)):
                return self.value_to_av(raw)
            # assignments in the methods of the class: self.attr[: T] = value
            for mname, m in k.__dict__.items():
                f = m.__func__ if isinstance(m, (staticmethod, classmethod)) else m
                if not inspect.isfunction(f) or not is_repo(f):
                    continue
                try:
                    node, mod = extract.function_ast(f)
                except Exception:
                    continue
                found = None
                for n in ast.walk(node):
                    tgt = None
                    if isinstance(n, ast.AnnAssign):
                        tgt, annn, val = n.target, n.annotation, n.value
                    elif isinstance(n, ast.Assign) and len(n.targets) == 1:
                        tgt, annn, val = n.targets[0], None, n.value
                    if isinstance(tgt, ast.Attribute) and tgt.attr == attr and isinstance(tgt.value, ast.Name) and tgt.value.id == "self":
                        if annn is not None:
                            return self.ann_to_av(annn, mod)
                        av = self.ctor_av(val, mod, node)
                        if av is not None and av.kind != "unknown":
                            found = av if found is None else join(found, av)
                if found is not None and mname == "__init__":
                    return found
                if found is not None:
                    return found
        return None

    def ctor_av(self, val, module, fn_node=None):
        """abstract value of a constructor-like right hand side"""
        if isinstance(val, ast.Call):
            f = val.func
            name = f.attr if isinstance(f, ast.Attribute) else getattr(f, "id", "")
            k = self.name_kind(name)
            if k and isinstance(f, ast.Name):
                return AV(k)
            obj = self.resolve(f, module)
            if inspect.isclass(obj):
                kk = self.name_kind(obj.__name__)
                return AV(kk) if kk else AV("obj", cls=(obj,))
            return None
        if isinstance(val, (ast.Set, ast.SetComp)):
            return AV("set")
        if isinstance(val, (ast.Dict, ast.DictComp)):
            return AV("dict")
        if isinstance(val, (ast.List, ast.ListComp)):
            return AV("list")
        if isinstance(val, ast.Tuple):
            return AV("tuple")
        if isinstance(val, (ast.JoinedStr,)) or (isinstance(val, ast.Constant) and isinstance(val.value, str)):
            return AV("str")
        if isinstance(val, ast.Constant):
            return AV("scalar")
        if isinstance(val, ast.Name) and fn_node is not None:
            # parameter with an annotation
            for a in fn_node.args.args + fn_node.args.kwonlyargs:
                if a.arg == val.id and a.annotation is not None:
                    return self.ann_to_av(a.annotation, module)
        return None

    def value_to_av(self, v):
        if isinstance(v, (set, frozenset)):
            return AV("set")
        if isinstance(v, dict):
            return AV("dict")
        if isinstance(v, list):
            return AV("list")
        if isinstance(v, tuple):
            return AV("tuple")
        if isinstance(v, str):
            return AV("str")
        if isinstance(v, (int, float, bool, type(None))):
            return AV("scalar")
        if inspect.isclass(v) or inspect.isfunction(v) or inspect.ismodule(v):
            return AV("unknown")
        return AV("obj", cls=(type(v),))


TYPES = Types()


# ------------------------------------------------------------------------------------------ purity of repo callees

_pure_cache = {}


def is_repo(fn):
    return getattr(fn, "__module__", "") is not None and str(getattr(fn, "__module__", "")).split(".")[0] == "jinja2"


def is_pure(fn, _stack=()):
    """no observable effect: no stores to attributes / subscripts, no mutating calls (coinductive over recursion)"""
    fn = inspect.unwrap(fn) if callable(fn) else fn
    if not inspect.isfunction(fn):
        return False
    if fn in _pure_cache:
        return _pure_cache[fn]
    if fn in _stack:
        return True
    if not is_repo(fn):
        return False
    try:
        node, module = extract.function_ast(fn)
    except Exception:
        return False
    ok = True
    for n in ast.walk(node):
        if isinstance(n, (ast.Assign, ast.AugAssign, ast.AnnAssign)):
            tgts = n.targets if isinstance(n, ast.Assign) else [n.target]
            for t in tgts:
                for s in ast.walk(t):
                    if isinstance(s, (ast.Attribute, ast.Subscript)) and isinstance(s.ctx, ast.Store):
                        ok = False
        elif isinstance(n, (ast.Delete, ast.Global, ast.Nonlocal, ast.Yield, ast.YieldFrom)):
            ok = False
        elif isinstance(n, ast.Call):
            f = n.func
            if isinstance(f, ast.Name):
                if f.id in PURE_BUILTINS or f.id in ("repr", "str", "getattr", "tuple", "list", "dict", "AssertionError", "RuntimeError"):
                    continue
                obj = Types.resolve(f, module)
                if inspect.isclass(obj) and issubclass(obj, BaseException):
                    continue
                if inspect.isfunction(obj) and is_pure(obj, _stack + (fn,)):
                    continue
                ok = False
            elif isinstance(f, ast.Attribute):
                if f.attr in PURE_METHODS:
                    continue
                # self.method / obj.method of the same class family: look the method up on the owner class
                owner = _owner_class(fn)
                m = None
                if owner is not None:
                    m = inspect.getattr_static(owner, f.attr, None)
                    m = m.__func__ if isinstance(m, (staticmethod, classmethod)) else m
                if inspect.isfunction(m) and is_pure(m, _stack + (fn,)):
                    continue
                ok = False
        if not ok:
            break
    _pure_cache[fn] = ok
    return ok


def _owner_class(fn):
    qn = getattr(fn, "__qualname__", "")
    if "." not in qn or "<locals>" in qn:
        return None
    mod = sys.modules.get(fn.__module__)
    obj = mod
    for p in qn.split(".")[:-1]:
        obj = getattr(obj, p, None)
    return obj if inspect.isclass(obj) else None


# ------------------------------------------------------------------------------------------ the analysis

class Finding:
    def __init__(self, lineno, kind, msg, chain=()):
        self.lineno, self.kind, self.msg, self.chain = lineno, kind, msg, tuple(chain)

    def key(self):
        return f"{self.kind}@{self.msg.split(':')[0]}"

    def __repr__(self):
        return f"line {self.lineno}: [{self.kind}] {self.msg}"


class Site:
    """an iteration site with its static classification (for the native typing probe)"""

    def __init__(self, lineno, col, text, kind, unordered):
        self.lineno, self.col, self.text, self.kind, self.unordered = lineno, col, text, kind, unordered


class Analyzer:
    def __init__(self, qualname, sinks=("return", "effects", "params"), effectful_self=True, existing_key_lemma=(), lookup_only=()):
        self.qualname = qualname
        self.fn = extract.resolve(qualname)
        self.node, self.module = extract.function_ast(self.fn)
        self.owner = _owner_class(self.fn)
        self.findings = []
        self.sites = []
        self.env = {}
        self.heap = {}
        self.facts = set()
        self.ctx = None  # None or a description of the unordered context
        self.ret = []
        self.sinks = sinks
        self.existing_key_lemma = set(existing_key_lemma)  # source text of dict stores proved (elsewhere) to hit existing keys
        self.used_lemmas = set()
        self.lookup_only = set(lookup_only)  # containers only ever used for lookups (separate lemma): their order is not observable
        self.n_unordered_loops = 0
        self.nested = {}

    # ---- reporting
    def report(self, node, kind, msg):
        f = Finding(getattr(node, "lineno", 0), kind, msg)
        if not any(g.lineno == f.lineno and g.kind == f.kind and g.msg == f.msg for g in self.findings):
            self.findings.append(f)

    # ---- entry
    def run(self):
        a = self.node.args
        params = a.posonlyargs + a.args + a.kwonlyargs
        for i, p in enumerate(params):
            if i == 0 and p.arg in ("self", "cls") and self.owner is not None:
                self.env[p.arg] = AV("obj", cls=(self.owner,))
            else:
                self.env[p.arg] = TYPES.ann_to_av(p.annotation, self.module)
        if a.vararg:
            self.env[a.vararg.arg] = AV("tuple")
        if a.kwarg:
            self.env[a.kwarg.arg] = AV("dict")
        # two passes: taints only grow; the second pass sees loop-carried taints
        for _ in range(2):
            self.ret = []
            self.block(self.node.body)
        # exit obligations
        if "return" in self.sinks:
            for node, av in self.ret:
                if av is None:
                    continue
                if av.vtaint or (av.otaint and av.kind != "set"):
                    self.report(node, "return", f"the returned value depends on set iteration order ({av.why or 'tainted'})")
        if "params" in self.sinks:
            for path, av in self.heap.items():
                if path in self.lookup_only:
                    if av.otaint:
                        self.used_lemmas.add(path)
                    if not av.vtaint:
                        continue
                if av.kind == "set":
                    if av.vtaint:
                        self.report(self.node, "state", f"{path}: membership depends on set iteration order ({av.why})")
                elif av.otaint or av.vtaint:
                    self.report(self.node, "state", f"{path} is left in an order that depends on set iteration ({av.why})")
        return self.findings

    # ---- statements
    def block(self, stmts):
        for s in stmts:
            self.stmt(s)

    def stmt(self, s):
        m = getattr(self, "s_" + type(s).__name__, None)
        if m is None:
            for c in ast.iter_child_nodes(s):
                if isinstance(c, ast.expr):
                    self.ev(c)
                elif isinstance(c, ast.stmt):
                    self.stmt(c)
            return
        m(s)

    def s_Expr(self, s):
        self.ev(s.value)

    def s_Pass(self, s):
        pass

    def s_Import(self, s):
        pass

    s_ImportFrom = s_Import
    s_Nonlocal = s_Import
    s_Global = s_Import

    def s_FunctionDef(self, s):
        self.nested[s.name] = s
        self.env[s.name] = AV("unknown")
        # the nested body runs when called; analyse it in the current context for its effects
        saved = self.ret
        self.block(s.body)
        self.ret = saved

    s_AsyncFunctionDef = s_FunctionDef

    def s_Return(self, s):
        av = self.ev(s.value) if s.value is not None else None
        if self.ctx is not None:
            const = s.value is None or isinstance(s.value, ast.Constant)
            self.report(s, "early-exit", f"return inside an unordered iteration ({self.ctx})" + ("" if const else ": which element is returned depends on the order"))
            if av is not None:
                av = av.copy()
                av.vtaint = True
                av.why = av.why or f"returned from an unordered iteration ({self.ctx})"
        self.ret.append((s, av))

    def s_Raise(self, s):
        if s.exc is not None:
            av = self.ev(s.exc)
            if self.ctx is not None and not self._const_call(s.exc):
                self.report(s, "early-exit", f"raise with element-dependent arguments inside an unordered iteration ({self.ctx})")
            elif av is not None and av.tainted():
                self.report(s, "raise", f"the exception depends on set iteration order ({av.why})")

    @staticmethod
    def _const_call(e):
        if isinstance(e, ast.Call):
            return all(isinstance(a, ast.Constant) for a in e.args) and not e.keywords
        return isinstance(e, (ast.Name, ast.Constant))

    def s_Break(self, s):
        if self.ctx is not None:
            self.report(s, "early-exit", f"break inside an unordered iteration ({self.ctx})")

    def s_Continue(self, s):
        pass

    def s_Assert(self, s):
        self.ev(s.test)

    def s_Delete(self, s):
        for t in s.targets:
            if isinstance(t, ast.Subscript):
                base = self.ev(t.value)
                self.ev(t.slice)
                if self.ctx is not None and base is not None and base.kind in ("list", "dict"):
                    pass  # deletion commutes for dicts; for lists by index it does not, but no order is introduced
            elif isinstance(t, ast.Name):
                self.env.pop(t.id, None)

    def s_Assign(self, s):
        av = self.ev(s.value)
        for t in s.targets:
            self.assign(t, av, s)

    def s_AnnAssign(self, s):
        if s.value is None:
            return
        av = self.ev(s.value)
        ann = TYPES.ann_to_av(s.annotation, self.module)
        if av is None or av.kind == "unknown":
            if av is not None:
                ann.vtaint, ann.otaint, ann.why = av.vtaint, av.otaint, av.why
            av = ann
        elif ann.elem is not None and av.elem is None:
            av.elem = ann.elem
        self.assign(s.target, av, s)

    def s_AugAssign(self, s):
        cur = self.ev(s.target if not isinstance(s.target, ast.Name) else ast.Name(id=s.target.id, ctx=ast.Load()))
        av = self.ev(s.value)
        r = join(cur, av)
        if isinstance(s.op, (ast.BitOr, ast.BitAnd, ast.Sub, ast.BitXor)) and cur is not None and cur.kind == "set":
            r = AV("set", vtaint=cur.vtaint or (av is not None and av.vtaint), why=cur.why)
        elif cur is not None and cur.kind in ("list", "str") and self.ctx is not None:
            r = r.copy()
            if cur.kind == "list":
                r.otaint = True
            else:
                r.vtaint = True
            r.why = r.why or f"extended inside an unordered iteration ({self.ctx})"
        self.assign(s.target, r, s, aug=True)

    def assign(self, t, av, stmt, aug=False):
        if av is None:
            av = AV("unknown")
        if isinstance(t, ast.Name):
            self.env[t.id] = av
            self.facts = {f for f in self.facts if f[1] != t.id}
        elif isinstance(t, (ast.Tuple, ast.List)) and av.items is not None and len(av.items) == len(t.elts) and not any(isinstance(e, ast.Starred) for e in t.elts):
            for e, sub in zip(t.elts, av.items):
                if av.vtaint and not sub.vtaint:
                    sub = self._share(sub, av)
                self.assign(e, sub, stmt)
        elif isinstance(t, (ast.Tuple, ast.List)):
            for e in t.elts:
                sub = av.elem if av.elem is not None else AV("unknown", vtaint=av.vtaint, why=av.why)
                if isinstance(e, ast.Starred):
                    self.assign(e.value, AV("list", otaint=av.otaint, vtaint=av.vtaint, elem=sub, why=av.why), stmt)
                else:
                    s2 = sub.copy() if sub is not av.elem or True else sub
                    s2.vtaint = s2.vtaint or av.vtaint
                    self.assign(e, s2 if not isinstance(e, ast.Name) else self._share(sub, av), stmt)
        elif isinstance(t, ast.Attribute):
            base = self.ev(t.value)
            path = self.path_of(t)
            if self.ctx is not None and not (isinstance(stmt, ast.Assign) and isinstance(stmt.value, ast.Constant)):
                av = av.copy()
                av.vtaint = True
                av.why = av.why or f"assigned inside an unordered iteration ({self.ctx}): the last writer wins"
            if path is not None and self.rooted_in_param(t):
                self.heap[path] = av
            elif base is not None and av.tainted():
                # attribute of a local object: the object becomes value-tainted
                base.vtaint = True
                base.why = base.why or av.why
        elif isinstance(t, ast.Subscript):
            base = self.ev(t.value)
            idx = self.ev(t.slice)
            self.store_item(t, base, idx, av, stmt)
        elif isinstance(t, ast.Starred):
            self.assign(t.value, av, stmt)

    def _share(self, sub, av):
        s2 = sub.copy()
        s2.vtaint = s2.vtaint or av.vtaint
        if av.vtaint and not s2.why:
            s2.why = av.why
        return s2

    def store_item(self, t, base, idx, av, stmt):
        if base is None:
            return
        text = ast.unparse(t)
        if base.kind in ("dict", "unknown", "obj"):
            if self.ctx is not None:
                if ast.unparse(stmt.targets[0] if isinstance(stmt, ast.Assign) else t) in self.existing_key_lemma or text in self.existing_key_lemma:
                    self.used_lemmas.add(text)
                    # overwrite of an existing key: order of the dict unchanged; the stored value must be a function of the key alone
                else:
                    base.otaint = True
                    base.why = base.why or f"`{text} = ...` (line {t.lineno}) inserts keys inside an unordered iteration ({self.ctx})"
            if idx is not None and idx.tainted():
                base.vtaint = True
                base.why = base.why or idx.why
            if av is not None and av.tainted():
                base.vtaint = True
                base.why = base.why or av.why
            if base.elem is None and av is not None:
                base.elem = av.copy()
        elif base.kind == "list":
            if (av is not None and av.tainted()) or (idx is not None and idx.tainted()) or self.ctx is not None:
                base.vtaint = True
                base.why = base.why or (av.why if av is not None and av.why else f"item store inside an unordered iteration ({self.ctx})")

    def s_If(self, s):
        t = self.ev(s.test)
        fact = self.len1_fact(s.test)
        saved_ctx = self.ctx
        if t is not None and t.vtaint:
            self.ctx = f"branch on a value that depends on set iteration order, line {s.lineno}: {t.why}"
        env0 = dict(self.env)
        facts0 = set(self.facts)
        if fact:
            self.facts.add(fact)
        self.block(s.body)
        env1, self.env = self.env, dict(env0)
        self.facts = set(facts0)
        self.block(s.orelse)
        for k in set(env1) | set(self.env):
            a, b = env1.get(k), self.env.get(k)
            if a is None or b is None:
                self.env[k] = a or b
            elif a is not b:
                self.env[k] = join(a, b)
        self.facts = facts0 & self.facts
        self.ctx = saved_ctx

    def len1_fact(self, test):
        """`len(X) == 1` (possibly inside an `and`) -> ('len1', 'X')"""
        if isinstance(test, ast.BoolOp) and isinstance(test.op, ast.And):
            for v in test.values:
                f = self.len1_fact(v)
                if f:
                    return f
        if isinstance(test, ast.Compare) and len(test.ops) == 1 and isinstance(test.ops[0], ast.Eq):
            l, r = test.left, test.comparators[0]
            for a, b in ((l, r), (r, l)):
                if isinstance(a, ast.Call) and isinstance(a.func, ast.Name) and a.func.id == "len" and len(a.args) == 1 and isinstance(a.args[0], ast.Name) \
                        and isinstance(b, ast.Constant) and b.value == 1:
                    return ("len1", a.args[0].id)
        return None

    def s_While(self, s):
        t = self.ev(s.test)
        saved = self.ctx
        if t is not None and t.vtaint:
            self.ctx = f"loop condition depends on set iteration order, line {s.lineno}"
        for _ in range(2):
            self.block(s.body)
            self.ev(s.test)
        self.block(s.orelse)
        self.ctx = saved

    def iteration(self, iter_expr, node):
        """-> (element AV, unordered description or None) for iterating the value of iter_expr"""
        av = self.ev(iter_expr)
        text = ast.unparse(iter_expr)
        unordered = None
        if av is None:
            av = AV("unknown")
        single = isinstance(iter_expr, ast.Name) and ("len1", iter_expr.id) in self.facts
        if av.kind == "set" and not single:
            unordered = f"`for ... in {text}` over a set, line {node.lineno}"
        elif av.otaint and av.kind != "set" and not single:
            unordered = f"`for ... in {text}` over {av.kind} whose order is unordered ({av.why}), line {node.lineno}"
        self.sites.append(Site(node.lineno, getattr(iter_expr, "col_offset", 0), text, av.kind, unordered is not None or av.kind == "set"))
        if av.items:
            elem = join(*av.items).copy() if len(av.items) > 1 else av.items[0].copy()
        else:
            elem = av.elem.copy() if av.elem is not None else AV("unknown")
        elem.vtaint = elem.vtaint or av.vtaint
        if av.vtaint and not elem.why:
            elem.why = av.why
        if av.kind == "str":
            elem = AV("str", vtaint=av.vtaint, why=av.why)
        return elem, unordered

    def s_For(self, s):
        elem, unordered = self.iteration(s.iter, s)
        saved = self.ctx
        if unordered:
            self.n_unordered_loops += 1
            self.ctx = unordered if saved is None else saved
        assigned = self.assigned_names(s)
        for _ in range(2):
            self.assign(s.target, elem, s)
            self.block(s.body)
        self.ctx = saved
        if unordered:
            for nme in assigned:
                if nme in self.env:
                    a = self.env[nme].copy()
                    a.vtaint = True
                    a.why = a.why or f"holds the value of the last iteration of {unordered}"
                    self.env[nme] = a
        self.block(s.orelse)

    s_AsyncFor = s_For

    def assigned_names(self, loop):
        out = set()
        for n in ast.walk(loop):
            if isinstance(n, ast.Name) and isinstance(n.ctx, ast.Store):
                out.add(n.id)
        return out

    def s_With(self, s):
        for it in s.items:
            av = self.ev(it.context_expr)
            if it.optional_vars is not None:
                self.assign(it.optional_vars, av, s)
        self.block(s.body)

    s_AsyncWith = s_With

    def s_Try(self, s):
        self.block(s.body)
        for h in s.handlers:
            if h.name:
                self.env[h.name] = AV("obj")
            self.block(h.body)
        self.block(s.orelse)
        self.block(s.finalbody)

    s_TryStar = s_Try

    # ---- expressions
    def ev(self, e):
        if e is None:
            return None
        m = getattr(self, "e_" + type(e).__name__, None)
        if m is None:
            avs = [self.ev(c) for c in ast.iter_child_nodes(e) if isinstance(c, ast.expr)]
            r = AV("unknown")
            for a in avs:
                if a is not None and a.tainted():
                    r.vtaint, r.why = True, a.why
            return r
        return m(e)

    def e_Constant(self, e):
        return AV("str" if isinstance(e.value, str) else "scalar")

    def e_Name(self, e):
        if e.id in self.env:
            return self.env[e.id]
        obj = Types.resolve(e, self.module)
        if obj is None:
            return AV("unknown")
        return TYPES.value_to_av(obj)

    def path_of(self, e):
        parts = []
        n = e
        while isinstance(n, ast.Attribute):
            parts.append(n.attr)
            n = n.value
        if isinstance(n, ast.Name):
            parts.append(n.id)
            return ".".join(reversed(parts))
        return None

    def rooted_in_param(self, e):
        n = e
        while isinstance(n, (ast.Attribute, ast.Subscript)):
            n = n.value
        if not isinstance(n, ast.Name):
            return False
        params = {a.arg for a in self.node.args.posonlyargs + self.node.args.args + self.node.args.kwonlyargs}
        return n.id in params

    def e_Attribute(self, e):
        base = self.ev(e.value)
        path = self.path_of(e)
        if path is not None and path in self.heap:
            return self.heap[path]
        av = None
        if base is not None:
            for c in base.cls:
                av = TYPES.attr_av(c, e.attr)
                if av is not None:
                    break
        if av is None:
            # module attribute / class attribute
            obj = Types.resolve(e, self.module)
            av = TYPES.value_to_av(obj) if obj is not None and not (base is not None and base.cls) else AV("unknown")
        if base is not None and base.vtaint:
            av.vtaint = True
            av.why = av.why or base.why
        if path is not None and self.rooted_in_param(e) and av.kind in ("set", "dict", "list", "obj", "unknown"):
            self.heap[path] = av
        elif path is not None and av.kind in ("set", "dict", "list"):
            # container attribute of a local object: keep one abstract object per path
            self.heap.setdefault("local:" + path, av)
            return self.heap["local:" + path]
        return av

    def e_Subscript(self, e):
        base = self.ev(e.value)
        idx = self.ev(e.slice)
        if base is None:
            return AV("unknown")
        if isinstance(e.slice, ast.Slice):
            r = base.copy()
            return r
        single = isinstance(e.value, ast.Name) and ("len1", e.value.id) in self.facts
        r = base.elem.copy() if base.elem is not None else AV("unknown")
        if base.kind == "str":
            r = AV("str")
        if base.vtaint or (idx is not None and idx.tainted()):
            r.vtaint = True
            r.why = r.why or base.why or (idx.why if idx is not None else None)
        if base.otaint and base.kind in ("list", "iter", "tuple", "unknown") and not single:
            r.vtaint = True
            r.why = r.why or f"`{ast.unparse(e)}` picks an element by position from a sequence in set order ({base.why})"
        return r

    def e_Slice(self, e):
        for c in (e.lower, e.upper, e.step):
            self.ev(c)
        return AV("scalar")

    def e_Tuple(self, e):
        avs = [self.ev(x) for x in e.elts]
        r = AV("tuple", elem=join(*avs) if avs else None)
        if not any(isinstance(x, ast.Starred) for x in e.elts):
            r.items = [a if a is not None else AV("unknown") for a in avs]
        for a in avs:
            if a is not None and a.tainted():
                r.vtaint, r.why = True, a.why
        return r

    def e_List(self, e):
        r = self.e_Tuple(e)
        r.kind = "list"
        return r

    def e_Set(self, e):
        avs = [self.ev(x) for x in e.elts]
        r = AV("set", elem=join(*avs) if avs else None)
        for a in avs:
            if a is not None and a.tainted():
                r.vtaint, r.why = True, a.why
        return r

    def e_Dict(self, e):
        r = AV("dict")
        vs = []
        for k, v in zip(e.keys, e.values):
            ka = self.ev(k) if k is not None else None
            va = self.ev(v)
            vs.append(va)
            for a in (ka, va):
                if a is not None and a.tainted():
                    r.vtaint, r.why = True, a.why
            if k is None and va is not None and va.otaint:
                r.otaint, r.why = True, va.why
        r.elem = join(*vs) if vs else None
        return r

    def e_JoinedStr(self, e):
        r = AV("str")
        for v in e.values:
            if isinstance(v, ast.FormattedValue):
                a = self.ev(v.value)
                if a is None:
                    continue
                if a.tainted():
                    r.vtaint, r.why = True, a.why
                elif a.kind == "set":
                    r.vtaint, r.why = True, f"text of a set `{ast.unparse(v.value)}` (line {e.lineno}) shows its iteration order"
        return r

    def e_FormattedValue(self, e):
        return self.ev(e.value)

    def e_BinOp(self, e):
        l, r = self.ev(e.left), self.ev(e.right)
        if l is not None and l.kind == "set" and isinstance(e.op, (ast.BitOr, ast.BitAnd, ast.Sub, ast.BitXor)):
            return AV("set", vtaint=l.vtaint or (r is not None and r.vtaint), why=l.why or (r.why if r else None), elem=l.elem)
        out = AV(l.kind if l is not None and r is not None and l.kind == r.kind and l.kind in ("list", "str", "tuple", "scalar") else "unknown")
        if isinstance(e.op, ast.Mod) and l is not None and l.kind == "str":
            out = AV("str")
            if r is not None and r.kind == "set":
                out.vtaint, out.why = True, "a set formatted into text"
        for a in (l, r):
            if a is None:
                continue
            if a.vtaint:
                out.vtaint, out.why = True, out.why or a.why
            if a.otaint and a.kind != "set":
                out.otaint, out.why = True, out.why or a.why
        if l is not None and l.elem is not None:
            out.elem = join(l.elem, r.elem) if r is not None and r.elem is not None else l.elem
        return out

    def e_UnaryOp(self, e):
        a = self.ev(e.operand)
        r = AV("scalar")
        if a is not None and a.vtaint:
            r.vtaint, r.why = True, a.why
        return r

    def e_BoolOp(self, e):
        avs = [self.ev(v) for v in e.values]
        r = join(*[a.copy() for a in avs if a is not None]) if avs else AV("scalar")
        # truthiness of an order-tainted container is order independent, but the container itself may be the result
        return r

    def e_Compare(self, e):
        avs = [self.ev(e.left)] + [self.ev(c) for c in e.comparators]
        r = AV("scalar")
        for a in avs:
            if a is not None and a.vtaint:
                r.vtaint, r.why = True, a.why
        # comparing order-tainted sequences for (in)equality by position
        if any(isinstance(o, (ast.Eq, ast.NotEq, ast.Lt, ast.Gt, ast.LtE, ast.GtE)) for o in e.ops):
            for a in avs:
                if a is not None and a.otaint and a.kind in ("list", "tuple", "iter"):
                    r.vtaint, r.why = True, a.why
        return r

    def e_IfExp(self, e):
        t = self.ev(e.test)
        a, b = self.ev(e.body), self.ev(e.orelse)
        r = join(a, b).copy()
        if t is not None and t.vtaint:
            r.vtaint, r.why = True, t.why
        return r

    def e_NamedExpr(self, e):
        av = self.ev(e.value)
        self.assign(e.target, av, e)
        return av

    def e_Lambda(self, e):
        return AV("unknown")

    def e_Starred(self, e):
        return self.ev(e.value)

    def e_Await(self, e):
        return self.ev(e.value)

    def e_Yield(self, e):
        av = self.ev(e.value) if e.value is not None else None
        if self.ctx is not None:
            self.report(e, "yield", f"yield inside an unordered iteration ({self.ctx}): the order of the produced items depends on the hash seed")
        elif av is not None and av.tainted():
            self.report(e, "yield", f"the yielded value depends on set iteration order ({av.why})")
        return AV("unknown")

    e_YieldFrom = e_Yield

    def comprehension(self, e, kind):
        saved_env = dict(self.env)
        saved_ctx = self.ctx
        unordered_any = None
        for g in e.generators:
            elem, unordered = self.iteration(g.iter, e)
            if unordered:
                unordered_any = unordered_any or unordered
                self.n_unordered_loops += 1
                self.ctx = self.ctx or unordered
            self.assign(g.target, elem, e)
            for c in g.ifs:
                self.ev(c)
        if kind == "dict":
            k, v = self.ev(e.key), self.ev(e.value)
            elem = v
            vt = any(a is not None and a.tainted() for a in (k, v))
            why = next((a.why for a in (k, v) if a is not None and a.tainted()), None)
        else:
            elem = self.ev(e.elt)
            vt = elem is not None and elem.tainted()
            why = elem.why if vt else None
        self.ctx = saved_ctx
        for k_ in list(self.env):
            if k_ not in saved_env:
                del self.env[k_]
        for k_, v_ in saved_env.items():
            self.env[k_] = v_
        r = AV({"list": "list", "set": "set", "dict": "dict", "gen": "iter"}[kind], elem=elem.copy() if elem is not None else None)
        if elem is not None and r.elem is not None:
            r.elem.vtaint = False if not vt else True
        if vt:
            r.vtaint, r.why = True, why
        if unordered_any and kind != "set":
            r.otaint = True
            r.why = r.why or f"built by {unordered_any}"
        return r

    def e_ListComp(self, e):
        return self.comprehension(e, "list")

    def e_SetComp(self, e):
        return self.comprehension(e, "set")

    def e_DictComp(self, e):
        return self.comprehension(e, "dict")

    def e_GeneratorExp(self, e):
        return self.comprehension(e, "gen")

    # ---- calls
    def e_Call(self, e):
        f = e.func
        args = [self.ev(a.value if isinstance(a, ast.Starred) else a) for a in e.args]
        kwargs = {k.arg: self.ev(k.value) for k in e.keywords}
        allargs = [a for a in args + list(kwargs.values()) if a is not None]
        any_taint = next((a for a in allargs if a.tainted()), None)
        set_arg = next((a for a in allargs if a.kind == "set"), None)

        def result(kind="unknown", elem=None, cls=(), taint_from_args=True, order_from=None):
            r = AV(kind, elem=elem, cls=cls)
            if taint_from_args and any_taint is not None:
                r.vtaint, r.why = True, any_taint.why
            if order_from is not None:
                if order_from.kind == "set":
                    r.otaint, r.why = True, r.why or f"`{ast.unparse(e)[:60]}` (line {e.lineno}) enumerates a set"
                elif order_from.otaint:
                    r.otaint, r.why = True, r.why or order_from.why
                if order_from.vtaint:
                    r.vtaint, r.why = True, r.why or order_from.why
            return r

        if isinstance(f, ast.Name):
            name = f.id
            target = self.env.get(name)
            if name in self.nested:
                # local helper: effects were analysed at the definition; calling it in an unordered context repeats them
                if self.ctx is not None:
                    self.report(e, "effect", f"call of local function {name}() inside an unordered iteration ({self.ctx})")
                return result()
            if target is not None and target.kind != "unknown":
                return result()
            obj = Types.resolve(f, self.module)
            if obj is not None and hasattr(obj, "__wrapped__") and not inspect.isclass(obj):
                obj = inspect.unwrap(obj)  # lru_cache / functools.wraps wrappers: the wrapped repo function
            first = args[0] if args else None
            if name == "sorted":
                r = AV("list", elem=first.elem if first is not None else None)
                if first is not None and first.vtaint:
                    r.vtaint, r.why = True, first.why
                if "key" in kwargs and kwargs["key"] is not None and kwargs["key"].tainted():
                    r.vtaint, r.why = True, kwargs["key"].why
                return r
            if name in ("set", "frozenset"):
                r = AV("set", elem=first.elem if first is not None else None)
                if first is not None and first.vtaint:
                    r.vtaint, r.why = True, first.why
                return r
            if name in ("len", "bool", "any", "all", "sum", "min", "max", "isinstance", "issubclass", "hasattr", "callable", "id", "type", "hash", "abs", "int", "float", "ord", "chr", "round", "divmod", "range"):
                r = AV("scalar")
                for a in allargs:
                    if a.vtaint:
                        r.vtaint, r.why = True, a.why
                return r
            if name in ("repr", "str", "format", "ascii"):
                r = AV("str")
                if first is not None:
                    if first.tainted():
                        r.vtaint, r.why = True, first.why
                    elif first.kind == "set":
                        r.vtaint, r.why = True, f"text of a set `{ast.unparse(e.args[0])}` (line {e.lineno}) shows its iteration order"
                return r
            if name == "next":
                if first is None:
                    return AV("unknown")
                r = first.elem.copy() if first.elem is not None else AV("unknown")
                inner = e.args[0]
                src = None
                if isinstance(inner, ast.Call) and isinstance(inner.func, ast.Name) and inner.func.id == "iter" and inner.args:
                    src = inner.args[0]
                single = isinstance(src, ast.Name) and ("len1", src.id) in self.facts
                if (first.otaint or first.vtaint) and not single:
                    r.vtaint = True
                    r.why = f"`{ast.unparse(e)}` (line {e.lineno}) takes the first element in set iteration order" if first.otaint else first.why
                return r
            if name in ORDER_PRESERVING:
                src = next((a for a in args if a is not None and (a.kind == "set" or a.otaint)), first)
                kind = {"list": "list", "tuple": "tuple", "dict": "dict", "OrderedDict": "dict", "deque": "list"}.get(name, "iter")
                elem = first.elem if first is not None else None
                if name == "map" and len(args) > 1:
                    src = next((a for a in args[1:] if a is not None and (a.kind == "set" or a.otaint)), args[1])
                    elem = None
                if name in ("enumerate", "zip"):
                    elem = AV("tuple", elem=elem)
                single = e.args and isinstance(e.args[0], ast.Name) and ("len1", e.args[0].id) in self.facts
                r = result(kind, elem=elem, taint_from_args=False, order_from=None if single else src)
                for a in allargs:
                    if a.vtaint:
                        r.vtaint, r.why = True, r.why or a.why
                return r
            if name in ("getattr",):
                r = result("unknown")
                return r
            if name in ("print",):
                if self.ctx is not None or any_taint is not None:
                    self.report(e, "effect", "print of order dependent data")
                return AV("scalar")
            if inspect.isclass(obj):
                if issubclass(obj, BaseException):
                    return result("obj", cls=(obj,))
                # constructing an object: pure allocation; content tainted by tainted arguments
                r = result("obj", cls=(obj,))
                if set_arg is not None and not r.vtaint and not self._ctor_takes_set(obj):
                    pass
                for a in allargs:
                    if a.otaint and a.kind != "set" and not r.vtaint:
                        r.vtaint, r.why = True, a.why
                kk = Types.name_kind(obj.__name__)
                if kk:
                    r.kind = kk
                return r
            if inspect.isfunction(obj):
                return self.repo_call(e, obj, None, args, kwargs, allargs, any_taint)
            # unknown callable (parameter, local): conservative
            r = result("unknown")
            if self.ctx is not None:
                self.report(e, "effect", f"call of {name}() with unknown effects inside an unordered iteration ({self.ctx})")
            return r

        if isinstance(f, ast.Attribute):
            recv = self.ev(f.value)
            m = f.attr
            if recv is None:
                recv = AV("unknown")
            # ---- containers
            if recv.kind == "set":
                if m in SET_MUTATORS:
                    for a in allargs:
                        if a.vtaint:
                            recv.vtaint, recv.why = True, recv.why or a.why
                    return AV("scalar")
                if m == "pop":
                    r = recv.elem.copy() if recv.elem is not None else AV("unknown")
                    single = isinstance(f.value, ast.Name) and ("len1", f.value.id) in self.facts
                    if not single:
                        r.vtaint, r.why = True, f"`{ast.unparse(e)}` (line {e.lineno}) removes an arbitrary element of a set"
                        recv.vtaint, recv.why = True, r.why
                    return r
                if m in ("copy", "union", "intersection", "difference", "symmetric_difference"):
                    return AV("set", vtaint=recv.vtaint or any_taint is not None, why=recv.why or (any_taint.why if any_taint else None), elem=recv.elem)
                if m in PURE_METHODS:
                    return AV("scalar", vtaint=recv.vtaint, why=recv.why)
            if recv.kind == "list":
                if m in LIST_MUTATORS:
                    if self.ctx is not None:
                        recv.otaint = True
                        recv.why = recv.why or f"`{ast.unparse(e)[:70]}` (line {e.lineno}) appends inside an unordered iteration ({self.ctx})"
                    for a in allargs:
                        if a.vtaint:
                            recv.vtaint, recv.why = True, recv.why or a.why
                        if m in ("extend", "extendleft") and (a.kind == "set" or a.otaint):
                            recv.otaint = True
                            recv.why = recv.why or (a.why or f"`{ast.unparse(e)[:70]}` (line {e.lineno}) extends a list in set order")
                        if recv.elem is None:
                            recv.elem = a.copy() if m == "append" else (a.elem.copy() if a.elem is not None else None)
                        elif m == "append":
                            recv.elem = join(recv.elem, a)
                    return AV("scalar")
                if m in ("pop", "popleft"):
                    r = recv.elem.copy() if recv.elem is not None else AV("unknown")
                    if recv.otaint or recv.vtaint:
                        r.vtaint, r.why = True, recv.why
                    return r
                if m in ("sort",):
                    recv.otaint = False
                    return AV("scalar")
                if m in ("copy",):
                    return recv.copy()
                if m in ("index", "count", "__contains__"):
                    return AV("scalar", vtaint=recv.vtaint or (m == "index" and recv.otaint), why=recv.why)
                if m in ("reverse", "remove", "clear"):
                    return AV("scalar")
            if recv.kind == "dict":
                if m in ("items", "keys", "values"):
                    elem = recv.elem
                    if m == "items":
                        elem = AV("tuple", elem=recv.elem)
                    elif m == "keys":
                        elem = AV("unknown")
                    return AV("iter", otaint=recv.otaint, vtaint=recv.vtaint, elem=elem, why=recv.why)
                if m in ("get", "__getitem__"):
                    r = recv.elem.copy() if recv.elem is not None else AV("unknown")
                    if recv.vtaint or any_taint is not None:
                        r.vtaint, r.why = True, recv.why or any_taint.why
                    return r
                if m == "copy":
                    return recv.copy()
                if m in ("update", "setdefault", "__setitem__"):
                    if self.ctx is not None:
                        recv.otaint = True
                        recv.why = recv.why or f"`{ast.unparse(e)[:70]}` (line {e.lineno}) inserts keys inside an unordered iteration ({self.ctx})"
                    for a in allargs:
                        if m == "update" and (a.kind == "set" or (a.otaint and a.kind != "set")):
                            recv.otaint = True
                            recv.why = recv.why or a.why or f"`{ast.unparse(e)[:70]}` (line {e.lineno}) inserts keys in set order"
                        if a.vtaint:
                            recv.vtaint, recv.why = True, recv.why or a.why
                    if m == "setdefault":
                        r = recv.elem.copy() if recv.elem is not None else (args[1].copy() if len(args) > 1 and args[1] is not None else AV("unknown"))
                        return r
                    return AV("scalar")
                if m in ("pop",):
                    return recv.elem.copy() if recv.elem is not None else AV("unknown")
                if m == "popitem":
                    r = AV("tuple", vtaint=recv.otaint or recv.vtaint, why=recv.why)
                    return r
                if m == "fromkeys":
                    return result("dict", order_from=args[0] if args else None)
            if recv.kind == "str" or (isinstance(f.value, ast.Constant) and isinstance(f.value.value, str)):
                if m == "join":
                    src = args[0] if args else None
                    r = AV("str")
                    if src is not None:
                        if src.kind == "set" or src.otaint:
                            r.vtaint = True
                            r.why = src.why or f"`{ast.unparse(e)[:70]}` (line {e.lineno}) joins a set in iteration order"
                        if src.vtaint:
                            r.vtaint, r.why = True, r.why or src.why
                        if src.elem is not None and src.elem.kind == "set":
                            r.vtaint, r.why = True, "joins texts of sets"
                    if recv.vtaint:
                        r.vtaint, r.why = True, recv.why
                    return r
                r = AV("str" if m not in ("startswith", "endswith", "find", "index", "count", "isidentifier", "isdigit") else "scalar")
                if recv.vtaint or any_taint is not None:
                    r.vtaint, r.why = True, recv.why or (any_taint.why if any_taint else None)
                if m in ("split", "rsplit", "splitlines", "partition", "rpartition"):
                    r = AV("list", elem=AV("str"), vtaint=r.vtaint, why=r.why)
                if m == "format" and set_arg is not None:
                    r.vtaint, r.why = True, "a set formatted into text"
                return r
            # ---- methods of live classes
            meth = None
            for c in recv.cls:
                raw = inspect.getattr_static(c, m, None)
                raw = raw.__func__ if isinstance(raw, (staticmethod, classmethod)) else raw
                if inspect.isfunction(raw):
                    meth = raw
                    break
            if meth is None:
                # class attribute call like nodes.Name(...) / module function
                obj = Types.resolve(f, self.module)
                if inspect.isclass(obj):
                    r = result("obj", cls=(obj,))
                    for a in allargs:
                        if a.otaint and a.kind != "set" and not r.vtaint:
                            r.vtaint, r.why = True, a.why
                    return r
                if inspect.isfunction(obj):
                    return self.repo_call(e, obj, None, args, kwargs, allargs, any_taint)
                if inspect.isbuiltin(obj) or (obj is not None and callable(obj) and not (recv.cls or recv.kind in ("obj", "unknown") and recv.kind == "obj")):
                    r = result("unknown")
                    for a in allargs:
                        if (a.otaint and a.kind != "set") or (a.kind == "set" and getattr(obj, "__name__", "") in ("chain", "islice", "groupby")):
                            r.otaint, r.why = True, a.why or "enumerates a set"
                    return r
            if meth is not None:
                return self.repo_call(e, meth, recv, args, kwargs, allargs, any_taint)
            # method of a value of unknown type
            if m in PURE_METHODS:
                r = result("unknown")
                if recv.tainted():
                    r.vtaint, r.why = True, recv.why
                if m in ("items", "keys", "values") and recv.otaint:
                    r.otaint = True
                return r
            if m in LIST_MUTATORS | {"add", "update", "setdefault", "write", "writeline", "extend"}:
                if self.ctx is not None and m not in ("add",):
                    recv.otaint = True
                    recv.why = recv.why or f"`{ast.unparse(e)[:70]}` (line {e.lineno}) inside an unordered iteration ({self.ctx})"
                    if not self.rooted_local(f.value):
                        self.report(e, "effect", f"`{ast.unparse(e)[:70]}` inside an unordered iteration ({self.ctx})")
                for a in allargs:
                    if a.tainted():
                        recv.vtaint, recv.why = True, recv.why or a.why
                    if m in ("update", "extend") and a.kind == "set" and recv.kind != "set":
                        recv.otaint, recv.why = True, recv.why or "filled from a set"
                return AV("scalar")
            r = result("unknown")
            if recv.tainted():
                r.vtaint, r.why = True, r.why or recv.why
            if self.ctx is not None:
                self.report(e, "effect", f"call `{ast.unparse(e)[:70]}` with unknown effects inside an unordered iteration ({self.ctx})")
            elif any_taint is not None and self.rooted_in_param(f.value):
                self.report(e, "effect", f"`{ast.unparse(e)[:70]}` receives a value that depends on set iteration order ({any_taint.why})")
            return r
        # call of a computed callee
        self.ev(f)
        return result("unknown")

    def rooted_local(self, e):
        return not self.rooted_in_param(e)

    @staticmethod
    def _ctor_takes_set(cls):
        return False

    def repo_call(self, e, fn, recv, args, kwargs, allargs, any_taint):
        """call of a repo function / method: result typed by its return annotation; effects by purity"""
        try:
            if not is_repo(fn):
                raise LookupError("not a repo function")
            node, module = extract.function_ast(fn)
            ret = TYPES.ann_to_av(node.returns, module)
        except Exception:
            ret = AV("unknown")
        pure = is_pure(fn)
        text = ast.unparse(e)[:80]
        # a set handed to a callee whose parameter does not declare a set: the callee iterates it in hash order
        try:
            cnode = node if is_repo(fn) else None
        except Exception:
            cnode = None
        if cnode is not None:
            cparams = list(cnode.args.posonlyargs + cnode.args.args)
            if recv is not None and cparams and cparams[0].arg in ("self", "cls"):
                cparams = cparams[1:]
            pairs = []
            for i, a in enumerate(args):
                pairs.append((a, cparams[i] if i < len(cparams) else cnode.args.vararg))
            for k, a in kwargs.items():
                pm = next((p for p in cparams + list(cnode.args.kwonlyargs) if p.arg == k), cnode.args.kwarg)
                pairs.append((a, pm))
            for a, pm in pairs:
                if a is None or a.kind != "set" or pm is None:
                    continue
                declared = TYPES.ann_to_av(pm.annotation, module) if pm.annotation is not None else AV("unknown")
                is_star = pm is cnode.args.vararg or pm is cnode.args.kwarg
                if declared.kind != "set" or is_star:
                    self.report(e, "set-argument", f"a set is passed to `{fn.__qualname__}` as `{pm.arg}` (declared {ast.unparse(pm.annotation) if pm.annotation is not None else 'untyped'}): "
                                                   f"the callee iterates it in hash order (in {text})")
        tainted_arg = any_taint
        if recv is not None and recv.tainted() and tainted_arg is None:
            tainted_arg = recv
        order_arg = next((a for a in allargs if a.otaint and a.kind != "set"), None)
        if tainted_arg is not None or order_arg is not None:
            src = tainted_arg or order_arg
            ret = ret.copy()
            ret.vtaint, ret.why = True, src.why
            if not pure:
                is_self = recv is not None and isinstance(e.func, ast.Attribute) and self.rooted_in_param(e.func.value)
                if is_self:
                    self.report(e, "effect", f"`{text}` (effectful) receives a value that depends on set iteration order ({src.why})")
        if self.ctx is not None and not pure:
            self.report(e, "effect", f"effectful call `{text}` inside an unordered iteration ({self.ctx}): the order of its effects (emitted lines / state) depends on the hash seed")
        return ret


def analyze(qualname, **kw):
    a = Analyzer(qualname, **kw)
    a.run()
    return a
