"""C01 bounded stand-in: seeded grammar-based fuzz of the whole pipeline (lexer -> parser -> code generator -> compile()).

Every generated source must either compile to Python that `compile()` accepts, or raise TemplateSyntaxError with
1 <= lineno <= 1 + number of line breaks of the source; nothing may hang.  Inputs: grammar-generated templates (tags,
expressions, delimiters, whitespace control, raw / comment blocks, line statements) and token-level mutations of them
(dropped / duplicated / swapped fragments, stray delimiters and operators, unbalanced pieces), in four environment
configurations.  Deviations that are the pre-registered defects F5-F9 / F25 are recognised by their finding key; anything
else is a violation.  This is a bounded check (quick ~20k, thorough ~300k inputs, seed = VERIF_SEED): never reported as proved.
"""
from __future__ import annotations

import random
import re
import signal
import time
import warnings

import jinja2
from jinja2.exceptions import TemplateSyntaxError
from jinja2.sandbox import SandboxedEnvironment

from pyvc.contract import Res, FnTask

PROP = "C01"

FUZZ_CONFIGS = {
    "default": lambda: jinja2.Environment(),
    "custom+line": lambda: jinja2.Environment(block_start_string="<%", block_end_string="%>", variable_start_string="${",
                                              variable_end_string="}", comment_start_string="<#", comment_end_string="#>",
                                              line_statement_prefix="%", line_comment_prefix="##"),
    "trim+async": lambda: jinja2.Environment(trim_blocks=True, lstrip_blocks=True, keep_trailing_newline=True, enable_async=True),
    "sandbox+ext": lambda: SandboxedEnvironment(extensions=["jinja2.ext.loopcontrols", "jinja2.ext.do", "jinja2.ext.i18n", "jinja2.ext.debug"],
                                                autoescape=True),
}

NAMES = ["a", "b", "x", "y", "loop", "self", "true", "none", "class", "é", "_x", "l_0_x", "caller", "varargs", "if", "in", "import", "context",
         "fi", "\ufb01", "__debug__", "_loop_vars"]
FILTERS = ["upper", "default", "join", "nosuch", "safe", "attr", "map", "e"]
TESTS = ["defined", "none", "divisibleby", "nosuch", "in", "sameas"]
BINOPS = ["+", "-", "*", "/", "//", "%", "**", "~", "==", "!=", "<", ">=", "and", "or", "in", "not in", "is", "|", "=", ","]
INTS = ["0", "1", "42", "0x1f", "0b1_0", "1_000", "007", "9" * 30]
FLOATS = ["1.5", "1e3", "1_0.5e-2", "1e999", "0.0", "3."]
# constant-foldable expressions whose value has no evaluable repr (bound method, iterator, generator) and containers of them
UNSAFE = ["'a'|attr('upper')", "[1, 2]|reverse", "[1, 2, 3]|batch(2)", "'abc'|attr('title')", "[1]|slice(1)", "'a'|map('upper')"]
STRS = ["'s'", '"d"', "'a\\'b'", "'\\x41'", "'\\N{DASH}'", "'é\\n'", "'%s'", "'{{'", "\"%}\""]


class Gen:
    def __init__(self, rnd, env, cfg):
        self.r = rnd
        self.env = env
        self.cfg = cfg
        self.bs, self.be = env.block_start_string, env.block_end_string
        self.vs, self.ve = env.variable_start_string, env.variable_end_string
        self.cs, self.ce = env.comment_start_string, env.comment_end_string
        self.exts = set()
        for e in env.extensions.values():
            self.exts |= set(e.tags)

    def ws(self):
        return self.r.choice(["", " ", " ", "  ", "\n", "\t"])

    def sign(self):
        return self.r.choice(["", "", "", "-", "+"])

    def name(self):
        return self.r.choice(NAMES)

    def expr(self, d=0):
        r = self.r
        k = r.random()
        if k < 0.03:
            u = r.choice(UNSAFE)
            return r.choice(["{'k': %s}", "{'k': [%s]}", "{1: (2, %s)}", "[%s]", "(%s, 1)", "{%s: 1}", "{'o': {'i': %s}}", "%s"]) % u
        if d > 3 or k < 0.25:
            return r.choice([self.name(), r.choice(INTS), r.choice(FLOATS), r.choice(STRS), self.name(), self.name()])
        if k < 0.40:
            return f"{self.expr(d + 1)} {r.choice(BINOPS)} {self.expr(d + 1)}"
        if k < 0.48:
            return f"{self.expr(d + 1)}|{r.choice(FILTERS)}" + (f"({self.args(d + 1)})" if r.random() < 0.5 else "")
        if k < 0.54:
            return f"{self.expr(d + 1)} is {r.choice(['', 'not '])}{r.choice(TESTS)}" + (f" {self.expr(d + 2)}" if r.random() < 0.4 else "")
        if k < 0.60:
            return f"{self.expr(d + 1)}.{r.choice(NAMES + ['0', '1'])}"
        if k < 0.66:
            return f"{self.expr(d + 1)}[{r.choice([self.expr(d + 1), ':', self.expr(d + 1) + ':', '::' + self.expr(d + 1), self.expr(d + 1) + ':' + self.expr(d + 1) + ':' + self.expr(d + 1)])}]"
        if k < 0.76:
            return f"{self.expr(d + 1)}({self.args(d + 1)})"
        if k < 0.80:
            return "(" + ", ".join(self.expr(d + 1) for _ in range(r.randint(0, 3))) + r.choice(["", ","]) + ")"
        if k < 0.84:
            return "[" + ", ".join(self.expr(d + 1) for _ in range(r.randint(0, 3))) + "]"
        if k < 0.88:
            return "{" + ", ".join(f"{self.expr(d + 1)}: {self.expr(d + 1)}" for _ in range(r.randint(0, 2))) + "}"
        if k < 0.93:
            return f"{self.expr(d + 1)} if {self.expr(d + 1)}" + (f" else {self.expr(d + 1)}" if r.random() < 0.7 else "")
        return r.choice(["not ", "-", "+"]) + self.expr(d + 1)

    def args(self, d):
        r = self.r
        parts = []
        for _ in range(r.randint(0, 3)):
            k = r.random()
            if k < 0.5:
                parts.append(self.expr(d + 1))
            elif k < 0.8:
                parts.append(f"{self.name()}={self.expr(d + 1)}")
            elif k < 0.9:
                parts.append("*" + self.expr(d + 1))
            else:
                parts.append("**" + self.expr(d + 1))
        return ", ".join(parts)

    def tag(self, body):
        return [self.bs + self.sign(), self.ws() + body + self.ws(), self.sign() + self.be]

    def var(self):
        return [self.vs + self.r.choice(["", "", "-"]), self.ws() + self.expr() + self.ws(), self.r.choice(["", "", "-"]) + self.ve]

    def params(self):
        r = self.r
        ps = []
        for _ in range(r.randint(0, 3)):
            ps.append(self.name() + (f"={self.expr(2)}" if r.random() < 0.3 else ""))
        return ", ".join(ps)

    def block(self, d=0):
        """-> list of fragments"""
        r = self.r
        out = []
        for _ in range(r.randint(1, 3 if d else 4)):
            out += self.item(d)
        return out

    def item(self, d):
        r = self.r
        k = r.random()
        if d > 3 or k < 0.22:
            return [r.choice(["text", " ", "\n", "a\r\nb", "{", "}", "%", "#", "<p>", "é", "\\", "line\n% not\n", "x\n  "])]
        if k < 0.40:
            return self.var()
        if k < 0.44:
            return [self.cs + self.sign(), r.choice([" c ", "", "{{ x }}", "\n"]), self.sign() + self.ce]
        if k < 0.47:
            return self.tag("raw") + [r.choice(["{{ x }}", "{% if %}", "", self.bs])] + self.tag("endraw")
        if k < 0.56:
            t = self.tag(f"for {r.choice([self.name(), self.name() + ', ' + self.name()])} in {self.expr(1)}"
                         + (f" if {self.expr(2)}" if r.random() < 0.2 else "") + (" recursive" if r.random() < 0.1 else ""))
            t += self.block(d + 1)
            if r.random() < 0.25:
                t += self.tag("else") + self.block(d + 1)
            return t + self.tag("endfor")
        if k < 0.64:
            t = self.tag(f"if {self.expr(1)}") + self.block(d + 1)
            if r.random() < 0.3:
                t += self.tag(f"elif {self.expr(1)}") + self.block(d + 1)
            if r.random() < 0.3:
                t += self.tag("else") + self.block(d + 1)
            return t + self.tag("endif")
        if k < 0.69:
            if r.random() < 0.7:
                return self.tag(f"set {r.choice([self.name(), self.name() + '.' + self.name(), self.name() + ', ' + self.name()])} = {self.expr(1)}")
            return self.tag(f"set {self.name()}" + (f" | {r.choice(FILTERS)}" if r.random() < 0.3 else "")) + self.block(d + 1) + self.tag("endset")
        if k < 0.74:
            nm = self.name()
            return self.tag(f"block {nm}" + r.choice(["", " scoped", " required", " scoped required"])) + self.block(d + 1) + self.tag("endblock" + r.choice(["", " " + nm]))
        if k < 0.80:
            return self.tag(f"macro {self.name()}({self.params()})") + self.block(d + 1) + self.tag("endmacro")
        if k < 0.83:
            return self.tag("call" + (f"({self.params()})" if r.random() < 0.4 else "") + f" {self.name()}({self.args(1)})") + self.block(d + 1) + self.tag("endcall")
        if k < 0.86:
            return self.tag(f"filter {r.choice(FILTERS)}" + (f"({self.args(2)})" if r.random() < 0.3 else "")) + self.block(d + 1) + self.tag("endfilter")
        if k < 0.89:
            return self.tag("with " + ", ".join(f"{self.name()} = {self.expr(2)}" for _ in range(r.randint(0, 2)))) + self.block(d + 1) + self.tag("endwith")
        if k < 0.91:
            return self.tag(f"autoescape {self.expr(2)}") + self.block(d + 1) + self.tag("endautoescape")
        if k < 0.95:
            return self.tag(r.choice([f"include {self.expr(2)}" + r.choice(["", " ignore missing", " with context", " without context"]),
                                      f"import {self.expr(2)} as {self.name()}", f"from {self.expr(2)} import {self.name()}" + r.choice(["", f" as {self.name()}", f", {self.name()}", " with context"]),
                                      f"extends {self.expr(2)}"]))
        if k < 0.98 and self.exts:
            t = r.choice(sorted(self.exts))
            if t in ("break", "continue", "debug"):
                return self.tag(t)
            if t == "do":
                return self.tag(f"do {self.expr(1)}")
            if t == "trans":
                return self.tag("trans" + r.choice(["", f" {self.name()}={self.expr(2)}", f" {self.name()}", " trimmed"])) + [r.choice(["text", "{{ a }} x", "{{ a.b }}", "%(x)s"])] + \
                    (self.tag("pluralize" + r.choice(["", " " + self.name()])) + ["many {{ a }}"] if r.random() < 0.3 else []) + self.tag("endtrans")
        if self.env.line_statement_prefix and r.random() < 0.8:
            p = self.env.line_statement_prefix
            return ["\n" + p + f" for {self.name()} in {self.expr(2)}" + r.choice(["", ":"]) + "\n"] + self.block(d + 1) + ["\n" + p + " endfor\n"] + \
                ([f" {self.env.line_comment_prefix} comment {{{{\n"] if self.env.line_comment_prefix else [])
        return self.tag(r.choice(["endfor", "endif", "else", "elif x", "nosuchtag", "print 1", "", "for", "if", "set", "block 1", "macro m(", "call", "filter"]))

    def noise(self):
        r = self.r
        return r.choice([self.bs, self.be, self.vs, self.ve, self.cs, self.ce, "-", "+", "'", '"', "(", ")", "[", "]", "{", "}", "\n", "\r", " ", "raw", "endraw",
                         "%", "#", "|", ".", ":", "=", "**", "1e", "0x", "\\", "é", "\x00", "·", "٣", "if", "in", "not", "is", ",",
                         (self.env.line_statement_prefix or "%"), (self.env.line_comment_prefix or "##")])

    def source(self):
        r = self.r
        frs = self.block()
        m = r.random()
        if m < 0.45:
            return "".join(frs)
        n = r.randint(1, 3)
        for _ in range(n):
            k = r.random()
            if not frs:
                frs = [self.noise()]
            i = r.randrange(len(frs))
            if k < 0.3:
                del frs[i]
            elif k < 0.45:
                frs.insert(i, frs[i])
            elif k < 0.6:
                j = r.randrange(len(frs))
                frs[i], frs[j] = frs[j], frs[i]
            elif k < 0.85:
                frs.insert(i, self.noise())
            else:
                s = frs[i]
                if s:
                    c = r.randrange(len(s))
                    frs[i] = s[:c] + r.choice(["", self.noise()]) + s[c + 1:]
        return "".join(frs)


_newline_re = re.compile(r"\r\n|\r|\n")


def slice_in_tuple(env, src):
    """does the template contain a subscript with several items one of which is a slice (x[1:2, 3])?"""
    import jinja2.nodes as N
    try:
        tree = env.parse(src)
    except Exception:
        return False
    for g in tree.find_all(N.Getitem):
        if isinstance(g.arg, N.Tuple) and any(isinstance(i, N.Slice) for i in g.arg.items):
            return True
    return False


def duplicate_keyword(env, src):
    """does some call / filter / test of the template repeat a keyword name itself?"""
    import jinja2.nodes as N
    try:
        tree = env.parse(src)
    except Exception:
        return False
    for n in tree.find_all((N.Call, N.Filter, N.Test)):
        keys = [k.key for k in n.kwargs]
        if len(set(keys)) < len(keys):
            return True
    return False


def duplicate_parameter(env, src):
    import jinja2.nodes as N
    try:
        tree = env.parse(src)
    except Exception:
        return False
    for n in tree.find_all((N.Macro, N.CallBlock)):
        names = [a.name for a in n.args]
        if len(set(names)) < len(names):
            return True
    return False


def classify(ex, env=None, src=None):
    """finding key of a deviation"""
    msg = str(ex)
    if isinstance(ex, SyntaxError) and "invalid syntax" in msg and env is not None and slice_in_tuple(env, src):
        return "slice-in-tuple-subscript"
    nm = type(ex).__name__
    if isinstance(ex, SyntaxError):
        if "cannot assign to __debug__" in msg:
            return "kwarg-name:__debug__"
        if "duplicate argument" in msg:
            if env is not None and not duplicate_parameter(env, src):
                return "nfkc-collision"  # distinct raw names with the same NFKC form
            return "F5:duplicate-parameter"
        if "keyword argument repeated" in msg:
            m = re.search(r"repeated: (\w+)", msg)
            if m and m.group(1) in ("caller", "_loop_vars", "_block_vars") and env is not None and not duplicate_keyword(env, src):
                return "generator-keyword-collision"
            if env is not None and not duplicate_keyword(env, src):
                return "nfkc-collision"
            return "F6:duplicate-keyword"
        if "too many statically nested blocks" in msg or "too many levels of indentation" in msg or "too many nested parentheses" in msg:
            return "F8:static-nesting"
        if "'break' outside loop" in msg or "'continue' not properly in loop" in msg:
            return "F25:loopcontrol-outside-loop"
        if ("invalid character" in msg or "invalid decimal literal" in msg) and "<unknown>" in msg:
            return "float-unicode-digits"  # raised by ast.literal_eval inside Lexer.wrap, not by compile() of generated code
        return f"SyntaxError:{msg[:60]}"
    if isinstance(ex, ValueError) and "integer string conversion" in msg:
        return "F7/F9:int-digit-limit"
    if isinstance(ex, TypeError) and "unhashable type" in msg:
        return "fold:unhashable-dict-key"
    return f"{nm}:{msg[:60]}"


HANG_CPU_SECONDS = 5.0


def classify_hang(env, src):
    """a hang whose cause is constant folding of `**` with an astronomically large constant exponent (resource clause A5)"""
    import jinja2.nodes as N
    try:
        tree = env.parse(src)
    except Exception:
        return "hang"
    for p in tree.find_all(N.Pow):
        r = p.right
        while isinstance(r, (N.Pos, N.Neg)):
            r = r.node
        if isinstance(r, N.Const) and isinstance(r.value, int) and abs(r.value) > 10 ** 6:
            return "fold:huge-pow"
        if isinstance(r, N.Pow):
            return "fold:huge-pow"
    return "hang"


class Hang(BaseException):  # BaseException: as_const() implementations swallow `Exception`
    pass


def _alarm(signum, frame):
    raise Hang()


def check_source(env, src):
    """-> None if the property holds for this source, else (key, detail)"""
    nl = len(_newline_re.findall(src))
    # "hangs" = more than HANG_CPU_SECONDS of CPU time of this process on one short source (a CPU timer, so that a loaded machine does not matter)
    old = signal.signal(signal.SIGPROF, _alarm)
    signal.setitimer(signal.ITIMER_PROF, HANG_CPU_SECONDS)
    try:
        try:
            code = env.compile(src, name="t", raw=True)
        except TemplateSyntaxError as ex:
            if not (isinstance(ex.lineno, int) and 1 <= ex.lineno <= 1 + nl):
                return ("lineno-out-of-range", f"TemplateSyntaxError.lineno = {ex.lineno!r} for a source with {nl} line breaks ({ex.message})")
            return None
        except Hang:
            return (classify_hang(env, src), f"no result after {HANG_CPU_SECONDS} s of CPU time")
        except BaseException as ex:  # noqa
            return (classify(ex, env, src), f"{type(ex).__name__}: {str(ex)[:120]}")
        try:
            with warnings.catch_warnings():
                warnings.simplefilter("ignore")
                compile(code, "<template>", "exec")
        except Hang:
            return ("hang", f"compile() of the generated code: no result after {HANG_CPU_SECONDS} s of CPU time")
        except BaseException as ex:  # noqa
            return (classify(ex, env, src), f"generated code rejected: {type(ex).__name__}: {str(ex)[:120]}")
        return None
    finally:
        signal.setitimer(signal.ITIMER_PROF, 0)
        signal.signal(signal.SIGPROF, old)


BUDGET = {"quick": 5000, "thorough": 75000}


STALL_SECONDS = 45.0  # CPU seconds the worker may burn on ONE source (a C-level regex match cannot be interrupted from Python)
STALL_WALL_CAP = 900.0  # safety net: silence in wall-clock time, whatever the load of the machine


def proc_cpu_seconds(pid):
    """user + system CPU time of a process (Linux /proc); None when it cannot be read"""
    import os
    try:
        with open(f"/proc/{pid}/stat") as f:
            parts = f.read().rsplit(")", 1)[1].split()
        return (int(parts[11]) + int(parts[12])) / float(os.sysconf("SC_CLK_TCK"))
    except Exception:
        return None


def run_cpu_limited(argv, input_text, cpu_seconds, cwd=None, wall_cap=STALL_WALL_CAP):
    """run a child with a CPU-time limit (RLIMIT_CPU, independent of the machine's load) -> (status, stdout, stderr);
    status 'ok' | 'cpu-limit' | 'wall-cap' | 'died:<rc>'"""
    import resource
    import subprocess

    def limit():
        resource.setrlimit(resource.RLIMIT_CPU, (int(cpu_seconds), int(cpu_seconds) + 2))

    p = subprocess.Popen(argv, stdin=subprocess.PIPE, stdout=subprocess.PIPE, stderr=subprocess.PIPE, text=True, cwd=cwd, preexec_fn=limit)
    try:
        out, err = p.communicate(input_text, timeout=wall_cap)
    except subprocess.TimeoutExpired:
        p.kill()
        out, err = p.communicate()
        return "wall-cap", out, err
    if p.returncode == 0:
        return "ok", out, err
    if p.returncode in (-24, -9):  # SIGXCPU / SIGKILL after the hard limit
        return "cpu-limit", out, err
    return f"died:{p.returncode}", out, err


# sources every run starts with, per configuration: the inputs of the listed findings (so that each of them is observed
# in every tier) and of the repaired defects (so that a regression of a repair is seen without luck)
CORPUS = {
    "default": ["{{ 2 ** 999999999999999999999999999999 }}", "{% macro m(a, a) %}{% endmacro %}", "{{ f(a=1, a=2) }}", "{{ x[1:2, 3] }}",
                "{% call f(caller=1) %}x{% endcall %}", "{{ 1.5\u0663 }}", "{{ f(__debug__=1) }}", "{% macro m(\ufb01, fi) %}{% endmacro %}",
                "{{ {[1]: 2}.x }}", "{% print %}{% extends 'base' %}", "{{ f(__\uff44ebug__=1) }}", "{% macro m(\uff43aller) %}{{ caller() }}{% endmacro %}",
                "{{ 0x" + "f" * 4200 + " > 1 }}", "{{ f({'k': 'a'|attr('upper')}) }}", "{% set x = 1e999 %}{{ x + 1 }}", "{{ 'a' if x }}"],
    "custom+line": ["<% for x in y %>${ f(_loop_vars=1) }<% endfor %>", "% for x in y\n${ x }\n% endfor\n"],
    "trim+async": ["{% for x in y %}{{ f(_loop_vars=1) }}{% endfor %}", "{% block b %}{{ f(_block_vars=1) }}{% endblock %}"],
    "sandbox+ext": ["{% break %}", "{% for x in y %}{% else %}{% continue %}{% endfor %}", "{% trans \ufb01=1, fi=2 %}{{ \ufb01 }}{{ fi }}{% endtrans %}"],
}


def _worker_main(argv):
    """child process: python -m contracts.c01_fuzz <cfg> <seed> <n> <start>; one JSON line before and after every source"""
    import json
    import sys
    cfg, seed, n, start = argv[0], argv[1], int(argv[2]), int(argv[3])
    warnings.simplefilter("ignore")
    env = FUZZ_CONFIGS[cfg]()
    rnd = random.Random(f"{seed}:{cfg}")
    g = Gen(rnd, env, cfg)
    out = sys.stdout
    corpus = CORPUS.get(cfg, [])
    for i in range(n):
        src = corpus[i] if i < len(corpus) else g.source()
        if i < start:
            continue
        out.write(json.dumps(["S", i, src]) + "\n")
        out.flush()
        r = check_source(env, src)
        if r is not None:
            out.write(json.dumps(["D", i, r[0], r[1]]) + "\n")
            out.flush()
    out.write(json.dumps(["END", n]) + "\n")
    out.flush()


def fuzz_config(cfg):
    def run(task, tier, seed):
        import json
        import os
        import select
        import subprocess
        import sys
        n = BUDGET.get(tier, BUDGET["quick"])
        found = {}
        t0 = time.time()
        done = 0
        start = 0
        stalls = 0
        while start < n and stalls < 3:
            p = subprocess.Popen([sys.executable, "-W", "ignore", "-m", "contracts.c01_fuzz", cfg, str(seed), str(n), str(start)],
                                 stdout=subprocess.PIPE, stderr=subprocess.DEVNULL, cwd=os.path.dirname(os.path.dirname(os.path.abspath(__file__))))
            fd = p.stdout.fileno()
            buf = b""
            cur = (start, "")
            ended = False
            last = time.time()
            cpu_last = proc_cpu_seconds(p.pid) or 0.0
            while True:
                r, _, _ = select.select([fd], [], [], 1.0)
                if r:
                    chunk = os.read(fd, 1 << 16)
                    if not chunk:
                        break
                    last = time.time()
                    cpu_last = proc_cpu_seconds(p.pid) or cpu_last
                    buf += chunk
                    while b"\n" in buf:
                        line, buf = buf.split(b"\n", 1)
                        try:
                            msg = json.loads(line)
                        except ValueError:
                            continue
                        if msg[0] == "S":
                            cur = (msg[1], msg[2])
                            done = max(done, msg[1] + 1)
                        elif msg[0] == "D":
                            key, detail = msg[2], msg[3]
                            if key not in found or len(cur[1]) < len(found[key][0]):
                                found[key] = (cur[1], detail)
                        elif msg[0] == "END":
                            ended = True
                else:
                    cpu_now = proc_cpu_seconds(p.pid)
                    if (cpu_now is not None and cpu_now - cpu_last > STALL_SECONDS) or time.time() - last > STALL_WALL_CAP:
                        break
            if ended:
                p.wait()
                start = n
                break
            # the worker died or stalled on source cur[0]
            rc = p.poll()
            p.kill()
            p.wait()
            if rc is None:
                stalls += 1
                key = "hang:uninterruptible"
                detail = f"no result within {STALL_SECONDS:.0f} s of CPU time (not interruptible: inside the regex engine / C code)"
            else:
                key = f"worker-died:{rc}"
                detail = f"the interpreter running the check exited with status {rc}"
            if key not in found or len(cur[1]) < len(found[key][0]):
                found[key] = (cur[1], detail)
            start = cur[0] + 1
        rs = []
        for key, (src, detail) in sorted(found.items()):
            rs.append(Res("C01.bounded.fuzz", "refuted", "native", 0, f"config {cfg}: {src[:200]!r} -> {detail}", "bounded",
                          {"config": cfg, "source": src, "key": key}))
        rs.append(Res(f"C01.bounded.fuzz[{cfg}]", "bounded-ok", "native", time.time() - t0,
                      f"{done} generated sources in configuration {cfg}; {len(found)} distinct deviation classes (reported separately)", "bounded"))
        task.bound_text = f"{n} seeded grammar-generated / mutated sources per configuration (seed {seed}), configuration {cfg}"
        task.stats = {"inputs": done, "deviation_classes": sorted(found)}
        return rs

    return run


def fuzz_key(res):
    return (res.witness or {}).get("key")


def replay_fuzz(w):
    """in a subprocess with a time limit: a hang inside the regex engine cannot be interrupted in-process"""
    import json
    import os
    import subprocess
    import sys
    cfg = w.get("config", "default")
    src = w.get("source", "")
    code = ("import sys, json, warnings\nwarnings.simplefilter('ignore')\n"
            "from contracts import c01_fuzz as CF\n"
            "cfg, src = json.loads(sys.stdin.read())\n"
            "env = CF.FUZZ_CONFIGS.get(cfg, CF.FUZZ_CONFIGS['default'])()\n"
            "print(json.dumps(CF.check_source(env, src)))\n")
    status, out, err = run_cpu_limited([sys.executable, "-c", code], json.dumps([cfg, src]), STALL_SECONDS,
                                       cwd=os.path.dirname(os.path.dirname(os.path.abspath(__file__))))
    if status in ("cpu-limit", "wall-cap"):
        return (True, f"config {cfg}: {src[:120]!r} -> no result within {STALL_SECONDS:.0f} s of CPU time")
    if status != "ok":
        return (True, f"config {cfg}: {src[:120]!r} -> the interpreter exited ({status}): {err[-200:]}")

    class p:  # noqa
        stdout = out
    r = json.loads(p.stdout.strip().splitlines()[-1])
    if r is None:
        return (False, "the source compiles or raises an in-range TemplateSyntaxError")
    return (True, f"config {cfg}: {src[:120]!r} -> {r[1]}")


def fuzz_tasks():
    ts = []
    for cfg in FUZZ_CONFIGS:
        t = FnTask(PROP, f"C01.bounded.fuzz[{cfg}]", fuzz_config(cfg), "bounded", replay_fuzz)
        t.finding_key = fuzz_key
        ts.append(t)
    return ts


def native_parse_search(w, budget=4000):
    """replay helper for the symbolic parser / stream obligations: look for a source whose parse raises anything but
    TemplateSyntaxError"""
    rnd = random.Random(3)
    t0 = time.time()
    n = 0
    for cfg, mk in FUZZ_CONFIGS.items():
        env = mk()
        g = Gen(rnd, env, cfg)
        for _ in range(budget):
            src = g.source()
            n += 1
            try:
                env.parse(src)
            except TemplateSyntaxError:
                pass
            except BaseException as ex:  # noqa
                if classify(ex).startswith(("F7",)):
                    continue
                return (True, f"config {cfg}: parse({src[:120]!r}) raised {type(ex).__name__}: {str(ex)[:100]}")
            if time.time() - t0 > 60:
                break
    return (False, f"no failing input found among {n} generated sources")


if __name__ == "__main__":
    import sys as _sys
    _worker_main(_sys.argv[1:])
