"""C15  Autoescaping never lets unescaped data or string literals into the output.

Information-flow contract.  Ghost tag ``html_safe`` on values; untagged sources are context data and the
string constants of the template; sanitiser ``markupsafe.escape``; combinators (``Markup.join/replace/__add__/
__mod__/format/splitlines``) keep the tag and escape untagged operands (dependency spec); sinks are every
``Markup(x)`` call of /repo/src/jinja2, every ``Markup(`` written into generated code and every piece that
generated ``Output`` code yields / appends while autoescape is active.

  C15.output.wrap.<children>   emission contract on the real CodeGenerator.visit_Output (with _make_finalize,
        _output_child_to_const, _output_const_repr, _output_child_pre/_post inlined) over a CONCRETE child list of
        1..3 symbolic children of classes {generic Expr, TemplateData, Const} (bound on the list length):
        a run-time child is emitted as  escape(F)            frame not volatile, autoescape on
                                        (escape if context.eval_ctx.autoescape else str)(F)    frame volatile
        where F is the child or environment.finalize([ctx, ] child); a compile-time constant that is not template
        text is emitted only in a frame that is NOT volatile, and went through escape() when the static flag is on.
  C15.buffer.inv.<visitor>     every visitor: what generated code yields / appends to a frame buffer is a
        forwarded event of a nested generator, and every ``Markup(`` in generated code is ``Markup(concat(<buffer
        opened by this visitor>))`` guarded by the frame's autoescape decision (static flag, or
        ``context.eval_ctx.autoescape`` when volatile), or one of the explicit exemptions (template text, MarkSafe).
  C15.sink.<site>              one obligation per ``Markup(`` call site of runtime/environment/ext/utils/filters/nodes:
        the real enclosing function is executed with ghost tags; the argument must be tagged.
  C15.sink.inventory           the call sites found in the live sources are exactly the ones under contract.
  C15.filter.<name>            built-in filters that can return Markup: result Markup => no untagged operand in it.
  C15.filter.inventory         every entry of FILTERS that mentions Markup/escape/soft_str/__html__ is covered.
  C15.select_autoescape        case-insensitive suffix decision; None gives default_for_string.
"""
from __future__ import annotations

import ast
import inspect
import itertools
import re
import time

import z3

from pyvc.contract import VC, Res, FnTask, Task
from pyvc.emitcheck import EmitTask
from pyvc import emit, abstract as A
from pyvc.values import Sym, Ref, HObj, HList, HDict, Event, Exc, BoundMethod, sym, fresh, fresh_name, Unsupported
from pyvc.interp import Raised
from pyvc.smt import to_term
from contracts.emit_common import all_visitor_tasks, hole_of, is_hole, strip_async, visitors

import markupsafe
import jinja2
import jinja2.nodes as N
import jinja2.compiler as C

VOLATILE = z3.Bool("eval_ctx.volatile")
AUTOESCAPE = z3.Bool("eval_ctx.autoescape")

VOLATILE_WRAPPER = "(escape if context.eval_ctx.autoescape else str)"


# =====================================================================================================
# visit_Output over a concrete child list
# =====================================================================================================

CHILD_CLASSES = {"E": N.Expr, "T": N.TemplateData, "C": N.Const}


class _EnvFinalize:
    """stand-in class of the application's ``environment.finalize`` callable (abstract callee)"""


def child_path(i):
    return f"node.nodes[{i}]"


def output_node_fields(kinds):
    def mk(st):
        kids = []
        for i, k in enumerate(kinds):
            p = child_path(i)
            if k == "C":
                fields = {"value": sym(p + ".value", "obj", tags={"src:" + p, "literal"})}
            elif k == "T":
                fields = {"data": sym(p + ".data", "str", tags={"src:" + p, "template_text"})}
            else:
                fields = None
            kids.append(emit.make_node(st, CHILD_CLASSES[k], p, fields=fields))
        return {"nodes": st.alloc(HList(items=kids))}
    return mk


def output_configure(I):
    """dependency specs used while running visit_Output"""

    def as_const_spec(I_, st, args, kwargs, node):
        # generic expression child: constant (value unknown, a template literal expression) or Impossible
        h = st.get(args[0])
        s2 = st.fork()
        e = Exc(N.Impossible, (), tag="child.as_const", origin=getattr(node, "lineno", None))
        s2.trace.append(Event("call", "child.as_const", args, kwargs, e))
        v = fresh("const_of_" + h.path, "obj", tags={"src:" + h.path, "literal"})
        st.trace.append(Event("call", "child.as_const", args, kwargs, v))
        return [(s2, Raised(e)), (st, v)]

    I.specs["Expr.as_const"] = as_const_spec

    def escape_spec(I_, st, args, kwargs, node):
        a = args[0]
        tags = set(a.tags) if isinstance(a, Sym) else set()
        n = len([t for t in tags if t.startswith("esc:")])
        v = fresh("escaped", "obj", tags=tags | {"html_safe", f"esc:{n + 1}"})
        st.trace.append(Event("call", "escape", args, kwargs, v))
        return [(st, v)]

    I.specs[("fn", id(markupsafe.escape))] = escape_spec

    def safe_repr_spec(I_, st, args, kwargs, node):
        # compiler.has_safe_repr (contracts C01.emit.wellformed.W5 / C34.has_safe_repr.exact_types): here only
        # "some boolean function of the constant"; False makes the real code raise Impossible (run-time child)
        v = fresh("has_safe_repr", "bool")
        st.trace.append(Event("call", "has_safe_repr", args, kwargs, v))
        return [(st, v)]

    I.specs[("fn", id(C.has_safe_repr))] = safe_repr_spec
    I.specs["jinja2.compiler:has_safe_repr"] = safe_repr_spec

    def concat_spec(I_, st, args, kwargs, node):
        items = list(I_.iter_concrete(st, args[0], node))
        v = fresh("concat", "str", tags={"const_group"})
        st.trace.append(Event("call", "concat", [items], kwargs, v))
        return [(st, v)]

    I.specs[("fn", id(C.concat))] = concat_spec

    FI = C.CodeGenerator._FinalizeInfo

    def finalize_info(I_, st, args, kwargs, node):
        # typing.NamedTuple construction: a record with the two declared fields
        a = list(args) + [kwargs.get(k) for k in FI._fields[len(args):]]
        return [(st, st.alloc(HObj(FI, fields=dict(zip(FI._fields, a)))))]

    I.specs[("fn", id(FI))] = finalize_info

    def env_finalize_call(I_, st, args, kwargs, node):
        a = args[-1]
        tags = set(a.tags) if isinstance(a, Sym) else set()
        v = fresh("finalized", "obj", tags=tags | {"finalized"})
        st.trace.append(Event("call", "environment.finalize", args[1:], kwargs, v))
        return [(st, v)]

    I.specs["_EnvFinalize.__call__"] = env_finalize_call


def _elements(tree, buffer):
    """the values that the generated Output code yields / puts into the frame buffer, in order;
    None if the statement list has an unexpected shape"""
    stmts = list(tree.body)
    if len(stmts) == 1 and isinstance(stmts[0], ast.If) and ast.unparse(stmts[0].test) == "parent_template is None" and not stmts[0].orelse:
        stmts = list(stmts[0].body)
    vals = []
    if buffer is None:
        for s in stmts:
            if isinstance(s, ast.Expr) and isinstance(s.value, ast.Yield) and s.value.value is not None:
                vals.append(s.value.value)
            else:
                return None
        return vals
    if len(stmts) != 1 or not isinstance(stmts[0], ast.Expr) or not isinstance(stmts[0].value, ast.Call):
        return None
    c = stmts[0].value
    nm = emit.call_name(c)
    if c.keywords or len(c.args) != 1:
        return None
    if nm == f"{buffer}.append":
        return [c.args[0]]
    if nm == f"{buffer}.extend" and isinstance(c.args[0], ast.Tuple):
        return list(c.args[0].elts)
    return None


def _wrapper_kind(fn):
    """'escape' | 'str' | 'dynamic' | None for the callee of the outermost call around a run-time child"""
    if isinstance(fn, ast.Name) and fn.id in ("escape", "str"):
        return fn.id
    if isinstance(fn, ast.IfExp) and ast.unparse(fn) == "escape if context.eval_ctx.autoescape else str":
        return "dynamic"
    return None


def _finalize_inner(x, ph):
    """x is <hole> or environment.finalize([context|context.eval_ctx|environment, ] <hole>) -> the hole or None"""
    h = hole_of(x, ph)
    if h is not None:
        return h
    if isinstance(x, ast.Call) and emit.call_name(x) == "environment.finalize" and not x.keywords and 1 <= len(x.args) <= 2:
        if len(x.args) == 2 and ast.unparse(x.args[0]) not in ("context", "context.eval_ctx", "environment"):
            return None
        return hole_of(x.args[-1], ph)
    return None


def analyse_output(sc, tree, ph):
    """-> (items, problems): items are ('runtime', path, wrapper_kind, n_escape_calls) and
    ('const', path, tags) in emission order."""
    items, problems = [], []
    els = _elements(tree, sc.buffer)
    if els is None:
        return None, [f"[shape] generated Output code has an unexpected statement shape: {ast.unparse(tree)[:160]!r}"]
    concat_by_term = {}
    for e in sc.st.trace:
        if e.kind == "call" and e.name == "concat":
            concat_by_term[str(e.result.t)] = e
    for el in els:
        if isinstance(el, ast.Constant) and isinstance(el.value, str) and f"'{el.value}'" in ph and ph[f"'{el.value}'"][0] == "repr":
            term = ph[f"'{el.value}'"][1]
            ev = concat_by_term.get(str(term))
            if ev is None:
                problems.append("[shape] a constant piece is not the concat of a constant group")
                continue
            for x in ev.args[0]:
                tags = set(x.tags) if isinstance(x, Sym) else set()
                src = [t[4:] for t in tags if t.startswith("src:")]
                if len(src) != 1:
                    problems.append(f"[shape] constant group element {x!r} has no unique source child")
                    continue
                items.append(("const", src[0], tags))
            continue
        if isinstance(el, ast.Call) and not el.keywords and len(el.args) == 1:
            kind = _wrapper_kind(el.func)
            h = _finalize_inner(el.args[0], ph)
            if kind is not None and h is not None:
                n_esc = sum(1 for n in ast.walk(el) if isinstance(n, ast.Name) and n.id == "escape")
                items.append(("runtime", h.path, kind, n_esc))
                continue
        h = [hole_of(n, ph) for n in ast.walk(el)]
        h = [x for x in h if x is not None]
        if h:
            items.append(("runtime", h[0].path, "other:" + ast.unparse(el)[:80], 0))
        else:
            problems.append(f"[shape] unrecognised output piece {ast.unparse(el)[:80]!r}")
    return items, problems


def output_wrap_pred(kinds):
    want_paths = [child_path(i) for i in range(len(kinds))]

    def pred(sc, tree, ph, txt):
        if sc.outcome == "raise":
            return [f"[raises] visit_Output raises {sc.value!r}"]
        if txt is not None and not txt.strip():
            # nothing emitted: allowed only under a known extends (output outside blocks is dead code there)
            return [] if sc.holds(z3.Bool("frame.require_output_check")) else ["[no-output] no code emitted for an Output node"]
        items, problems = analyse_output(sc, tree, ph)
        if items is None:
            return problems
        fails = list(problems)
        volatile, not_volatile = sc.holds(VOLATILE), sc.holds(z3.Not(VOLATILE))
        on, off = sc.holds(AUTOESCAPE), sc.holds(z3.Not(AUTOESCAPE))
        # every child exactly once, in source order (whole view)
        if [it[1] for it in items] != want_paths:
            fails.append(f"[order] children are not emitted once each in source order: {[it[1] for it in items]}")
        for it in items:
            k = kinds[want_paths.index(it[1])] if it[1] in want_paths else "?"
            if it[0] == "runtime":
                _, path, kind, n_esc = it
                if not (volatile or not_volatile):
                    fails.append(f"[undecided] the wrapper of run-time child {path} is chosen without looking at eval_ctx.volatile")
                elif volatile:
                    if kind != "dynamic":
                        fails.append(f"[runtime-wrapper:volatile] volatile frame: run-time child {path} is wrapped by {kind!r}, not by {VOLATILE_WRAPPER}(...)")
                elif not off:
                    if kind != "escape":
                        fails.append(f"[runtime-wrapper:on] autoescape on: run-time child {path} is wrapped by {kind!r}, not by escape(...)")
                elif kind not in ("str", "escape", "dynamic"):
                    fails.append(f"[runtime-wrapper:off] run-time child {path} is not passed through str/escape: {kind!r}")
            else:
                _, path, tags = it
                if "template_text" in tags:
                    continue  # template text is tagged by definition
                if not not_volatile:
                    # the path is feasible in a volatile frame (the code did not even look at the flag, or saw it set)
                    fails.append(f"[volatile-const:{CHILD_CLASSES[k].__name__}] volatile frame: child {path} ({CHILD_CLASSES[k].__name__}) is emitted as a compile-time constant, "
                                 f"{'escaped' if 'html_safe' in tags else 'NOT escaped'} according to the static flag "
                                 f"(autoescape={'on' if on else 'off' if off else 'undecided'}); the run-time decision context.eval_ctx.autoescape is ignored")
                elif not off and "html_safe" not in tags:
                    fails.append(f"[const-unescaped] autoescape on: compile-time constant of child {path} did not go through escape()")
        return fails

    return pred


DEFAULT_KINDS = [k for n in (1, 2) for k in itertools.product("ETC", repeat=n)] + [tuple("ECT"), tuple("CTE"), tuple("TEC"), tuple("CCE"), tuple("ECC")]


def _output_pre(fin, require_check):
    def pre(st, g, nd):
        if fin == "env":
            st.get(g.env).fields["finalize"] = st.alloc(HObj(_EnvFinalize, path="environment.finalize"), initial=True)
        if not require_check:
            st.get(g.frame).fields["require_output_check"] = False
        kids = st.get(st.get(nd).fields["nodes"]).items
        for k in kids:
            h = st.get(k)
            if h.cls is N.Expr:
                # the generic expression child stands for every expression class except template text (its own child class)
                h.fields["isinst:TemplateData"] = False
    return pre


class OutputContract(Task):
    """One shard of an emission obligation on visit_Output: a list of (child classes, finalize) configurations.
    All shards report under the same obligation name; `finding_key` is the set of failure categories."""
    kind = "emission"

    def __init__(self, prop, name, configs, pred_factory, replay_fn, shard):
        self.prop, self.name, self.configs, self.pred_factory, self.replay_fn, self.shard = prop, name, configs, pred_factory, replay_fn, shard
        self.bound_text = None

    def run(self, tier, seed):
        res = []
        k = self.shard * 10000
        for kinds, fin, require_check in self.configs:
            t0 = time.time()
            pred = self.pred_factory(kinds)
            et = EmitTask(self.prop, self.name, "jinja2.compiler:CodeGenerator.visit_Output", N.Output, pred, mode="stmts",
                          buffers=(None, "t_buf"), node_fields=output_node_fields(kinds), configure=output_configure,
                          env_fields={"finalize": None} if fin == "none" else None, pre=_output_pre(fin, require_check),
                          gen_fields={"_finalize": None})
            try:
                scs = et.schemas()
            except Unsupported as ex:
                res.append(Res(f"{self.name}.engine", "unknown", "pyvc-emit", time.time() - t0, f"children {''.join(kinds)}, finalize {fin}: unsupported: {ex}", self.kind))
                continue
            if len(scs) < 2:
                res.append(Res(f"{self.name}.paths", "error", "pyvc-emit", 0, f"children {''.join(kinds)}: only {len(scs)} paths", self.kind))
            for sc in scs:
                k += 1
                t1 = time.time()
                fails = []
                if sc.outcome == "raise":
                    fails += pred(sc, None, {}, None)
                else:
                    for txt, ph in sc.texts():
                        try:
                            tree = emit.parse_stmts(txt)
                        except SyntaxError as ex:
                            fails.append(f"[syntax] emitted text is not a statement list: {txt!r} ({ex.msg})")
                            continue
                        fails += pred(sc, tree, ph, txt)
                desc = f"children ({', '.join(CHILD_CLASSES[c].__name__ for c in kinds)}), environment.finalize {'set' if fin == 'env' else 'None'}, frame.buffer {sc.buffer}"
                if fails:
                    cats = sorted(set(re.findall(r"^\[([^\]]+)\]", "\n".join(fails), flags=re.M)))
                    res.append(Res(f"{self.name}#p{k}", "refuted", "pyvc-emit", time.time() - t1,
                                   f"{desc}: schema `{sc.describe()[:260]}` under {sorted(set(str(c)[:40] for c in sc.pc))[:6]}: " + "; ".join(fails[:3]),
                                   self.kind, witness={"children": "".join(kinds), "finalize": fin, "buffer": sc.buffer, "categories": cats,
                                                       "volatile": bool(sc.holds(VOLATILE)), "autoescape": bool(sc.holds(AUTOESCAPE)),
                                                       "schema": sc.describe()[:500]}))
                else:
                    res.append(Res(f"{self.name}#p{k}", "discharged", "pyvc-emit", time.time() - t1, desc, self.kind))
        return res

    def finding_key(self, res):
        return ",".join((res.witness or {}).get("categories") or ["uncategorised"])

    def replay(self, w):
        return self.replay_fn(w)


def output_tasks(prop, name, pred_factory, replay_fn, nshards=6):
    configs = [(kinds, fin, False) for kinds in DEFAULT_KINDS for fin in ("none", "env")]
    configs += [(tuple("EC"), "none", True), (tuple("T"), "env", True)]
    # balance: longest first
    configs.sort(key=lambda c: (-sum(2 if x == "E" else 1 for x in c[0]) - (2 if c[1] == "env" else 0)))
    shards = [[] for _ in range(nshards)]
    for i, c in enumerate(configs):
        shards[i % nshards].append(c)
    return [OutputContract(prop, name, sh, pred_factory, replay_fn, i) for i, sh in enumerate(shards)]


# =====================================================================================================
# C15.buffer.inv : what the other visitors yield / append / wrap in Markup
# =====================================================================================================

RUNTIME_FLAG = "context.eval_ctx.autoescape"
TEMPLATE_AUTOESCAPE = z3.Bool("template.eval_ctx.autoescape")  # the flag of EvalContext(environment, template name)


def holds(sc, term):
    """sc.holds(term), memoised per schema (the predicate runs on up to three instantiations of one path)"""
    cache = sc.__dict__.setdefault("_c15_holds", {})
    k = str(term)
    if k not in cache:
        cache[k] = sc.holds(term)
    return cache[k]
BUFFER_NAME = re.compile(r"t_buf|t_\d+|None")

# node classes that only exist to mark a value safe: written by the template author / an extension on purpose
MARK_SAFE_VISITORS = {"MarkSafe", "MarkSafeIfAutoescape"}


def emit_configure(I):
    """small dependency specs needed by macro_body (join of identifier lists, parameter bookkeeping)"""
    def join_spec(I_, st, args, kwargs, node):
        sep, items = args[0], list(I_.iter_concrete(st, args[1], node))
        parts = []
        for i, x in enumerate(items):
            if i:
                parts.append(to_term(sep, "str"))
            parts.append(to_term(x, "str"))
        if not parts:
            return [(st, "")]
        if len(parts) == 1:
            return [(st, items[0])]
        return [(st, Sym(z3.Concat(*parts), "str"))]

    I.specs["str.join"] = join_spec
    I.specs["_AbsMap.discard"] = lambda I_, st, args, kwargs, node: [(st, None)]


def _is_concat_of_buffer(n):
    return (isinstance(n, ast.Call) and isinstance(n.func, ast.Name) and n.func.id == "concat" and len(n.args) == 1 and not n.keywords
            and ((isinstance(n.args[0], ast.Name) and BUFFER_NAME.fullmatch(n.args[0].id)) or (isinstance(n.args[0], ast.Constant) and n.args[0].value is None)))


def _in_data_generator(n, par):
    """inside `def t_N(fiter)`: the loop-filter helper yields loop items, not output"""
    while n in par:
        n = par[n]
        if isinstance(n, (ast.FunctionDef, ast.AsyncFunctionDef)) and [a.arg for a in n.args.args] == ["fiter"]:
            return True
    return False


def _forwarded_event(v, n, par):
    """`yield event` / `buf.append(event)` directly inside `for event in <call of a nested generator>`"""
    if not (isinstance(v, ast.Name) and v.id == "event"):
        return False
    while n in par:
        n = par[n]
        if isinstance(n, (ast.For, ast.AsyncFor)) and isinstance(n.target, ast.Name) and n.target.id == "event":
            return True
        if isinstance(n, (ast.FunctionDef, ast.AsyncFunctionDef)):
            return False
    return False


def _piece_ok(v, n, par, ph, sc):
    """a value that generated code outside visit_Output may hand to the output stream / a frame buffer"""
    if _forwarded_event(v, n, par):
        return True
    w = strip_async(v)
    # result of the recursive loop function: return_buffer_contents of its own frame
    if isinstance(w, ast.Call) and isinstance(w.func, ast.Name) and w.func.id == "loop":
        return True
    if holds(sc, z3.And(z3.Not(VOLATILE), z3.Not(AUTOESCAPE))):
        return True  # autoescape is statically off here: nothing is demanded
    # wrapped like an Output child
    if isinstance(v, ast.Call) and len(v.args) == 1 and not v.keywords:
        f = v.func
        if isinstance(f, ast.Name) and f.id == "escape":
            return holds(sc, z3.Not(VOLATILE))
        if isinstance(f, ast.IfExp) and ast.unparse(f.test) == RUNTIME_FLAG and ast.unparse(f.body) == "escape":
            return True
    return False


def _dynamic_guard(n, par):
    """is node n evaluated only when the RUN-TIME flag context.eval_ctx.autoescape is true?"""
    child = n
    while child in par:
        p = par[child]
        if isinstance(p, ast.IfExp) and ast.unparse(p.test) == RUNTIME_FLAG and child is p.body:
            return True
        if isinstance(p, ast.If) and ast.unparse(p.test) == RUNTIME_FLAG and any(child is b for b in p.body):
            return True
        if isinstance(p, (ast.FunctionDef, ast.AsyncFunctionDef)):
            return False
        child = p
    return False


def buffer_inv_pred(sc, tree, ph, txt):
    if sc.outcome == "raise" or tree is None:
        return []
    vis = sc.st.get(sc.node).cls.__name__
    par = emit.parents(tree)
    fails = []
    if vis == "Block":
        # The forwarded events are produced by the block function, which visit_Template compiles under Frame(eval_ctx) with the
        # TEMPLATE's eval context (C15.buffer.inv.block_frame_source).  They satisfy the invariant of the frame in which the block
        # is placed only if that frame has the template's flags: not volatile and autoescape == the template default.
        if not holds(sc, z3.And(z3.Not(VOLATILE), AUTOESCAPE == TEMPLATE_AUTOESCAPE)):
            fails.append("[block-frame:Block] the events forwarded by visit_Block come from a block function compiled under the template's eval context, "
                         "not under the eval context of the frame in which the block is placed (nothing on this path ties the two together): "
                         "a block inside {% autoescape %} is escaped according to the template default")
    for n in ast.walk(tree):
        if isinstance(n, ast.Yield) and n.value is not None and not _in_data_generator(n, par):
            if not _piece_ok(n.value, n, par, ph, sc):
                fails.append(f"[unwrapped-piece:{vis}] generated code yields {ast.unparse(n.value)[:70]!r} which did not come through the Output wrapper "
                             f"(not escape(...)-wrapped, not a forwarded event)")
        if isinstance(n, ast.YieldFrom):
            if any(hole_of(x, ph) is not None and hole_of(x, ph).kind == "expr" for x in ast.walk(n.value)):
                fails.append(f"[unwrapped-piece:{vis}] `yield from` over a template expression: {ast.unparse(n)[:70]!r}")
        if isinstance(n, ast.Call) and isinstance(n.func, ast.Attribute) and n.func.attr in ("append", "extend", "insert") \
                and isinstance(n.func.value, ast.Name) and BUFFER_NAME.fullmatch(n.func.value.id) and n.func.value.id != "None":
            vals = list(n.args)
            if n.func.attr == "extend" and len(vals) == 1 and isinstance(vals[0], (ast.Tuple, ast.List)):
                vals = list(vals[0].elts)
            for v in vals:
                if not _piece_ok(v, n, par, ph, sc):
                    fails.append(f"[unwrapped-piece:{vis}] generated code appends {ast.unparse(v)[:70]!r} to the frame buffer {n.func.value.id}: it did not come "
                                 f"through the Output wrapper (not escape(...)-wrapped, not a forwarded event)")
        if isinstance(n, ast.Name) and n.id == "Markup":
            p = par.get(n)
            call, dynamic = None, False
            if isinstance(p, ast.Call) and p.func is n:
                call, dynamic = p, _dynamic_guard(p, par)
            elif isinstance(p, ast.IfExp) and p.body is n and ast.unparse(p.test) == RUNTIME_FLAG and isinstance(par.get(p), ast.Call) and par[p].func is p:
                call, dynamic = par[p], True
            if call is None or len(call.args) != 1 or call.keywords:
                fails.append(f"[markup-shape:{vis}] unexpected use of Markup in generated code: {ast.unparse(p)[:80]!r}")
                continue
            arg = call.args[0]
            if _is_concat_of_buffer(arg):
                if dynamic:
                    # The pieces of the buffer were escaped by the COMPILE-TIME flag unless the frame is volatile, so only a volatile
                    # frame may leave the decision to the run-time flag: a parent template compiled without escaping runs on the
                    # context of an autoescaped child (hunt h2/C15_1).
                    if not holds(sc, VOLATILE):
                        fails.append(f"[runtime-flag-wrapper:{vis}] concat(buffer) is marked safe by the run-time flag context.eval_ctx.autoescape although the frame is "
                                     f"not (known to be) volatile: its pieces were escaped by the compile-time flag, which differs when the template is the parent of a child "
                                     f"with another autoescape decision")
                    continue
                if not holds(sc, z3.And(AUTOESCAPE, z3.Not(VOLATILE))):
                    fails.append(f"[markup-unguarded:{vis}] Markup(concat(buffer)) is emitted unconditionally although the frame is "
                                 f"{'volatile' if not holds(sc, z3.Not(VOLATILE)) else 'not autoescaped'}: the buffer's pieces were not escaped")
                continue
            if isinstance(arg, ast.Constant) and isinstance(arg.value, str) and vis == "TemplateData" and dynamic:
                continue  # template text, tagged by definition
            h = hole_of(arg, ph)
            if h is not None and vis in MARK_SAFE_VISITORS and (dynamic or vis == "MarkSafe"):
                continue  # explicit safe-marking node
            fails.append(f"[markup-arg:{vis}] generated code wraps {ast.unparse(arg)[:70]!r} in Markup: the argument is not concat(<frame buffer>) "
                         f"(a filter result / expression value is marked safe without escaping)")
    return fails


def compiler_literals(word):
    """(enclosing method, lineno, text) of every string literal / f-string of compiler.py that contains `word`"""
    import os
    path = os.path.join(os.path.dirname(jinja2.__file__), "compiler.py")
    tree = ast.parse(open(path, encoding="utf-8").read())
    out = []

    def walk(node, qual, in_doc):
        for ch in ast.iter_child_nodes(node):
            q = qual
            if isinstance(ch, (ast.FunctionDef, ast.AsyncFunctionDef, ast.ClassDef)):
                q = qual + [ch.name]
                doc = ast.get_docstring(ch, clean=False)
            text = None
            if isinstance(ch, ast.JoinedStr):
                text = "".join(v.value if isinstance(v, ast.Constant) else "{}" for v in ch.values)
            elif isinstance(ch, ast.Constant) and isinstance(ch.value, str):
                text = ch.value
            if text is not None and re.search(r"\b%s\b" % word, text):
                is_doc = isinstance(node, ast.Expr) and isinstance(ch, ast.Constant)
                if not is_doc:
                    out.append((".".join(qual), ch.lineno, text))
            if not isinstance(ch, ast.JoinedStr):
                walk(ch, q, False)

    walk(tree, [], False)
    return out


EMITS_MARKUP = {"CodeGenerator.return_buffer_contents": "C15.buffer.inv.visit_For / macro_body", "CodeGenerator.visit_AssignBlock": "C15.buffer.inv.visit_AssignBlock",
                "CodeGenerator.visit_Filter": "C15.buffer.inv.visit_Filter", "CodeGenerator.visit_TemplateData": "C15.buffer.inv.visit_TemplateData",
                "CodeGenerator.visit_MarkSafe": "C15.buffer.inv.visit_MarkSafe", "CodeGenerator.visit_MarkSafeIfAutoescape": "C15.buffer.inv.visit_MarkSafeIfAutoescape"}


def block_frame_source(task, tier, seed):
    """premise of the block-frame clause: visit_Template compiles every block body under Frame(eval_ctx) where eval_ctx is the
    template-level EvalContext(self.environment, self.name)"""
    fn = _function_node("compiler", "CodeGenerator.visit_Template")
    assigns = {ast.unparse(n.targets[0]): ast.unparse(n.value) for n in ast.walk(fn) if isinstance(n, ast.Assign) and len(n.targets) == 1}
    ok = assigns.get("block_frame") == "Frame(eval_ctx)" and assigns.get("eval_ctx") == "EvalContext(self.environment, self.name)"
    return [Res("C15.buffer.inv.block_frame_source", "discharged" if ok else "unknown", "ast", 0,
                f"visit_Template: eval_ctx = {assigns.get('eval_ctx')}; block_frame = {assigns.get('block_frame')}"
                + ("" if ok else " - the premise of the block-frame clause of C15.buffer.inv.visit_Block no longer matches the source: revise the clause"), "table")]


def emitted_markup_inventory(task, tier, seed):
    """every place where compiler.py writes `Markup` into generated code belongs to a method whose emission is under contract
    (this also covers the visitors the sweep cannot summarise: Macro, CallBlock, Template, FromImport write none)"""
    rs = []
    lits = compiler_literals("Markup")
    for qual, ln, text in lits:
        ok = qual in EMITS_MARKUP
        rs.append(Res(f"C15.buffer.inv.emitted_inventory.line{ln}", "discharged" if ok else "refuted", "ast", 0,
                      f"compiler.py:{ln} {qual} writes {text[:60]!r}: " + (EMITS_MARKUP.get(qual) or "NOT under an emission contract"), "table",
                      None if ok else {"method": qual, "line": ln, "literal": text[:120]}))
    rs.append(Res("C15.buffer.inv.emitted_inventory.count", "discharged" if len(lits) >= 6 else "refuted", "ast", 0, f"{len(lits)} literals containing Markup", "table",
                  None if len(lits) >= 6 else {"count": len(lits)}))
    return rs


class CatEmitTask(EmitTask):
    """EmitTask whose known-finding key is the set of failure categories `[cat]` of the path"""

    def finding_key(self, res):
        cats = sorted(set(re.findall(r"\[([a-z-]+:[A-Za-z_.]+)\]", res.detail or "")))
        return ",".join(cats) or "uncategorised"


def buffer_inv_tasks(replay_fn):
    tasks = []
    for nm, mode, wrap in visitors():
        if nm == "Output" or wrap is not None:
            continue
        if nm == "For":
            # the largest visitor: one task per (frame buffer, recursive flag) so that the pool can spread it
            for buf in (None, "t_buf"):
                for rec in (False, True):
                    tasks.append(CatEmitTask("C15", "C15.buffer.inv.visit_For", "jinja2.compiler:CodeGenerator.visit_For", N.For, buffer_inv_pred,
                                             mode=mode, buffers=(buf,), replay_fn=replay_fn, node_fields={"recursive": rec}))
            continue
        if nm == "Const":
            # visit_Const branches on type(value): the value is given a definite kind (a string constant); what the visitor writes is the
            # repr / hex text of the value, never code that yields, appends or wraps
            tasks.append(CatEmitTask("C15", "C15.buffer.inv.visit_Const", "jinja2.compiler:CodeGenerator.visit_Const", N.Const, buffer_inv_pred,
                                     mode=mode, buffers=(None, "t_buf"), replay_fn=replay_fn, node_fields=lambda st: {"value": sym("node.value", "str")}))
            continue
        tasks.append(CatEmitTask("C15", f"C15.buffer.inv.visit_{nm}", f"jinja2.compiler:CodeGenerator.visit_{nm}", getattr(N, nm), buffer_inv_pred,
                                 mode=mode, buffers=(None, "t_buf"), replay_fn=replay_fn))

    def one_param(st):
        return {"args": st.alloc(HList(items=[emit.make_node(st, N.Name, "node.args[0]")]), initial=True),
                "defaults": st.alloc(HList(items=[]), initial=True)}

    for cls in ("Macro", "CallBlock"):
        t = CatEmitTask("C15", f"C15.buffer.inv.macro_body.{cls}", "jinja2.compiler:CodeGenerator.macro_body", getattr(N, cls), buffer_inv_pred,
                        mode="stmts", buffers=(None,), replay_fn=replay_fn, node_fields=one_param, configure=emit_configure, min_paths=4)
        t.bound_text = "parameter list of the macro fixed to one symbolic parameter without default (body, flags symbolic)"
        tasks.append(t)
    # the call block statement itself: what it hands to the output is the value of an arbitrary call expression
    t = CatEmitTask("C15", "C15.buffer.inv.visit_CallBlock", "jinja2.compiler:CodeGenerator.visit_CallBlock", N.CallBlock, buffer_inv_pred,
                    mode="stmts", buffers=(None, "t_buf"), replay_fn=native_call_block, node_fields=one_param, configure=emit_configure, min_paths=8)
    t.bound_text = "parameter list of the call block fixed to one symbolic parameter without default (callee, body, flags symbolic)"
    tasks.append(t)
    tasks.append(CatEmitTask("C15", "C15.buffer.inv.eval_ctx_restore", "jinja2.compiler:CodeGenerator.visit_ScopedEvalContextModifier", N.ScopedEvalContextModifier,
                             eval_ctx_restore_pred, mode="stmts", buffers=(None, "t_buf"), replay_fn=native_eval_ctx_restore, min_paths=4))
    return tasks


def eval_ctx_restore_pred(sc, tree, ph, txt):
    """{% autoescape %} (ScopedEvalContextModifier): the run-time flags are saved before they are changed and reverted on EVERY way out
    of the body (normal end, break / continue of an enclosing loop, return, exception): the body runs inside try ... finally: revert."""
    if sc.outcome == "raise" or tree is None:
        return []
    fails = []
    body = list(tree.body)
    saves = [i for i, s_ in enumerate(body) if isinstance(s_, ast.Assign) and ast.unparse(s_.value) == "context.eval_ctx.save()" and isinstance(s_.targets[0], ast.Name)]
    if len(saves) != 1:
        return ["[restore-shape:ScopedEvalContextModifier] the run-time eval context is not saved exactly once"]
    saved = body[saves[0]].targets[0].id
    revert = f"context.eval_ctx.revert({saved})"
    par = emit.parents(tree)
    # every statement hole of the body must sit in a try whose finally reverts
    for n in ast.walk(tree):
        h = hole_of(n, ph)
        if h is None or h.kind != "stmt":
            continue
        p, guarded = n, False
        while p in par:
            p = par[p]
            if isinstance(p, ast.Try) and any(ast.unparse(f) == revert for f in p.finalbody) and any(n is x or n in list(ast.walk(x)) for x in p.body):
                guarded = True
        if not guarded:
            fails.append("[no-finally:ScopedEvalContextModifier] the body of the {% autoescape %} block is not inside try ... finally: "
                         f"{revert}; a {{% break %}} / {{% continue %}} (or an exception caught outside) leaves context.eval_ctx.autoescape changed for the rest of the render")
    reverts = [n for n in ast.walk(tree) if isinstance(n, ast.Expr) and ast.unparse(n) == revert]
    if not reverts:
        fails.append("[restore-shape:ScopedEvalContextModifier] the saved eval context is never reverted")
    # the modification happens after the save
    for i, s_ in enumerate(body):
        if isinstance(s_, ast.Assign) and ast.unparse(s_.targets[0]).startswith("context.eval_ctx.") and i < saves[0]:
            fails.append("[restore-shape:ScopedEvalContextModifier] the eval context is modified before it is saved")
    return fails


def native_call_block(w=None):
    """hunt/h/C15_1: the callee of {% call %} is any call expression; its value is output"""
    from jinja2 import Environment
    problems = []
    v = '<script>alert("x")</script>\'&'
    srcs = ["{% call v.format() %}{% endcall %}", "{% call \"<b class='l'>\".format() %}{% endcall %}", "{% set y %}{% call v.format() %}{% endcall %}{% endset %}{{ y }}",
            "{% macro m() %}{% call v.format() %}{% endcall %}{% endmacro %}{{ m() }}", "{% macro m() %}{{ caller() }}{% endmacro %}{% call m() %}{{ v }}{% endcall %}"]
    for mode, pre, post in (("static", "", ""), ("block", "{% autoescape true %}", "{% endautoescape %}"), ("volatile", "{% autoescape x %}", "{% endautoescape %}")):
        env = Environment(autoescape=(mode == "static"))
        for src in srcs:
            try:
                out = env.from_string(pre + src + post).render(v=v, x=True)
            except Exception as ex:
                problems.append(f"{src}: {type(ex).__name__}: {ex}")
                continue
            if leaks(out):
                problems.append(f"Environment(autoescape={mode == 'static'}).from_string({pre + src + post!r}).render(v={v!r}) == {out!r}: raw {leaks(out)}")
    return (bool(problems), "; ".join(problems[:3]) or "call blocks with macro and non-macro callees: nothing raw in the output")


def native_eval_ctx_restore(w=None):
    """hunt/h/C15_3 and C16_1: break / continue out of an {% autoescape false %} block"""
    import html
    from jinja2 import Environment
    problems = []
    v = '<script>alert(1)</script>"\''
    for kw in ("break", "continue"):
        env = Environment(autoescape=True, extensions=["jinja2.ext.loopcontrols"])
        pre = "{% for i in [1] %}{% autoescape false %}{% " + kw + " %}{% endautoescape %}{% endfor %}"
        for body in ("{{ v }}", "{{ v ~ v }}", "{% macro m(x) %}{{ x }}{% endmacro %}{{ m(v) }}", "{% filter upper %}{{ v }}{% endfilter %}"):
            out = env.from_string("{% autoescape flag %}" + pre + body + "{% endautoescape %}").render(v=v, flag=True)
            if leaks(out):
                problems.append(f"{{% autoescape flag %}}{pre}{body}{{% endautoescape %}} (flag=True) renders {out!r}: raw {leaks(out)} where autoescaping is on")
        for body in ("{% macro m(x) %}{{ x }}{% endmacro %}{{ m(v) }}", "{% set x %}{{ v }}{% endset %}{{ x }}", "{% block b %}{{ v }}{% endblock %}|{{ self.b() }}"):
            outs = {}
            for ae in (True, False):
                e2 = Environment(autoescape=ae, extensions=["jinja2.ext.loopcontrols"])
                outs[ae] = e2.from_string(pre + body).render(v='<v> & "q"')
            if html.unescape(outs[True]) != outs[False]:
                problems.append(f"{pre}{body}: on renders {outs[True]!r}; unescaped once != off {outs[False]!r} (escaped twice: the run-time flag stayed False)")
    return (bool(problems), "; ".join(problems[:3]) or "break / continue out of an autoescape block: the flag is restored")


# =====================================================================================================
# Ghost-tag algebra for run-time functions (sinks and filters)
# =====================================================================================================
# A value is an opaque atom with ghost tags
#   text     it is a string-like value            markup   its type is Markup (has __html__)
#   taint    it contains characters of an UNTAGGED source (context data / template literal) that did not go
#            through escape()            html_safe(x)  :=  not taint(x)
# Dependency specs (MarkupSafe documentation):
#   escape(x)            x if markup(x) else a fresh markup atom without taint
#   Markup(x)            SINK: the same text typed Markup (taint kept) - recorded as event `sink`
#   soft_str(x) = x ; str(x) = the same text as plain str
#   m.join(xs), m.replace(a, b), m + x, x + m, m % xs, m.format(xs)   with markup(m): markup; operands that are not
#                        markup are escaped, so only taint of MARKUP operands survives
#   p.join(xs), p.replace(..), p + x (both plain), p % xs, f-strings   plain; taint of every operand survives
#   slices, splitlines, strip, lower/upper/...      pieces with the receiver's tags;  striptags()/unescape(): plain str


def atom(name, markup=False, taint=False, extra=()):
    tags = {"text"} | set(extra)
    if markup:
        tags.add("markup")
    if taint:
        tags.add("taint")
    return fresh(name, "obj", tags)


def is_text(v):
    return isinstance(v, str) or (isinstance(v, Sym) and "text" in v.tags)


def is_markup(v):
    return isinstance(v, Sym) and "markup" in v.tags


def tainted(v):
    return isinstance(v, Sym) and "taint" in v.tags


def combine(name, recv_markup, parts):
    parts = [x for x in parts if is_text(x)]
    if recv_markup:
        t = any(tainted(x) for x in parts if is_markup(x))
    else:
        t = any(tainted(x) for x in parts)
    return atom(name, recv_markup, t)


def kind_atom(name, kind):
    """'M' a Markup value (trusted, tagged), 'P' a plain string from the context / a template literal (untagged)"""
    return atom(name, kind == "M", kind == "P")


def install_flow(I, nlines=2):
    import typing
    import textwrap
    import jinja2.filters as F
    import jinja2.runtime as R

    def seq_items(st, v):
        if isinstance(v, Ref):
            h = st.get(v)
            if isinstance(h, HList) and h.concrete:
                return list(h.items)
            if isinstance(h, HDict) and h.concrete:
                return list(h.items.values())
            raise Unsupported("flow algebra: abstract sequence operand")
        if isinstance(v, (tuple, list)):
            return list(v)
        return [v]

    def add(I_, st, args, kwargs, node):
        a, b = args
        if not (is_text(a) and is_text(b)):
            return None
        return [(st, combine("cat", is_markup(a) or is_markup(b), [a, b]))]

    I.specs[("binop", ast.Add)] = add

    def mod(I_, st, args, kwargs, node):
        a, b = args
        if not is_text(a):
            return None
        return [(st, combine("fmt", is_markup(a), [a] + seq_items(st, b)))]

    I.specs[("binop", ast.Mod)] = mod

    def mult(I_, st, args, kwargs, node):
        a, b = args
        if isinstance(a, str) and isinstance(b, Sym) and b.k == "int":
            return [(st, atom("repeated_literal"))]
        return None

    I.specs[("binop", ast.Mult)] = mult

    def method(I_, st, recv, name, margs, node):
        if name == "join":
            items = seq_items(st, margs[0])
            return [(st, combine("joined", is_markup(recv), ([recv] if len(items) >= 2 else []) + items))]
        if name == "replace":
            return [(st, combine("replaced", is_markup(recv), [recv] + list(margs[:2])))]
        if name == "format":
            return [(st, combine("formatted", is_markup(recv), [recv] + list(margs)))]
        if name == "splitlines":
            return [(st, st.alloc(HList(items=[atom(f"line{i}", is_markup(recv), tainted(recv)) for i in range(nlines)])))]
        if name in ("rsplit", "split"):
            out = []
            for k in (1, 2):
                s1 = st.fork()
                out.append((s1, s1.alloc(HList(items=[atom(f"part{i}", is_markup(recv), tainted(recv)) for i in range(k)]))))
            return out
        if name in ("strip", "lstrip", "rstrip", "lower", "upper", "capitalize", "title", "center", "ljust", "rjust", "swapcase", "expandtabs", "zfill"):
            # Markup overrides these to return Markup; fill characters are escaped
            return [(st, combine(name, is_markup(recv), [recv] + [a for a in margs if is_text(a)]))]
        if name in ("striptags", "unescape"):
            return [(st, atom(name, False, True if name == "unescape" else tainted(recv) or is_markup(recv)))]
        if name == "__html__" and is_markup(recv):
            return [(st, recv)]
        raise Unsupported(f"flow algebra: str.{name}", node)

    def method_obj(I_, st, args, kwargs, node):
        recv, name = args[0], args[1]
        if not is_text(recv):
            return None
        return method(I_, st, recv, name, list(args[2:]), node)

    I.specs["method_obj"] = method_obj
    for nm in ("join", "replace", "splitlines", "rsplit", "split", "strip", "format", "lower", "upper", "capitalize", "title", "center"):
        I.specs[f"str.{nm}"] = (lambda nm_: lambda I_, st, args, kwargs, node: method(I_, st, args[0], nm_, list(args[1:]), node))(nm)

    def getattr_obj(I_, st, args, kwargs, node):
        o, name = args
        if not is_text(o):
            return None
        if name == "__html__" and not is_markup(o):
            return [(st, Raised(Exc(AttributeError, ("__html__",), origin=getattr(node, "lineno", None))))]
        return [(st, BoundMethod(o, name))]

    I.specs["getattr_obj"] = getattr_obj
    prev_hook = I.attr_hook

    def attr_hook(I_, st, obj, name, node):
        if isinstance(obj, str) and name == "__html__":
            return [(st, Raised(Exc(AttributeError, ("__html__",), origin=getattr(node, "lineno", None))))]
        if isinstance(obj, Sym) and obj.k == "str" and "text" in obj.tags:
            if name == "__html__":
                return [(st, Raised(Exc(AttributeError, ("__html__",), origin=getattr(node, "lineno", None))))]
        return prev_hook(I_, st, obj, name, node) if prev_hook else None

    I.attr_hook = attr_hook

    def isinstance_obj(I_, st, args, kwargs, node):
        v, cl = args
        if not is_text(v):
            return None
        t = markupsafe.Markup if is_markup(v) else str
        cl = cl if isinstance(cl, tuple) else (cl,)
        return [(st, any(issubclass(t, c) for c in cl))]

    I.specs["isinstance_obj"] = isinstance_obj

    def nonneg(st):
        n = fresh("len", "int")
        st.assume(n.t >= 0)
        return n

    I.specs["len_obj"] = lambda I_, st, args, kwargs, node: [(st, nonneg(st))] if is_text(args[0]) else None
    I.specs["getslice_obj"] = lambda I_, st, args, kwargs, node: [(st, atom("slice", is_markup(args[0]), tainted(args[0])))] if is_text(args[0]) else None
    I.specs["str_obj"] = lambda I_, st, args, kwargs, node: [(st, atom("str", False, tainted(args[0])))] if is_text(args[0]) else None

    def markup_ctor(I_, st, args, kwargs, node):
        v = args[0] if args else ""
        if isinstance(v, Sym) and v.k == "str":
            v = Sym(v.t, "str", v.tags | {"text"})
        if not is_text(v):
            return None
        r = atom("Markup", True, tainted(v))
        st.trace.append(Event("call", "sink", [v], {}, r, lineno=getattr(node, "lineno", None)))
        return [(st, r)]

    def esc(I_, st, args, kwargs, node):
        v = args[0]
        if is_markup(v):
            return [(st, v)]
        r = atom("escaped", True, False)
        st.trace.append(Event("call", "escape", [v], {}, r, lineno=getattr(node, "lineno", None)))
        return [(st, r)]

    def soft(I_, st, args, kwargs, node):
        return [(st, args[0])]

    I.specs[("fn", id(markupsafe.Markup))] = markup_ctor
    I.specs[("fn", id(markupsafe.escape))] = esc
    I.specs[("fn", id(markupsafe.soft_str))] = soft
    I.specs[("fn", id(typing.cast))] = lambda I_, st, args, kwargs, node: [(st, args[1])]

    def wrap(I_, st, args, kwargs, node):
        line = args[0]
        out = []
        for k in (0, 1, 2):
            s1 = st.fork()
            out.append((s1, s1.alloc(HList(items=[atom(f"wrapped{i}", False, tainted(line)) for i in range(k)]))))
        return out

    I.specs[("fn", id(textwrap.wrap))] = wrap

    def map_spec(I_, st, args, kwargs, node):
        fn, it = args
        results = [(st, [])]
        for x in seq_items(st, it):
            nxt = []
            for s1, acc in results:
                if isinstance(acc, Raised):
                    nxt.append((s1, acc))
                    continue
                for s2, r in I_.call(s1, fn, [x], {}, node):
                    nxt.append((s2, r if isinstance(r, Raised) else acc + [r]))
            results = nxt
        return [(s1, acc if isinstance(acc, Raised) else tuple(acc)) for s1, acc in results]

    I.specs[("fn", id(map))] = map_spec
    I.specs[("fn", id(enumerate))] = lambda I_, st, args, kwargs, node: [(st, tuple((i, x) for i, x in enumerate(seq_items(st, args[0]))))]

    # f-strings: plain concatenation of literal text and str() of the values
    def concat_strs(pieces):
        if all(isinstance(p, str) for p in pieces):
            return "".join(pieces)
        return combine("fstring", False, [p for p in pieces if not isinstance(p, str)])

    I.concat_strs = concat_strs


def sinks(out, lineno=None):
    return [e for e in out.st.trace if e.kind == "call" and e.name == "sink" and (lineno is None or e.lineno == lineno)]


# =====================================================================================================
# C15.sink.<site> / C15.filter.<name> : the real functions under the ghost-tag algebra
# =====================================================================================================

class _Policies:
    pass


class _KeyMatch:
    """a match object of _attr_key_re (opaque)"""


def _attr_key_search_stub(key):
    raise RuntimeError("abstract")


def _urlize_stub(*a, **k):
    raise RuntimeError("abstract")


MC = ("<", ">", "&", "'")


def flow_env(st, policies=None):
    from jinja2.nodes import EvalContext
    pol = {"urlize.rel": "noopener", "urlize.target": None, "urlize.extra_schemes": None, "truncate.leeway": 0,
           "json.dumps_function": sym("policy_dumps", "obj", tags={"dumps"}), "json.dumps_kwargs": st.alloc(HDict(items={"sort_keys": True}), initial=True)}
    pol.update(policies or {})
    env = A.obj(st, jinja2.Environment, "env", fields={"policies": st.alloc(HDict(items=pol), initial=True), "newline_sequence": "\n"})
    ae = sym("autoescape", "bool")
    ctx = A.obj(st, EvalContext, "eval_ctx", fields={"autoescape": ae, "environment": env, "volatile": False})
    return env, ctx, ae


def _filter_target(name):
    import jinja2.filters as F
    return {"join": "jinja2.filters:sync_do_join", "safe": "jinja2.filters:do_mark_safe"}.get(name, f"jinja2.filters:do_{name}")


def flow_configs(subject):
    MP = ("M", "P")
    if subject in ("forceescape", "striptags", "upper", "lower", "capitalize", "trim", "center", "title", "urlize", "tojson", "wordcount"):
        return [{"s": k} for k in MP]
    if subject == "indent":
        return [{"s": a, "width": w} for a in MP for w in ("M", "P", "int")]
    if subject == "replace":
        return [{"s": a, "old": o, "new": n} for a in MP for o in MP for n in MP]
    if subject == "join":
        return [{"d": d, "items": "".join(it)} for d in MP for it in ((), ("P",), ("M",), ("P", "M"), ("M", "P"), ("P", "P"))]
    if subject == "format":
        return [{"s": a, "args": "".join(x), "mode": m} for a in MP for x in (("P",), ("M",), ("P", "M")) for m in ("args", "kwargs")]
    if subject == "xmlattr":
        return [{"keys": "PP", "values": v} for v in ("PP", "PM", "MP")]
    if subject in ("gettext", "ngettext", "pgettext", "npgettext"):
        return [{"vars": v} for v in ("", "P", "M", "PM")]
    raise AssertionError(subject)


def cfg_key(cfg):
    return ",".join(f"{k}={cfg[k]}" for k in sorted(cfg))


class FlowVC(VC):
    """One configuration (which operands are Markup / plain untagged strings) of one real function."""

    def __init__(self, prop, name, subject, cfg, clause):
        self.subject, self.cfg, self.clause = subject, cfg, clause
        self.target = _filter_target(subject) if subject not in GETTEXT else f"jinja2.ext:_make_new_{subject}"
        self.flags = {}
        VC.__init__(self, prop, name)
        self.posts = [(clause, {"sink_argument_tagged": FlowVC.p_sink, "markup_preserved": FlowVC.p_preserved}.get(clause, FlowVC.p_result))]

    def closure(self, I):
        if self.subject in GETTEXT:
            from pyvc import extract
            from pyvc.values import Closure
            node, module = extract.nested_function_ast(self.target, self.subject)
            # the free variable `func` of the closure is the application's translation callable
            st_cell = getattr(self, "_func_cell", None)
            c = Closure(node, module, [], f"_make_new_{self.subject}.<locals>.{self.subject}")
            return c
        return VC.closure(self, I)

    def configure(self, I):
        import jinja2.filters as F
        import jinja2.utils as U
        import typing
        install_flow(I, 2)

        def attr_hook_extra(prev):
            def hook(I_, st, obj, name, node):
                if obj is F._attr_key_re and name == "search":
                    return [(st, _attr_key_search_stub)]
                if obj is F._word_beginning_split_re and name == "split":
                    return [(st, _word_split_stub)]
                return prev(I_, st, obj, name, node) if prev else None
            return hook

        I.attr_hook = attr_hook_extra(I.attr_hook)

        def search(I_, st, args, kwargs, node):
            s2 = st.fork()
            return [(st, None), (s2, s2.alloc(HObj(_KeyMatch)))]

        I.specs[("fn", id(_attr_key_search_stub))] = search

        def word_split(I_, st, args, kwargs, node):
            x = args[0]
            # re.split returns plain str pieces of the subject
            return [(st, st.alloc(HList(items=[atom(f"word{i}", False, tainted(x)) for i in range(2)])))]

        I.specs[("fn", id(_word_split_stub))] = word_split
        I.specs["getitem_obj"] = lambda I_, st, args, kwargs, node: [(st, atom("char", is_markup(args[0]), tainted(args[0])))] if is_text(args[0]) else None

        def urlize_spec(I_, st, args, kwargs, node):
            # dependency: utils.urlize returns escape(text) with generated anchors (C15.sink.utils.urlize, C24.bounded.urlize)
            r = atom("urlized", False, False, extra={"urlize_result"})
            st.trace.append(Event("call", "urlize", args, kwargs, r))
            return [(st, r)]

        I.specs[("fn", id(U.urlize))] = urlize_spec

        def call_obj(I_, st, args, kwargs, node):
            fn = args[0]
            if isinstance(fn, Sym) and "dumps" in fn.tags:
                r = atom("dumped", False, True, extra={"mc:" + c for c in MC})
                st.trace.append(Event("call", "dumps", args[1:], kwargs, r))
                return [(st, r)]
            if isinstance(fn, Sym) and "translate" in fn.tags:
                r = atom("translated", False, False, extra={"translation"})
                st.trace.append(Event("call", "translate", args[1:], kwargs, r))
                return [(st, r)]
            return None

        I.specs["call_obj"] = call_obj
        import json
        I.specs[("fn", id(json.dumps))] = lambda I_, st, args, kwargs, node: call_obj(I_, st, [sym("json.dumps", "obj", tags={"dumps"})] + list(args), kwargs, node)

        def context_call(I_, st, args, kwargs, node):
            return I_.call(st, args[1], list(args[2:]), kwargs, node)

        I.specs["Context.call"] = context_call
        I.inline.add("jinja2.utils:htmlsafe_json_dumps")

        def sorted_spec(I_, st, args, kwargs, node):
            items = list(I_.iter_concrete(st, args[0], node))
            if all(isinstance(x, str) for x in items) and not kwargs:
                return [(st, st.alloc(HList(items=sorted(items))))]
            raise Unsupported("sorted() of symbolic items", node)

        I.specs[("fn", id(sorted))] = sorted_spec
        # str.replace on a value whose taint is confined to known metacharacters (JSON text): removing each one clears it
        base_replace = I.specs["str.replace"]

        def replace_mc(I_, st, args, kwargs, node):
            recv = args[0]
            mcs = {t for t in getattr(recv, "tags", ()) if t.startswith("mc:")}
            if mcs and isinstance(args[1], str) and isinstance(args[2], str) and not any(c in args[2] for c in MC + ('"',)):
                left = mcs - {"mc:" + args[1]}
                return [(st, atom("json_replaced", False, bool(left), extra=left))]
            return base_replace(I_, st, args, kwargs, node)

        I.specs["str.replace"] = replace_mc
        base_method_obj = I.specs["method_obj"]

        def method_obj(I_, st, args, kwargs, node):
            if args[1] == "replace" and is_text(args[0]) and any(t.startswith("mc:") for t in args[0].tags):
                return replace_mc(I_, st, [args[0]] + list(args[2:]), kwargs, node)
            return base_method_obj(I_, st, args, kwargs, node)

        I.specs["method_obj"] = method_obj

    def setup(self, I, st):
        c, f = self.cfg, self.subject
        env, ctx, ae = flow_env(st)
        self.flags = {"autoescape": ae}
        if f in ("forceescape", "striptags", "upper", "lower", "capitalize", "trim", "title", "wordcount"):
            return [kind_atom("value", c["s"])], {}
        if f == "center":
            return [kind_atom("value", c["s"]), 20], {}
        if f == "indent":
            self.flags.update(first=sym("first", "bool"), blank=sym("blank", "bool"))
            width = 4 if c["width"] == "int" else kind_atom("width", c["width"])
            return [kind_atom("s", c["s"]), width, self.flags["first"], self.flags["blank"]], {}
        if f == "replace":
            return [ctx, kind_atom("s", c["s"]), kind_atom("old", c["old"]), kind_atom("new", c["new"]), None], {}
        if f == "join":
            items = st.alloc(HList(items=[kind_atom(f"item{i}", k) for i, k in enumerate(c["items"])]), initial=True)
            return [ctx, items, kind_atom("d", c["d"])], {}
        if f == "format":
            vals = [kind_atom(f"arg{i}", k) for i, k in enumerate(c["args"])]
            if c["mode"] == "args":
                return [kind_atom("value", c["s"])] + vals, {}
            return [kind_atom("value", c["s"])], {f"k{i}": v for i, v in enumerate(vals)}
        if f == "xmlattr":
            self.flags.update(autospace=sym("autospace", "bool"))
            d = {kind_atom(f"key{i}", k): kind_atom(f"value{i}", v) for i, (k, v) in enumerate(zip(c["keys"], c["values"]))}
            return [ctx, st.alloc(HDict(items=d), initial=True), self.flags["autospace"]], {}
        if f == "urlize":
            return [ctx, kind_atom("value", c["s"]), None, False, None, None, None], {}
        if f == "tojson":
            return [ctx, kind_atom("value", c["s"]), None], {}
        if f in GETTEXT:
            from jinja2.runtime import Context
            context = A.obj(st, Context, "context", fields={"eval_ctx": ctx, "environment": env})
            func = sym("translation_func", "obj", tags={"translate"})
            variables = st.alloc(HDict(items={f"v{i}": kind_atom(f"v{i}", k) for i, k in enumerate(c["vars"])}), initial=True)
            lit = lambda nm: atom(nm, False, False, extra={"msgid"})  # message ids are template text
            loc = {"func": func, "_Context__context": context, "variables": variables}
            names = {"gettext": ["__string"], "ngettext": ["__singular", "__plural", "__num"], "pgettext": ["__string_ctx", "__string"],
                     "npgettext": ["__string_ctx", "__singular", "__plural", "__num"]}[f]
            for nm in names:
                loc[nm] = sym("num", "int") if nm == "__num" else lit(nm.strip("_"))
            loc["__context"] = context
            return "locals", loc
        raise AssertionError(f)

    # ---- postconditions
    def p_sink(self, pre, out):
        """every value handed to Markup() is tagged, unless the Markup object is only a scratch value
        (the function's result is not an untagged Markup)"""
        if out.raised:
            return None
        self.n_sinks = getattr(self, "n_sinks", 0) + len(sinks(out))
        bad = [e for e in sinks(out) if tainted(e.args[0])]
        if not bad:
            return True
        self._bad_line = bad[0].lineno
        return not (is_markup(out.value) and tainted(out.value))

    def p_preserved(self, pre, out):
        """C16: under autoescape a result that is built from a Markup piece is Markup (otherwise the already escaped piece is
        escaped again by the Output that receives the plain string)"""
        if out.raised:
            return None
        c = self.cfg
        if self.subject == "join":
            relevant = "M" in c["items"] or (c["d"] == "M" and len(c["items"]) >= 2)
        elif self.subject == "replace":
            relevant = c["s"] == "M" or c["new"] == "M"
        else:
            relevant = "M" in "".join(str(v) for v in c.values())
        if not relevant:
            return None
        return z3.Implies(self.flags["autoescape"].t, z3.BoolVal(is_markup(out.value)))

    def p_result(self, pre, out):
        """a Markup result contains no untagged operand"""
        if out.raised:
            return None
        return not (is_markup(out.value) and tainted(out.value))

    def describe(self, out):
        return (f"{self.subject} {cfg_key(self.cfg)}: " + ("Markup() is applied to an untagged value that reaches the result" if self.clause == "sink_argument_tagged"
                else "under autoescape the result is a plain str although it is built from a Markup operand (it will be escaped a second time)" if self.clause == "markup_preserved"
                else "the result is Markup and contains an untagged plain operand unescaped") + "; " + VC.describe(self, out))

    def concretize(self, model, pre, out):
        from pyvc.smt import model_value
        w = {"subject": self.subject, "cfg": self.cfg}
        for k, v in self.flags.items():
            try:
                w[k] = bool(model_value(model, v.t))
            except Exception:
                w[k] = False
        return w


def _word_split_stub(s):
    raise RuntimeError("abstract")


GETTEXT = ("gettext", "ngettext", "pgettext", "npgettext")


class FlowTask(VC):
    """all operand configurations of one function under one clause"""
    kind = "vc"

    def __init__(self, prop, name, subject, clause):
        self.subject, self.clause = subject, clause
        self.target = _filter_target(subject) if subject not in GETTEXT else f"jinja2.ext:_make_new_{subject}"
        VC.__init__(self, prop, name)

    def run(self, tier, seed):
        rs = []
        n_sinks = 0
        for ci, cfg in enumerate(flow_configs(self.subject)):
            vc = FlowVC(self.prop, self.name, self.subject, cfg, self.clause)
            for r in vc.run(tier, seed):
                if self.clause == "markup_preserved" and r.name.endswith(".no_obligations"):
                    continue  # configuration without a Markup operand in the result: the clause does not apply
                r.name = re.sub(r"#p(\d+)$", lambda m: f"#p{ci * 100 + int(m.group(1))}", r.name)
                rs.append(r)
            n_sinks += getattr(vc, "n_sinks", 0)
        if self.clause == "sink_argument_tagged" and n_sinks == 0:
            rs.append(Res(self.name + ".site_reached", "error", "pyvc", 0, "no path of the function reaches a Markup() call: the sink obligation is vacuous", self.kind))
        return rs

    def finding_key(self, res):
        w = res.witness or {}
        if self.clause == "markup_preserved" and self.subject == "format" and "cfg" in w:
            return "plain-format-string,markup-argument" if w["cfg"]["s"] == "P" else cfg_key(w["cfg"])
        return cfg_key(w["cfg"]) if "cfg" in w else "no-witness"

    def replay(self, w):
        if self.clause == "markup_preserved":
            return native_markup_preserved(w)
        return native_flow(w)


def native_markup_preserved(w):
    """under autoescape the real join / replace filters return Markup when an operand that ends up in the result is Markup"""
    import jinja2.filters as F
    from jinja2.nodes import EvalContext
    from markupsafe import Markup
    ctx = EvalContext(jinja2.Environment())
    ctx.autoescape = True
    f, c = w["subject"], w["cfg"]
    mk = lambda k, t: Markup(t) if k == "M" else t
    if f == "join":
        r = F.sync_do_join(ctx, [mk(k, "&lt;i%d&gt;" % i) for i, k in enumerate(c["items"])], mk(c["d"], "&amp;"))
    elif f == "replace":
        r = F.do_replace(ctx, mk(c["s"], "&lt;s&gt; x"), mk(c["old"], "x"), mk(c["new"], "&lt;n&gt;"))
    elif f == "format":
        vals = [mk(k, "&lt;a%d&gt;" % i) for i, k in enumerate(c["args"])]
        if c["mode"] == "args":
            r = F.do_format(mk(c["s"], "[" + "%s" * len(vals) + "]"), *vals)
        else:
            r = F.do_format(mk(c["s"], "[" + "".join(f"%(k{i})s" for i in range(len(vals))) + "]"), **{f"k{i}": v for i, v in enumerate(vals)})
    else:
        return (None, f"no native replay for {f}")
    bad = not hasattr(r, "__html__")
    return (bad, f"{f} {cfg_key(c)} under autoescape returns {r!r}" + (": a plain str built from a Markup operand" if bad else ""))


SINK_SUBJECTS = {  # function with a Markup( call site  ->  obligation suffix
    "xmlattr": "filters.do_xmlattr", "urlize": "filters.do_urlize", "indent": "filters.do_indent", "striptags": "filters.do_striptags",
    "tojson": "utils.htmlsafe_json_dumps",
    "gettext": "ext.gettext", "ngettext": "ext.ngettext", "pgettext": "ext.pgettext", "npgettext": "ext.npgettext",
}
FILTER_SUBJECTS = ["forceescape", "replace", "join", "indent", "format", "xmlattr", "urlize", "tojson", "striptags",
                   "upper", "lower", "capitalize", "trim", "center", "title"]


def flow_tasks():
    ts = [FlowTask("C15", f"C15.sink.{site}", subj, "sink_argument_tagged") for subj, site in SINK_SUBJECTS.items()]
    ts += [FlowTask("C15", f"C15.filter.{subj}", subj, "markup_result_tagged") for subj in FILTER_SUBJECTS]
    return ts


def native_flow(w):
    """Native oracle: call the real function with Markup / plain marker operands; when it returns Markup no plain
    marker may occur in it unescaped."""
    import jinja2.filters as F
    import jinja2.ext as X
    from jinja2.nodes import EvalContext
    from markupsafe import Markup
    f, c = w["subject"], w["cfg"]
    env = jinja2.Environment()
    plain = []

    def val(kind, marker, body=None):
        text = marker if body is None else body
        if kind == "P":
            plain.append(marker)
            return text
        return Markup(text.replace("<", "[").replace(">", "]"))

    ctx = EvalContext(env)
    ctx.autoescape = bool(w.get("autoescape", True))
    if f in ("forceescape", "striptags", "upper", "lower", "capitalize", "trim", "title", "wordcount"):
        r = getattr(F, "do_" + f)(val(c["s"], "<s>"))
    elif f == "center":
        r = F.do_center(val(c["s"], "<s>"), 20)
    elif f == "indent":
        width = 4 if c["width"] == "int" else val(c["width"], "<w>")
        r = F.do_indent(val(c["s"], "<s>", "<s>\n\n<s> x"), width, w.get("first", False), w.get("blank", False))
    elif f == "replace":
        r = F.do_replace(ctx, val(c["s"], "<s>", "<s> and <s>"), val(c["old"], "<s>"), val(c["new"], "<n>"))
    elif f == "join":
        r = F.sync_do_join(ctx, [val(k, "<i%d>" % i) for i, k in enumerate(c["items"])], val(c["d"], "<d>"))
    elif f == "format":
        vals = [val(k, "<a%d>" % i) for i, k in enumerate(c["args"])]
        if c["mode"] == "args":
            r = F.do_format(val(c["s"], "<s>", "<s>" + " %s" * len(vals)), *vals)
        else:
            r = F.do_format(val(c["s"], "<s>", "<s>" + "".join(f" %(k{i})s" for i in range(len(vals)))), **{f"k{i}": v for i, v in enumerate(vals)})
    elif f == "xmlattr":
        d = {("k%d" % i if k == "P" else Markup("m%d" % i)): val(v, "<v%d>" % i) for i, (k, v) in enumerate(zip(c["keys"], c["values"]))}
        r = F.do_xmlattr(ctx, d, w.get("autospace", True))
    elif f == "urlize":
        r = F.do_urlize(ctx, val(c["s"], "<s>", "see http://a.aa/<s> now"))
    elif f == "tojson":
        r = F.do_tojson(ctx, val(c["s"], "<s>", "<s>&'"))
        plain[:] = [m for m in ("<", ">", "&", "'")]
    elif f in GETTEXT:
        import jinja2.runtime as R
        context = R.new_context(env, None, {}, {})
        context.eval_ctx.autoescape = ctx.autoescape
        variables = {f"v{i}": val(k, "<v%d>" % i) for i, k in enumerate(c["vars"])}
        fmt = "msg" + "".join(f" %(v{i})s" for i in range(len(c["vars"])))
        if f == "gettext":
            r = X._make_new_gettext(lambda s: s)(context, fmt, **variables)
        elif f == "ngettext":
            r = X._make_new_ngettext(lambda s, p, n: s if n == 1 else p)(context, fmt, fmt, 2, **variables)
        elif f == "pgettext":
            r = X._make_new_pgettext(lambda c_, s: s)(context, "ctx", fmt, **variables)
        else:
            r = X._make_new_npgettext(lambda c_, s, p, n: p)(context, "ctx", fmt, fmt, 2, **variables)
    else:
        return (None, f"no native replay for {f}")
    if not hasattr(r, "__html__"):
        return (False, f"{f} {cfg_key(c)}: result {r!r} is a plain str (escaped on output)")
    leaked = [m for m in plain if m in str(r)]
    return (bool(leaked), f"{f} {cfg_key(c)} {({k: v for k, v in w.items() if k not in ('subject', 'cfg')})}: result {r!r} is Markup and contains {leaked} unescaped")


# =====================================================================================================
# Run-time wrappers: Macro._invoke, BlockReference.__call__, TemplateModule.__html__/__str__
# =====================================================================================================

GENERATED = "generated_output"  # the text produced by generated code: pieces satisfy C15.output.wrap / C15.buffer.inv


class WrapperVC(VC):
    """The wrappers that turn the output of generated code into a value.
    C15 clause (sink): the argument of Markup() is exactly the concatenated output of the generated function
    (nothing else is mixed in).  C16 clause: the value is Markup exactly when the autoescape flag of the call is on,
    and is the unchanged text otherwise."""

    SITES = {
        "Macro._invoke": "jinja2.runtime:Macro._invoke",
        "Macro._async_invoke": "jinja2.runtime:Macro._async_invoke",
        "BlockReference.__call__": "jinja2.runtime:BlockReference.__call__",
        "BlockReference._async_call": "jinja2.runtime:BlockReference._async_call",
        "TemplateModule.__html__": "jinja2.environment:TemplateModule.__html__",
        "TemplateModule.__str__": "jinja2.environment:TemplateModule.__str__",
    }

    def __init__(self, prop, name, which, clauses):
        self.which = which
        self.target = self.SITES[which]
        VC.__init__(self, prop, name)
        self.posts = [(c, getattr(WrapperVC, "p_" + c)) for c in clauses]

    def configure(self, I):
        import jinja2.utils as U
        install_flow(I, 1)
        I.inline.add("jinja2.runtime:Macro._async_invoke")
        I.inline.add("jinja2.runtime:BlockReference._async_call")

        def call_obj(I_, st, args, kwargs, node):
            fn = args[0]
            if isinstance(fn, Sym) and "generated_func" in fn.tags:
                r = atom("rendered", False, False, extra={GENERATED})
                st.trace.append(Event("call", "generated_func", args[1:], kwargs, r))
                return [(st, r)]
            if isinstance(fn, Sym) and "concat_fn" in fn.tags:
                return concat_spec(I_, st, args[1:], kwargs, node)
            return None

        def concat_spec(I_, st, args, kwargs, node):
            a = args[0]
            if isinstance(a, Ref):
                items = list(I_.iter_concrete(st, a, node))
            else:
                items = [a]
            ok = all(isinstance(x, Sym) and GENERATED in x.tags for x in items)
            r = atom("concatenated", False, any(tainted(x) for x in items), extra={GENERATED} if ok else ())
            st.trace.append(Event("call", "concat", [items], {}, r))
            return [(st, r)]

        I.specs["call_obj"] = call_obj
        I.specs[("fn", id(U.concat))] = concat_spec

        def comp_abstract(I_, e, g, st, cfr, itv, elt_fn):
            # [x async for x in <generated stream>]: the list of the stream's pieces
            if isinstance(itv, Sym) and GENERATED in itv.tags:
                return [(st, st.alloc(HList(items=[itv])))]
            return None

        I.specs["comp_abstract"] = comp_abstract

    def setup(self, I, st):
        import jinja2.runtime as R
        import jinja2.environment as E
        self.is_async = sym("environment.is_async", "bool")
        self.flag = sym("autoescape", "bool")
        # ghost: the autoescape flag under which the generated function produced (escaped or not) its pieces;
        # its output is html_safe exactly when this flag was on (C15.output.wrap / C15.buffer.inv)
        self.producer = sym("producer.autoescape", "bool")
        env = A.obj(st, jinja2.Environment, "env", fields={"is_async": self.is_async, "concat": sym("environment.concat", "obj", tags={"concat_fn"})})
        func = sym("generated_function", "obj", tags={"generated_func"})
        w = self.which
        if w.startswith("Macro."):
            if w == "Macro._async_invoke":
                st.assume(self.is_async.t)
            m = A.obj(st, R.Macro, "macro", fields={"_environment": env, "_func": func, "name": "m"})
            args = st.alloc(HList(items=[kind_atom("argument", "P")]), initial=True)
            return [m, args, self.flag], {}
        if w.startswith("BlockReference."):
            from jinja2.nodes import EvalContext
            if w == "BlockReference._async_call":
                st.assume(self.is_async.t)
            ctx = A.obj(st, EvalContext, "eval_ctx", fields={"autoescape": self.flag, "environment": env})
            context = A.obj(st, R.Context, "context", fields={"eval_ctx": ctx, "environment": env})
            br = A.obj(st, R.BlockReference, "block", fields={"_context": context, "_stack": st.alloc(HList(items=[func]), initial=True), "_depth": 0, "name": "b"})
            return [br], {}
        tm = A.obj(st, E.TemplateModule, "module", fields={"_escaped": self.producer, "_body_stream": st.alloc(HList(items=[atom("piece0", False, False, extra={GENERATED}), atom("piece1", False, False, extra={GENERATED})]), initial=True)})
        return [tm], {}

    # -- C15
    def p_sink_argument_is_generated_output(self, pre, out):
        if out.raised:
            return False
        for e in sinks(out):
            a = e.args[0]
            if not (isinstance(a, Sym) and GENERATED in a.tags) or tainted(a):
                return False
        return True

    def p_sink_only_when_producer_escaped(self, pre, out):
        """Markup() is applied to the generated output only on paths where the flag that governed its production was on:
        the wrapper must decide by the producer's flag, not by an unrelated one (the caller's run-time flag, or none at all)"""
        if out.raised:
            return False
        if not sinks(out):
            return True
        return self.producer.t

    # -- C16
    def p_markup_iff_autoescape(self, pre, out):
        if out.raised:
            return False
        v = out.value
        if not (isinstance(v, Sym) and "text" in v.tags):
            return False
        if self.which == "TemplateModule.__html__":
            return is_markup(v)
        if self.which == "TemplateModule.__str__":
            # consistent with __html__: the string form keeps the information that the body is already escaped
            return z3.BoolVal(is_markup(v)) == self.producer.t
        m = z3.BoolVal(is_markup(v))
        return m == self.flag.t

    def p_text_is_generated_output_once(self, pre, out):
        """the value's text is the generated function's output, produced by ONE call of it, with no escape() applied"""
        if out.raised:
            return False
        calls = [e for e in out.st.trace if e.kind == "call" and e.name == "generated_func"]
        escapes = [e for e in out.st.trace if e.kind == "call" and e.name == "escape"]
        if self.which.startswith("TemplateModule"):
            if calls or len(escapes) > 1:
                return False
            # escaping the body is right exactly when the module's template did not escape it
            return z3.Not(self.producer.t) if escapes else True
        if escapes:
            return False
        if len(calls) != 1:
            return False
        v = out.value
        if is_markup(v):
            ss = sinks(out)
            return len(ss) == 1 and ss[0].result is v and GENERATED in ss[0].args[0].tags
        return isinstance(v, Sym) and GENERATED in v.tags

    def concretize(self, model, pre, out):
        from pyvc.smt import model_value
        return {"wrapper": self.which, "autoescape": bool(model_value(model, self.flag.t)), "is_async": bool(model_value(model, self.is_async.t)),
                "producer": bool(model_value(model, self.producer.t))}

    def finding_key(self, res):
        w = res.witness or {}
        if not w:
            return "no-witness"
        if str(w.get("wrapper", "")).startswith("TemplateModule"):
            return f"{w.get('wrapper')}:producer={w.get('producer')}"  # no flag of a call takes part
        return f"{w.get('wrapper')}:call={w.get('autoescape')},producer={w.get('producer')}"

    def replay(self, w):
        if isinstance(w, dict) and w.get("autoescape") != w.get("producer") or (isinstance(w, dict) and str(w.get("wrapper", "")).startswith("TemplateModule")):
            return native_mixed_flags(w)
        return native_wrappers(w)


def native_wrappers(w=None):
    """Render macros / call blocks / super() / self.block() / set blocks / imported modules with metacharacter data,
    autoescape on (statically and by block) and off, sync and async: no raw metacharacter when on; unescape(on) == off."""
    import asyncio
    import html
    from jinja2 import Environment, DictLoader
    problems = []
    lib = {"lib": "{% macro lm(x) %}[{{ x }}]{% endmacro %}{% set exported %}<{{ 1 }}>{% endset %}",
           "base": "{% block b %}B{{ v }}{% endblock %}|{{ self.b() }}",
           "mod": "M{{ v }}"}
    srcs = ["{% macro m(x) %}({{ x }}){% endmacro %}{{ m(v) }}{{ m(m(v)) }}",
            "{% macro m() %}{{ caller() }}{% endmacro %}{% call m() %}{{ v }}{% endcall %}",
            "{% macro m() %}{{ caller(v) }}{% endmacro %}{% call(y) m() %}{{ y }}{{ v }}{% endcall %}",
            "{% extends 'base' %}{% block b %}{{ super() }}{{ v }}{% endblock %}",
            "{% block c %}{{ v }}{% endblock %}{{ self.c() }}",
            "{% set x %}{{ v }}{% endset %}{{ x }}{% set y %}{{ x }}{% endset %}{{ y }}",
            "{% import 'lib' as l %}{{ l.lm(v) }}{% from 'lib' import lm %}{{ lm(v) }}",
            "{% import 'mod' as mo with context %}{{ mo }}",
            "{% for x in [[v]] recursive %}{% if x is string %}{{ x }}{% else %}{{ loop(x) }}{% endif %}{% endfor %}",
            "{% filter upper %}{{ v }}{% endfilter %}"]
    for is_async in (False, True):
        for src in srcs:
            outs = {}
            for ae in (True, False):
                env = Environment(autoescape=ae, loader=DictLoader(lib), enable_async=is_async)
                try:
                    t = env.from_string(src)
                    outs[ae] = asyncio.run(t.render_async(v="<v&'>")) if is_async else t.render(v="<v&'>")
                except Exception as ex:
                    problems.append(f"{src} (autoescape={ae}, async={is_async}): {type(ex).__name__}: {ex}")
            if len(outs) < 2:
                continue
            lk = leaks(outs[True])
            if lk:
                problems.append(f"{src!r} (async={is_async}) with autoescape on renders {outs[True]!r}: raw {lk}")
            if html.unescape(outs[True]).upper() != outs[False].upper() and "exported" not in src:
                problems.append(f"{src!r} (async={is_async}): unescape(on)={html.unescape(outs[True])!r} != off={outs[False]!r} (escaped twice or not at all)")
    return (bool(problems), "; ".join(problems[:3]) or "macro / call / super / self.block / set / import family: no leak, escaped exactly once")


WRAPPER_SINKS = ["Macro._invoke", "Macro._async_invoke", "BlockReference.__call__", "BlockReference._async_call", "TemplateModule.__html__", "TemplateModule.__str__"]


def wrapper_sink_tasks():
    return [WrapperVC("C15", f"C15.sink.{('environment.' if w.startswith('Template') else 'runtime.')}{w}", w,
                      ["sink_argument_is_generated_output", "sink_only_when_producer_escaped"]) for w in WRAPPER_SINKS]


def native_mixed_flags(w=None):
    """Templates in which the text is produced under one autoescape decision and used under another (name-based selector with a
    .txt helper, {% autoescape %} regions): nothing raw may appear where autoescaping is on.  (inputs of hunt/h/C15_5, C15_6, C15_7, C16_3)"""
    import html
    from jinja2 import Environment, DictLoader, select_autoescape
    v = '<script>alert(1)</script>"\''
    which = str((w or {}).get("wrapper", "")) if isinstance(w, dict) else ""
    problems = []
    lib = {"helpers.txt": "{% macro field(x) %}{{ x }}{% endmacro %}", "base.txt": "{% block body %}{{ v }}{% endblock %}", "part.txt": "{{ v }}", "part.html": "[{{ v }}]"}
    cases = {
        "Macro": [("from.html", "{% from 'helpers.txt' import field %}{{ field(v) }}"), ("import.html", "{% import 'helpers.txt' as h %}{{ h.field(v) }}"),
                  ("set.html", "{% from 'helpers.txt' import field %}{% set y = field(v) %}{{ y }}")],
        "BlockReference": [("child.html", "{% extends 'base.txt' %}{% block body %}{{ super() }}{% endblock %}"),
                           ("child2.html", "{% extends 'base.txt' %}{% block body %}{% set s = super() %}{{ s }}{% endblock %}")],
        "TemplateModule.__html__": [("mod.html", "{% import 'part.txt' as p with context %}{{ p }}"), ("mod2.html", "{% import 'part.txt' as p with context %}{{ [p, 'x']|join(', ') }}")],
    }
    chosen = [k for k in cases if which.startswith(k)] or ([] if which.startswith("TemplateModule.__str__") else list(cases))
    for k in chosen:
        for name, src in cases[k]:
            env = Environment(autoescape=select_autoescape(), loader=DictLoader(dict(lib, **{name: src})))
            out = env.get_template(name).render(v=v)
            if leaks(out):
                problems.append(f"select_autoescape(): {name} = {src!r} renders {out!r}: raw {leaks(out)} in an html template")
    if which.startswith("TemplateModule.__str__") or not which:
        outs = {}
        for ae in (True, False):
            env = Environment(autoescape=ae, loader=DictLoader(lib))
            outs[ae] = env.from_string("{% import 'part.html' as p with context %}{{ p|string }}|{{ p|trim }}|{{ p ~ '' }}").render(v='<v> & "q"')
        if html.unescape(outs[True]) != outs[False]:
            problems.append(f"{{% import 'part.html' as p with context %}}{{{{ p|string }}}}...: on renders {outs[True]!r}, unescaped once {html.unescape(outs[True])!r} != off {outs[False]!r}")
    return (bool(problems), "; ".join(problems[:3]) or "text produced under one autoescape decision and used under another: nothing raw, nothing escaped twice")


# =====================================================================================================
# Sink inventory and the sites decided structurally
# =====================================================================================================

def _package_files():
    import os
    root = os.path.dirname(jinja2.__file__)
    return sorted(os.path.join(root, f) for f in os.listdir(root) if f.endswith(".py"))


def find_markup_sites():
    """every call `Markup(...)` / `markupsafe.Markup(...)` in the live package: (module, enclosing qualname, lineno, arg source)"""
    import os
    sites = []
    for path in _package_files():
        mod = os.path.basename(path)[:-3]
        tree = ast.parse(open(path, encoding="utf-8").read())

        def walk(node, qual):
            for ch in ast.iter_child_nodes(node):
                q = qual
                if isinstance(ch, (ast.FunctionDef, ast.AsyncFunctionDef, ast.ClassDef)):
                    q = qual + [ch.name]
                if isinstance(ch, ast.Call):
                    f = ch.func
                    if (isinstance(f, ast.Name) and f.id == "Markup") or (isinstance(f, ast.Attribute) and f.attr == "Markup"):
                        sites.append((mod, ".".join(qual), ch.lineno, ast.unparse(ch.args[0]) if ch.args else "", ch))
                walk(ch, q)

        walk(tree, [])
    return sites


# enclosing function -> the obligation that covers the site (or the reason it is exempt)
COVERED_SITES = {
    ("runtime", "markup_join"): "C15.sink.runtime.markup_join",
    ("runtime", "BlockReference._async_call"): "C15.sink.runtime.BlockReference._async_call",
    ("runtime", "BlockReference.__call__"): "C15.sink.runtime.BlockReference.__call__",
    ("runtime", "Macro._async_invoke"): "C15.sink.runtime.Macro._async_invoke",
    ("runtime", "Macro._invoke"): "C15.sink.runtime.Macro._invoke",
    ("environment", "TemplateModule.__html__"): "C15.sink.environment.TemplateModule.__html__",
    ("environment", "TemplateModule.__str__"): "C15.sink.environment.TemplateModule.__str__ (the string form may be Markup only when the module's template escaped)",
    ("ext", "_make_new_gettext.gettext"): "C15.sink.ext.gettext",
    ("ext", "_make_new_ngettext.ngettext"): "C15.sink.ext.ngettext",
    ("ext", "_make_new_pgettext.pgettext"): "C15.sink.ext.pgettext",
    ("ext", "_make_new_npgettext.npgettext"): "C15.sink.ext.npgettext",
    ("utils", "generate_lorem_ipsum"): "C15.sink.utils.generate_lorem_ipsum",
    ("utils", "htmlsafe_json_dumps"): "C15.sink.utils.htmlsafe_json_dumps",
    ("filters", "do_xmlattr"): "C15.sink.filters.do_xmlattr",
    ("filters", "do_urlize"): "C15.sink.filters.do_urlize",
    ("filters", "do_indent"): "C15.sink.filters.do_indent",
    ("filters", "do_striptags"): "C15.sink.filters.do_striptags",
    ("filters", "do_mark_safe"): "exempt: the `safe` filter is the statement's explicit safe-marking",
    ("nodes", "TemplateData.as_const"): "C15.sink.nodes.TemplateData.as_const",
    ("nodes", "MarkSafe.as_const"): "exempt: MarkSafe nodes are explicit safe-marking (built by extensions only)",
    ("nodes", "MarkSafeIfAutoescape.as_const"): "exempt: MarkSafeIfAutoescape nodes are explicit safe-marking (i18n translation strings)",
}


def static_safe_expr(e):
    """the expression is built from string literals and escape() outputs only (whatever its free variables hold)"""
    if isinstance(e, ast.Constant):
        return isinstance(e.value, str)
    if isinstance(e, ast.JoinedStr):
        return all(static_safe_expr(v) for v in e.values)
    if isinstance(e, ast.FormattedValue):
        return e.conversion == -1 and e.format_spec is None and static_safe_expr(e.value)
    if isinstance(e, ast.Call):
        nm = emit.call_name(e)
        if nm in ("escape", "markupsafe.escape") and len(e.args) == 1 and not e.keywords:
            return True
        if isinstance(e.func, ast.Attribute) and e.func.attr == "join" and static_safe_expr(e.func.value) and len(e.args) == 1:
            a = e.args[0]
            if isinstance(a, (ast.GeneratorExp, ast.ListComp)):
                return static_safe_expr(a.elt)
            if isinstance(a, (ast.List, ast.Tuple)):
                return all(static_safe_expr(x) for x in a.elts)
        return False
    if isinstance(e, ast.BinOp) and isinstance(e.op, ast.Add):
        return static_safe_expr(e.left) and static_safe_expr(e.right)
    return False


def _function_node(mod, qual):
    import os
    path = os.path.join(os.path.dirname(jinja2.__file__), mod + ".py")
    tree = ast.parse(open(path, encoding="utf-8").read())
    node = tree
    for part in qual.split("."):
        node = next(n for n in ast.iter_child_nodes(node) if isinstance(n, (ast.FunctionDef, ast.AsyncFunctionDef, ast.ClassDef)) and n.name == part)
    return node


def structural_sinks(task, tier, seed):
    rs = []

    def row(name, ok, detail, wit=None):
        rs.append(Res(name, "discharged" if ok else "refuted", "ast", 0, detail, "table", None if ok else (wit or {"site": name})))

    sites = find_markup_sites()
    # ---- inventory
    for mod, qual, ln, arg, call in sites:
        cov = COVERED_SITES.get((mod, qual))
        row(f"C15.sink.inventory.{mod}.{qual}", cov is not None,
            f"{mod}.py:{ln} Markup({arg[:60]}) in {qual}: " + (cov or "NOT under contract - a new Markup() call site"), {"site": f"{mod}.{qual}", "line": ln, "arg": arg})
    row("C15.sink.inventory.count", len(sites) >= 18, f"{len(sites)} Markup() call sites found in the package sources")
    by = {}
    for mod, qual, ln, arg, call in sites:
        by.setdefault((mod, qual), []).append(call)
    # ---- markup_join: Markup("") only; the combinator join escapes untagged items (dependency spec)
    calls = by.get(("runtime", "markup_join"), [])
    row("C15.sink.runtime.markup_join", bool(calls) and all(c.args and isinstance(c.args[0], ast.Constant) and c.args[0].value == "" for c in calls),
        "markup_join wraps only the empty literal; the items are joined by Markup.join (escapes untagged operands)")
    fn = _function_node("runtime", "markup_join")
    # the items reach the result only through Markup("").join(...) or concat(buf) of soft_str'ed non-markup values
    rets = [n for n in ast.walk(fn) if isinstance(n, ast.Return) and n.value is not None]
    ok = len(rets) == 2 and any(ast.unparse(r.value).startswith("Markup('').join(") for r in rets) and any(ast.unparse(r.value) == "concat(buf)" for r in rets)
    row("C15.sink.runtime.markup_join.returns", ok, "markup_join returns Markup('').join(all items) as soon as one item has __html__, else the plain concatenation: " + "; ".join(ast.unparse(r.value) for r in rets))
    # ---- generate_lorem_ipsum
    calls = by.get(("utils", "generate_lorem_ipsum"), [])
    row("C15.sink.utils.generate_lorem_ipsum", bool(calls) and all(c.args and static_safe_expr(c.args[0]) for c in calls),
        "the argument is built from string literals and escape() outputs only: " + "; ".join(ast.unparse(c.args[0])[:90] for c in calls))
    # ---- TemplateData.as_const: template text
    calls = by.get(("nodes", "TemplateData.as_const"), [])
    row("C15.sink.nodes.TemplateData.as_const", bool(calls) and all(c.args and ast.unparse(c.args[0]) == "self.data" for c in calls),
        "Markup(self.data): template text, tagged by definition")
    # ---- utils.urlize: every use of the untrusted parameters is under escape()
    fn = _function_node("utils", "urlize")
    par = emit.parents(fn)
    bad = []
    for n in ast.walk(fn):
        if isinstance(n, ast.Name) and isinstance(n.ctx, ast.Load) and n.id in ("text", "rel", "target"):
            p = par.get(n)
            if isinstance(p, ast.Call) and emit.call_name(p) in ("markupsafe.escape", "escape") and p.args and p.args[0] is n:
                continue
            if isinstance(p, ast.IfExp) and p.test is n:
                continue  # truthiness test only
            bad.append(f"{n.id} at line {n.lineno}: {ast.unparse(p)[:60]}")
    row("C15.sink.utils.urlize.parameters_escaped", not bad and any(isinstance(n, ast.Name) and n.id == "text" for n in ast.walk(fn)),
        "utils.urlize uses text / rel / target only as escape(...) arguments (the regex-selected re-emission is C24.bounded.urlize)" + ("; UNESCAPED USE: " + "; ".join(bad) if bad else ""))
    return rs


def html_methods(task, tier, seed):
    """every `__html__` method defined in the package is a sink: escape(), do_join, markup_join and Markup.join trust its result.
    It must return escape(...) / a string built from literals and escape outputs, or be covered by a sink obligation."""
    import os
    rs = []
    found = 0
    for path in _package_files():
        mod = os.path.basename(path)[:-3]
        tree = ast.parse(open(path, encoding="utf-8").read())
        for cls in [n for n in ast.walk(tree) if isinstance(n, ast.ClassDef)]:
            for fn in cls.body:
                if not (isinstance(fn, ast.FunctionDef) and fn.name == "__html__"):
                    continue
                found += 1
                qual = f"{mod}.{cls.name}.__html__"
                body = [b for b in fn.body if not (isinstance(b, ast.Expr) and isinstance(b.value, ast.Constant))]
                if all(isinstance(b, ast.Pass) for b in body):
                    rs.append(Res(f"C15.sink.html_methods.{qual}", "discharged", "ast", 0, f"{qual}: protocol stub without a body", "table"))
                    continue
                if (mod, f"{cls.name}.__html__") in COVERED_SITES:
                    rs.append(Res(f"C15.sink.html_methods.{qual}", "discharged", "ast", 0, f"{qual}: {COVERED_SITES[(mod, cls.name + '.__html__')]}", "table"))
                    continue
                rets = [n.value for n in ast.walk(fn) if isinstance(n, ast.Return) and n.value is not None]
                ok = bool(rets) and all(static_safe_expr(r) for r in rets)
                rs.append(Res(f"C15.sink.html_methods.{qual}", "discharged" if ok else "refuted", "ast", 0,
                              f"{mod}.py:{fn.lineno} {qual} returns " + "; ".join(ast.unparse(r) for r in rets)
                              + ("" if ok else ": not escape(...) - escape() trusts __html__, so this text reaches the output unescaped"), "table",
                              None if ok else {"method": qual, "line": fn.lineno, "returns": [ast.unparse(r) for r in rets]}))
    rs.append(Res("C15.sink.html_methods.count", "discharged" if found >= 2 else "refuted", "ast", 0, f"{found} __html__ methods in the package", "table",
                  None if found >= 2 else {"count": found}))
    return rs


def native_html_methods(w=None):
    """hunt/h/C15_2: ChainableUndefined combined with DebugUndefined"""
    from jinja2 import Environment, ChainableUndefined, DebugUndefined

    class U(ChainableUndefined, DebugUndefined):
        pass

    class U2(DebugUndefined, ChainableUndefined):
        pass

    problems = []
    v = "<script>alert(1)</script>"
    for cls in (U, U2):
        env = Environment(autoescape=True, undefined=cls)
        for src in ("{{ d[v] }}", "{{ d[v].a.b }}", "{{ [d[v], 'x']|join(', ') }}", "{% set y %}{{ d[v] }}{% endset %}{{ y }}"):
            out = env.from_string(src).render(d={}, v=v)
            if "<script>" in out:
                problems.append(f"Environment(autoescape=True, undefined={cls.__name__}({', '.join(b.__name__ for b in cls.__bases__)})).from_string({src!r}).render(d={{}}, v={v!r}) == {out!r}")
    return (bool(problems), "; ".join(problems[:2]) or "undefined classes with __html__: the data key is escaped")


def markup_combinators(task, tier, seed):
    """Dependency spec of the Markup combinators, checked on the installed MarkupSafe (bounded): every public str method of Markup
    that accepts string-bearing operands and returns Markup escapes plain operands."""
    from markupsafe import Markup
    t0 = time.time()
    P = "<p>"
    m = Markup("a x b")
    calls = {
        "replace": lambda: m.replace("x", P), "join": lambda: m.join([P, P]), "__add__": lambda: m + P, "__radd__": lambda: P + m, "__mod__": lambda: Markup("%s") % P,
        "__mod__(tuple)": lambda: Markup("%s%s") % (P, P), "__mod__(dict)": lambda: Markup("%(k)s") % {"k": P}, "format": lambda: Markup("{}").format(P),
        "format(keyword)": lambda: Markup("{k}").format(k=P), "format_map": lambda: Markup("{k}").format_map({"k": P}), "translate": lambda: m.translate({ord("x"): P}),
        "translate(maketrans)": lambda: m.translate(str.maketrans({"x": P})), "strip": lambda: m.strip(P), "lstrip": lambda: m.lstrip(P), "rstrip": lambda: m.rstrip(P),
        "partition": lambda: m.partition("x"), "rpartition": lambda: m.rpartition("x"), "split": lambda: m.split("x"), "rsplit": lambda: m.rsplit("x"),
        "splitlines": lambda: m.splitlines(), "removeprefix": lambda: m.removeprefix("a"), "removesuffix": lambda: m.removesuffix("b"), "__mul__": lambda: m * 2,
        "__getitem__": lambda: m[0:3], "capitalize": lambda: m.capitalize(), "title": lambda: m.title(), "lower": lambda: m.lower(), "upper": lambda: m.upper(),
        "swapcase": lambda: m.swapcase(), "casefold": lambda: m.casefold(), "expandtabs": lambda: m.expandtabs(2), "zfill": lambda: m.zfill(9),
        "center": lambda: m.center(9), "ljust": lambda: m.ljust(9), "rjust": lambda: m.rjust(9),
    }
    task.bound_text = f"{len(calls)} method applications with the plain operand {P!r} on the installed MarkupSafe"
    rs = []
    covered = set(k.split("(")[0] for k in calls)
    # methods of Markup that return Markup and are not exercised would be a hole in the spec
    missing = sorted(n for n in dir(Markup) if not n.startswith("_") and callable(getattr(Markup, n)) and n not in covered
                     and n not in ("encode", "count", "find", "rfind", "index", "rindex", "startswith", "endswith", "maketrans", "escape", "unescape", "striptags")
                     and not n.startswith("is"))
    for k, f in calls.items():
        try:
            r = f()
        except Exception as ex:
            rs.append(Res(f"C15.dependency.markup_combinators.{k}", "bounded-ok", "native", 0, f"raises {type(ex).__name__}", "bounded"))
            continue
        items = r if isinstance(r, (list, tuple)) else [r]
        leak = [x for x in items if hasattr(x, "__html__") and P in x]
        rs.append(Res(f"C15.dependency.markup_combinators.{k}", "refuted" if leak else "bounded-ok", "native", time.time() - t0,
                      f"Markup.{k} with the plain operand {P!r} returns {r!r}" + (": Markup that contains the operand unescaped" if leak else ""), "bounded",
                      {"method": k} if leak else None))
    rs.append(Res("C15.dependency.markup_combinators.inventory", "refuted" if missing else "bounded-ok", "native", 0,
                  f"public Markup methods not exercised: {missing}", "bounded", {"missing": missing} if missing else None))
    return rs


def markup_combinators_key(res):
    return ((res.witness or {}).get("method") or "inventory").split("(")[0]


def native_markup_combinators(w=None):
    """hunt/h/C15_8"""
    from jinja2 import Environment
    env = Environment(autoescape=True)
    v = '<script>alert(1)</script>"\''
    problems = []
    for src in ("{{ (name|e).translate({120: v}) }}", "{% set n %}{{ name }}{% endset %}{{ n.translate({120: v}) }}", "{% macro m() %}{{ name }}{% endmacro %}{{ m().translate({120: v}) }}",
                "{{ (name|e).replace('x', v) }}", "{{ (name|e).join([v, v]) }}", "{{ (name|e) + v }}", "{{ '%s'|e|format(v) }}"):
        out = env.from_string(src).render(name="x", v=v)
        if leaks(out):
            problems.append(f"{src} renders {out!r}")
    return (bool(problems), "; ".join(problems[:2]) or "Markup methods escape plain operands")


def cache_key_autoescape(task, tier, seed):
    """A bytecode cache entry is reused only for a compilation with the same autoescape decision: the bucket key / checksum that the real
    BytecodeCache.get_bucket computes must differ between two environments whose autoescape decision for the template differs."""
    from jinja2 import Environment
    from jinja2.bccache import BytecodeCache

    class Rec(BytecodeCache):
        def load_bytecode(self, bucket):
            pass

        def dump_bytecode(self, bucket):
            pass

    cache = Rec()
    a, b = Environment(autoescape=False, bytecode_cache=cache), Environment(autoescape=True, bytecode_cache=cache)
    ba, bb = cache.get_bucket(a, "page.html", None, "{{ v }}"), cache.get_bucket(b, "page.html", None, "{{ v }}")
    same = (ba.key, ba.checksum) == (bb.key, bb.checksum)
    return [Res("C15.cache.autoescape_key", "refuted" if same else "discharged", "table", 0,
                f"get_bucket for 'page.html' under autoescape=False / True: key {ba.key[:10]} / {bb.key[:10]}, checksum {ba.checksum[:10]} / {bb.checksum[:10]}"
                + (": identical - code compiled without escaping is loaded where autoescaping is on" if same else ""), "table", {"shared_cache": True} if same else None)]


def native_cache_key(w=None):
    """hunt/h/C15_4 (root cause: DESIGN F19, C27.key.config)"""
    from jinja2 import Environment, DictLoader
    from jinja2.bccache import BytecodeCache

    class Mem(BytecodeCache):
        def __init__(self):
            self.d = {}

        def load_bytecode(self, bucket):
            if bucket.key in self.d:
                bucket.bytecode_from_string(self.d[bucket.key])

        def dump_bytecode(self, bucket):
            self.d[bucket.key] = bucket.bytecode_to_string()

    v = "<script>alert(1)</script>"
    plain = Environment(loader=DictLoader({"page.html": "{{ v }}|{{ '<b>' }}|{% set x %}{{ v }}{% endset %}{{ x }}"}), bytecode_cache=Mem(), autoescape=False)
    plain.get_template("page.html").render(v=v)
    out = plain.overlay(autoescape=True).get_template("page.html").render(v=v)
    bad = bool(leaks(out))
    return (bad, f"plain.overlay(autoescape=True).get_template('page.html').render(v={v!r}) == {out!r}" + (" (bytecode compiled with autoescape=False reused)" if bad else ""))


def native_structural(w=None):
    """re-scan the live sources / run the covered functions natively"""
    from jinja2.utils import generate_lorem_ipsum, urlize
    from jinja2.runtime import markup_join
    problems = []
    for mod, qual, ln, arg, call in find_markup_sites():
        if (mod, qual) not in COVERED_SITES:
            problems.append(f"{mod}.py:{ln}: Markup({arg[:50]}) in {qual} is not under contract")
    r = markup_join(["<a>", markupsafe.Markup("<b>"), "<c>"])
    if "<a>" in r or "<c>" in r:
        problems.append(f"markup_join leaks: {r!r}")
    r = urlize("<x> http://a.aa/<y>", rel='"><r>', target="'<t>")
    if "<x>" in r or "<y>" in r or "<r>" in r or "<t>" in r:
        problems.append(f"urlize leaks: {r!r}")
    r = generate_lorem_ipsum(n=1, html=True, min=2, max=3)
    if not r.startswith("<p>") or "<" in str(r)[3:-4].replace("</p>\n<p>", ""):
        problems.append(f"lorem ipsum: {r!r}")
    return (bool(problems), "; ".join(problems[:3]) or "every Markup() call site is under contract; markup_join / urlize / lorem escape their operands")


# =====================================================================================================
# Filter inventory
# =====================================================================================================

FILTER_MARKERS = re.compile(r"\bMarkup\b|\bescape\(|\bsoft_str\b|__html__|htmlsafe_json_dumps|\burlize\(")
FILTER_TABLE = {  # FILTERS entries that are not jinja2 functions or are explicit exemptions
    "e": "the sanitiser markupsafe.escape itself", "escape": "the sanitiser markupsafe.escape itself",
    "string": "markupsafe.soft_str: identity on Markup, str() otherwise (keeps the tag)",
    "safe": "exempt: the statement's explicit safe-marking filter",
    "wordcount": "returns an int",
}


def filter_inventory(task, tier, seed):
    import jinja2.filters as F
    rs = []
    covered = set(FILTER_SUBJECTS)
    for name, fn in sorted(F.FILTERS.items()):
        f = getattr(fn, "__wrapped__", fn)
        f = getattr(f, "jinja_async_variant", None) and f or f
        try:
            src = inspect.getsource(f)
        except (TypeError, OSError):
            src = ""
        try:
            tree = ast.parse(__import__("textwrap").dedent(src))
            fd = tree.body[0]
            if fd.body and isinstance(fd.body[0], ast.Expr) and isinstance(fd.body[0].value, ast.Constant):
                fd.body = fd.body[1:] or [ast.Pass()]
            code = ast.unparse(fd)
        except Exception:
            code = src
        mentions = bool(FILTER_MARKERS.search(code)) or getattr(fn, "__module__", "").startswith("markupsafe")
        subj = getattr(f, "__name__", name)
        subj = subj[3:] if subj.startswith("do_") else subj
        subj = {"sync_do_join": "join", "mark_safe": "safe"}.get(subj, subj)
        ok = (not mentions) or subj in covered or name in FILTER_TABLE
        why = ("no Markup / escape / soft_str / __html__ in its body: it returns Markup only through a method of a Markup operand (combinator spec)" if not mentions
               else f"C15.filter.{subj}" if subj in covered else FILTER_TABLE.get(name, "NOT under contract"))
        rs.append(Res(f"C15.filter.inventory.{name}", "discharged" if ok else "refuted", "table", 0, f"FILTERS[{name!r}] = {getattr(fn, '__qualname__', fn)}: {why}", "table",
                      None if ok else {"filter": name}))
    return rs


def native_filter_inventory(w=None):
    """every built-in filter applied to a plain metacharacter string under autoescape: nothing raw in the output"""
    import jinja2.filters as F
    from jinja2 import Environment
    env = Environment(autoescape=True)
    problems = []
    for name in sorted(F.FILTERS):
        if name in ("safe", "tojson", "xmlattr", "urlize", "pprint"):
            continue  # explicit marking / documented markup / repr quoting
        for src in ("{{ v|%s }}" % name, "{{ (v|%s)|string }}" % name):
            try:
                out = env.from_string(src).render(v="<v&>")
            except Exception:
                continue
            if "<v" in out or "&>" in out:
                problems.append(f"{src} renders {out!r}")
    return (bool(problems), "; ".join(problems[:3]) or "no built-in filter hands a plain string to the output unescaped")


# =====================================================================================================
# C15.select_autoescape
# =====================================================================================================

STR_LOWER = z3.Function("str.lower", z3.StringSort(), z3.StringSort())
ENABLED, DISABLED = (".html", ".htm", ".xml"), (".txt", ".html.j2", ".raw.html")  # ".raw.html" overlaps ".html": enabled wins


class SelectAutoescape(VC):
    """utils.select_autoescape(...).autoescape(template_name): None gives default_for_string; otherwise the decision
    is taken on the LOWER-CASED name: an enabled suffix gives True (wins), else a disabled suffix gives False, else default."""
    prop = "C15"
    target = "jinja2.utils:select_autoescape"

    def __init__(self, none_name):
        self.none_name = none_name
        VC.__init__(self, "C15", "C15.select_autoescape." + ("none" if none_name else "name"))

    def closure(self, I):
        from pyvc import extract
        from pyvc.values import Closure
        node, module = extract.nested_function_ast("jinja2.utils:select_autoescape", "autoescape")
        return Closure(node, module, [], "select_autoescape.<locals>.autoescape")

    def setup(self, I, st):
        self.name_ = sym("template_name", "str")
        self.dfs, self.dflt = sym("default_for_string", "bool"), sym("default", "bool")
        from pyvc.smt import host_const
        st.assume(to_term(self.name_, "obj") != host_const(None))  # requires: template_name is a str (a str is not None)
        return "locals", {"template_name": None if self.none_name else self.name_, "enabled_patterns": ENABLED, "disabled_patterns": DISABLED,
                          "default_for_string": self.dfs, "default": self.dflt}

    def p_decision(self, pre, out):
        if out.raised:
            return False
        r = to_term(out.value, "bool")
        if self.none_name:
            return r == self.dfs.t
        low = STR_LOWER(self.name_.t)
        en = z3.Or(*[z3.SuffixOf(z3.StringVal(x), low) for x in ENABLED])
        dis = z3.Or(*[z3.SuffixOf(z3.StringVal(x), low) for x in DISABLED])
        return r == z3.If(en, True, z3.If(dis, False, self.dflt.t))

    posts = [("suffix_decision", p_decision)]

    def concretize(self, model, pre, out):
        from pyvc.smt import model_value
        return {"template_name": None if self.none_name else str(model_value(model, self.name_.t)),
                "default_for_string": bool(model_value(model, self.dfs.t)), "default": bool(model_value(model, self.dflt.t))}

    def replay(self, w):
        return native_select_autoescape(w)


def _select_spec(name, enabled, disabled, default_for_string, default):
    if name is None:
        return default_for_string
    low = name.lower()
    if any(low.endswith("." + e.lstrip(".").lower()) for e in enabled):
        return True
    if any(low.endswith("." + e.lstrip(".").lower()) for e in disabled):
        return False
    return default


def select_cases():
    names = [None, "", "a", "a.html", "A.HTML", "a.HtMl", "a.htm", "x.xml", "a.txt", "a.TXT", "html", ".html", "a.html.txt", "a.txt.html", "dir.html/a",
             "a.html ", "a.xhtml", "a.htmlx", "İ.html", "a.ſvg", "a.SVG", "a.html.j2", "a.HTML.J2", "a.raw.html"]
    exts = [(("html", "htm", "xml"), ()), ((".HTML", "Xml"), ("txt",)), (("html",), ("html.j2", ".TXT")), ((), ("html",)), (("svg",), ()), (("html",), ("raw.html",))]
    for en, dis in exts:
        for dfs in (True, False):
            for d in (True, False):
                for n in names:
                    yield {"template_name": n, "enabled": list(en), "disabled": list(dis), "default_for_string": dfs, "default": d}


def native_select_autoescape(w=None):
    from jinja2.utils import select_autoescape
    problems = []
    cases = list(select_cases())
    if w and "template_name" in w and "enabled" not in w:
        cases = [dict(w, enabled=[x.lstrip(".") for x in ENABLED], disabled=[x.lstrip(".") for x in DISABLED])] + cases
    for c in cases:
        f = select_autoescape(tuple(c["enabled"]), tuple(c["disabled"]), default_for_string=c["default_for_string"], default=c["default"])
        got, want = f(c["template_name"]), _select_spec(c["template_name"], c["enabled"], c["disabled"], c["default_for_string"], c["default"])
        if got != want:
            problems.append(f"select_autoescape({c['enabled']}, {c['disabled']}, default_for_string={c['default_for_string']}, default={c['default']})({c['template_name']!r}) == {got}, documented {want}")
    return (bool(problems), "; ".join(problems[:3]) or f"{len(cases)} name/extension cases agree with the documented decision")


def select_bounded(task, tier, seed):
    t0 = time.time()
    bad, detail = native_select_autoescape(None)
    n = len(list(select_cases()))
    task.bound_text = f"{n} cases: 24 template names (mixed case, multi-suffix, None) x 6 extension spellings (leading dot, upper case) x defaults"
    if bad:
        return [Res("C15.select_autoescape.bounded", "refuted", "native", time.time() - t0, detail, "bounded", {"bounded": True})]
    return [Res("C15.select_autoescape.bounded", "bounded-ok", "native", time.time() - t0, f"{n} cases (extension spelling normalisation: leading dots, case)", "bounded")]


# =====================================================================================================
# native oracle (replay)
# =====================================================================================================

META_CHARS = "<>&\"'"


_ENTITY = re.compile(r"&(?:amp|lt|gt|quot|apos|#34|#39|#x27|#x22);", re.I)


def leaks(out):
    """raw HTML metacharacters in rendered output whose template text is metacharacter-free
    (character references produced by escape() are removed first)"""
    rest = _ENTITY.sub("", str(out))
    return [c for c in META_CHARS if c in rest]


def native_output_family(w=None):
    """Render real templates with data / literals containing metacharacters under static autoescape on,
    `{% autoescape true %}` and `{% autoescape x %}` (run-time decided, x=True), environment default off and on.
    Property oracle: no raw metacharacter in the output.  A witness narrows the family to the failing case
    (volatile or static frame; compile-time constants or run-time children)."""
    from jinja2 import Environment
    problems = []
    literal = ['"<"', "'<' ~ 'a'", '"<" + "&"', '"<" if true else ">"', '("<", ">")|join', '"<"|upper', '"%s"|format("<")']
    runtime = ['v', 'v ~ "<"', '[v][0]', 'v|upper', 'v if t else v', 'none|default(v)', 'v|string', 'v.strip()']
    modes = [("", "", "static"), ("{% autoescape true %}", "{% endautoescape %}", "block"),
             ("{% autoescape x %}", "{% endautoescape %}", "volatile"), ("{% autoescape x %}{% set y %}", "{% endset %}{{ y }}{% endautoescape %}", "volatile")]
    exprs = literal + runtime
    if isinstance(w, dict) and "categories" in w:
        cats = " ".join(w["categories"])
        if w.get("volatile"):
            modes = [m for m in modes if m[2] == "volatile"]
        else:
            modes = [m for m in modes if m[2] != "volatile"]
        if "const" in cats and "runtime" not in cats:
            exprs = literal
        elif "runtime" in cats and "const" not in cats:
            exprs = runtime
    finals = [None, lambda x: x, lambda x: "" if x is None else x]
    for fin in finals:
        for default in (False, True):
            env = Environment(autoescape=default, finalize=fin)
            for e in exprs:
                for pre, post, mode in modes:
                    if mode == "static" and not default:
                        continue
                    src = f"{pre}a{{{{ {e} }}}}b {{{{ {e} }}}}{{{{ v }}}}{post}"
                    try:
                        out = env.from_string(src).render(v="<v&>", x=True, t=True)
                    except Exception as ex:
                        problems.append(f"{src}: {type(ex).__name__}: {ex}")
                        continue
                    lk = leaks(out)
                    if lk:
                        problems.append(f"Environment(autoescape={default}{', finalize=f' if fin else ''}).from_string({src!r}).render(v='<v&>', x=True) == {out!r}: raw {lk} in an autoescaped region")
    return (bool(problems), "; ".join(problems[:3]) or "no raw metacharacter in the autoescape output family (static / block / run-time decided)")


BLOCK_FILTERS = ["striptags", "trim", "upper", "lower", "capitalize", "title", "string", "center(20)", "indent", "escape", "forceescape",
                 "truncate(50)", "wordwrap", "default('x')", "format"]


def native_block_family(w=None):
    """Filter blocks, set blocks (with and without filter), macros, call blocks, recursive loops, includes and blocks around
    data with metacharacters, autoescape static / block / run-time decided: no raw metacharacter reaches the output.
    A witness (an emission schema) narrows the family to the construct it came from; without one, the two constructs with a
    known finding (a block filter that returns a plain str; a block inside {% autoescape %}) are left out."""
    from jinja2 import Environment, DictLoader
    problems = []
    families = {
        "filter": ["{% filter F %}{{ v }}{% endfilter %}"],
        "set_filter": ["{% set y | F %}{{ v }}{% endset %}{{ y }}"],
        "set": ["{% set y %}{{ v }}{% endset %}{{ y|F }}", "{% set y %}{{ v }}{% endset %}{% set z %}{{ y }}{% endset %}{{ z }}"],
        "macro": ["{% macro m(a) %}{{ a|F }}{% endmacro %}{{ m(v) }}", "{% macro m() %}{{ caller()|F }}{% endmacro %}{% call m() %}{{ v }}{% endcall %}"],
        "loop": ["{% for x in [[v]] recursive %}{% if x is string %}{{ x|F }}{% else %}{{ loop(x) }}{% endif %}{% endfor %}"],
        "include": ["{% include 'inc_F' %}", "{% include 'inc_F' without context %}{% include ['nope', 'inc_F'] %}"],
        "block": ["{% block b %}{{ v|F }}{% endblock %}", "{% block c scoped %}{{ v|F }}{% endblock %}{{ self.c() }}"],
    }
    schema = (w or {}).get("schema", "") if isinstance(w, dict) else ""
    filters = list(BLOCK_FILTERS)
    if "context.blocks" in schema:
        chosen = ["block"]
    elif "node.filter" in schema:
        chosen = ["set_filter"] if "node.target" in schema else ["filter"]
    elif "node.target" in schema and "concat(" in schema:
        chosen = ["set"]
    elif "def loop" in schema:
        chosen = ["loop"]
    elif "def macro" in schema:
        chosen = ["macro"]
    elif "root_render_func" in schema or "_get_default_module" in schema:
        chosen = ["include"]
    else:
        chosen = [f for f in families if f != "block"]
        filters.remove("striptags")
    slug = lambda f: re.sub(r"\W", "_", f)
    lib = {"inc_" + slug(f): "{{ v|%s }}{%% set q %%}{{ v }}{%% endset %%}{{ q }}" % f for f in filters}
    for mode in ("static", "block", "volatile"):
        env = Environment(autoescape=(mode == "static"), loader=DictLoader(lib))
        env.globals["v"] = "<v&>"  # visible to `include ... without context`
        pre, post = {"static": ("", ""), "block": ("{% autoescape true %}", "{% endautoescape %}"), "volatile": ("{% autoescape x %}", "{% endautoescape %}")}[mode]
        for fam in chosen:
            if fam == "include" and mode != "static":
                continue  # an included template has its own autoescape decision
            for f in filters:
                for b_ in families[fam]:
                    src = pre + b_.replace("inc_F", "inc_" + slug(f)).replace("F", f) + post
                    try:
                        out = env.from_string(src).render(v="<v&>", x=True)
                    except Exception as ex:
                        problems.append(f"{src}: {type(ex).__name__}: {ex}")
                        continue
                    lk = leaks(out)
                    if lk:
                        problems.append(f"Environment(autoescape={mode == 'static'}).from_string({src!r}).render(v='<v&>', x=True) == {out!r}: raw {lk}")
    if chosen == ["set"]:
        # hunt h2/C15_1: a set block of a parent compiled without escaping, run on the context of an autoescaped child
        from jinja2 import select_autoescape
        env = Environment(autoescape=select_autoescape(), loader=DictLoader({
            "base.txt": "{% set x %}[{{ v }}]{% endset %}{% block b %}{% endblock %}", "page.html": '{% extends "base.txt" %}{% block b %}{{ x }}{% endblock %}'}))
        out = env.get_template("page.html").render(v='<script a="1">&')
        if leaks(out):
            problems.insert(0, f"select_autoescape(): page.html extends base.txt ({{% set x %}}[{{{{ v }}}}]{{% endset %}}) and prints {{{{ x }}}}: {out!r}, raw {leaks(out)} in an html template")
    return (bool(problems), "; ".join(problems[:3]) or f"{'/'.join(chosen)} family (static, block and run-time decided autoescape): nothing raw in the output")


def _with_key(task, fn):
    task.finding_key = fn
    return task


TASKS = output_tasks("C15", "C15.output.wrap", output_wrap_pred, native_output_family) + buffer_inv_tasks(native_block_family) + flow_tasks() + wrapper_sink_tasks() + [FnTask("C15", "C15.buffer.inv.emitted_inventory", emitted_markup_inventory, "table", native_block_family),
              FnTask("C15", "C15.buffer.inv.block_frame_source", block_frame_source, "table", native_block_family),
              FnTask("C15", "C15.sink.structural", structural_sinks, "table", native_structural),
              FnTask("C15", "C15.sink.html_methods", html_methods, "table", native_html_methods),
              _with_key(FnTask("C15", "C15.dependency.markup_combinators", markup_combinators, "bounded", native_markup_combinators), markup_combinators_key),
              _with_key(FnTask("C15", "C15.cache.autoescape_key", cache_key_autoescape, "table", native_cache_key), lambda res: "F19"), FnTask("C15", "C15.filter.inventory", filter_inventory, "table", native_filter_inventory),
           SelectAutoescape(False), SelectAutoescape(True), FnTask("C15", "C15.select_autoescape.bounded", select_bounded, "bounded", native_select_autoescape)]

META = {
    "level": "proof-of-mechanism",
    "explanation": "Information-flow contract with the ghost tag html_safe. (1) Emission contract on the real visit_Output: every run-time child is wrapped by "
                   "escape / the run-time selector, a compile-time constant other than template text is emitted only in a non-volatile frame and escaped when the "
                   "static flag is on. (2) Sweep over every other visitor and macro_body: generated code hands only forwarded events / loop results to the output "
                   "and wraps only concat(<frame buffer>) in Markup, guarded by the frame's autoescape decision. (3) One obligation per Markup() call site of the "
                   "package (inventory from the live sources): the real function is executed under a ghost-tag algebra (dependency specs of escape and the Markup "
                   "combinators); the argument must be tagged. (4) The same for the built-in filters that can return Markup, plus an inventory of FILTERS. "
                   "(5) select_autoescape: VC on the inner decision function plus a bounded check of the extension normalisation.",
    "assumptions": [
        "M: in a non-volatile frame the run-time flag context.eval_ctx.autoescape equals the compile-time flag (templates of one inheritance chain share one "
        "autoescape decision; a child 'x.txt' extending 'base.html' under select_autoescape breaks it)",
        "the three wrappers that tag generated output by a flag other than the producer's (Macro._invoke, BlockReference.__call__, TemplateModule.__html__) are "
        "known findings, not assumptions (hunt C15_5 / C15_6 / C15_7); for a template whose parts all share one autoescape decision the flags coincide",
        "objects with __html__ are Markup-like: their __html__() text is html_safe",
        "environment.finalize is application code and maps html_safe values to html_safe values (constants are escaped before finalize; DESIGN F3 is C08's)",
        "translation callables return template text (statement: translation strings count as template text)",
        "tojson: htmlsafe means < > & ' are replaced (the double quote is documented as not safe in double-quoted attributes)",
        "utils.urlize re-emits only regex-selected substrings of escape(text): covered by C24.bounded.urlize (DESIGN gap)",
        "A7 await is a transparent call",
    ],
    "trusted_base": ["pyvc emission engine (symbolic execution of CodeGenerator methods)", "pyvc interpreter + ghost-tag algebra (dependency specs of markupsafe.escape, "
                     "Markup.join/replace/__add__/__mod__/format/splitlines/strip/..., soft_str)", "z3 5.1", "MarkupSafe " + markupsafe.__version__],
}
