"""C19  The immutable sandbox never modifies list, dict, set or deque data  (runtime half: the attribute gate).

Spec MUT(T) (DESIGN Appendix A.1): the public method names of T in {list, dict, set, deque} whose call can change the
receiver, written from the Python library reference ("Mutable Sequence Types", "Mapping Types - dict", "Set Types",
"collections.deque objects") and cross-checked against the live types (C19.spec.MUT.*).

Obligations
  C19.gate.<T>.blocks[m]   for ALL attribute names `attr` (symbolic string) and obj of exact type T:
       ImmutableSandboxedEnvironment.is_safe_attribute(obj, attr, value) is True  ==>  attr != m       (m in MUT(T))
     the real sources of ImmutableSandboxedEnvironment.is_safe_attribute, SandboxedEnvironment.is_safe_attribute,
     is_internal_attribute and modifies_known_mutable are executed symbolically; the loop over the real `_mutable_spec`
     table is unrolled, isinstance is resolved with issubclass on the live classes (deque is a registered MutableSequence).
  C19.modifies_known_mutable.<T>.*   the documented contract of the helper itself (iff, and False for unsupported objects)
  C19.spec.MUT.<T>          cross-check of the spec table against the live types (deep copy comparison)
The mechanism half for stored method references / attr filter / format lookups is C17 (every route ends in
`is_safe_attribute` of the environment, here the immutable one); the filter frame clause is shared with C22/C29.
"""
from __future__ import annotations

import collections
import copy

import z3

from pyvc.contract import VC, Res, FnTask
from pyvc.values import sym
from pyvc import abstract as A
from pyvc.smt import to_term, model_value

from contracts import _sbx

import jinja2.sandbox as S

deque = collections.deque

# ---- spec table (Python library reference) ---------------------------------------------------------------
MUT = {
    list: ("append", "clear", "extend", "insert", "pop", "remove", "reverse", "sort"),
    dict: ("clear", "pop", "popitem", "setdefault", "update"),
    set: ("add", "clear", "difference_update", "discard", "intersection_update", "pop", "remove",
          "symmetric_difference_update", "update"),
    deque: ("append", "appendleft", "clear", "extend", "extendleft", "insert", "pop", "popleft", "remove", "reverse",
            "rotate"),
}
TYPES = (list, dict, set, deque)
UNSUPPORTED = (str, int, tuple, frozenset, type(None))  # "If called with an unsupported object, False is returned"

SAMPLES = {
    list: [lambda: [3, 1, 2], lambda: [], lambda: [1]],
    dict: [lambda: {"a": 1, "b": 2}, lambda: {}],
    set: [lambda: {1, 2, 3}, lambda: set()],
    deque: [lambda: deque([3, 1, 2]), lambda: deque(), lambda: deque([1, 2, 3, 4], maxlen=4)],
}
ARGS = [(), (1,), (0,), ("a",), ([9],), ([1],), ({"z": 1},), (0, 9), ("zz", 5), (1, 2, 3), ({1},)]


def public_names(T):
    return sorted(n for n in dir(T) if not n.startswith("_"))


def snapshot(x):
    return (type(x), list(x.items()) if isinstance(x, dict) else (sorted(x, key=repr) if isinstance(x, set) else list(x)), getattr(x, "maxlen", None))


def observed_mutators(T):
    """names of public methods of the live type that changed some sample receiver (compared with a deep copy)"""
    mut, ok = set(), set()
    for name in public_names(T):
        for mk in SAMPLES[T]:
            for a in ARGS:
                x = mk()
                c = copy.deepcopy(x)
                try:
                    m = getattr(x, name)
                    if not callable(m):
                        continue
                    m(*copy.deepcopy(a))
                    ok.add(name)
                except Exception:
                    pass
                if snapshot(x) != snapshot(c):
                    mut.add(name)
    return mut, ok


def spec_crosscheck(task, tier, seed):
    out = []
    for T in TYPES:
        mut, ok = observed_mutators(T)
        spec = set(MUT[T])
        name = f"C19.spec.MUT.{T.__name__}"
        if mut == spec:
            out.append(Res(name, "discharged", "table", 0, f"{len(public_names(T))} public names x {len(SAMPLES[T])} samples x {len(ARGS)} argument tuples: observed mutators == MUT", "table"))
        else:
            out.append(Res(name, "error", "table", 0, f"spec table disagrees with the live type: observed-only {sorted(mut - spec)}, spec-only {sorted(spec - mut)}", "table"))
    return out


# ---- native oracle of the property: data equals a deep copy taken before rendering ---------------------------------
def native_modifies(tname, attr):
    """Render {{ x.<attr>(*a) }} in the real ImmutableSandboxedEnvironment on sample data; -> (modified?, detail)."""
    from jinja2.sandbox import ImmutableSandboxedEnvironment
    T = {t.__name__: t for t in TYPES}[tname]
    env = ImmutableSandboxedEnvironment()
    if not attr.isidentifier():
        return False, f"{attr!r} is not an identifier"
    try:
        tmpl = env.from_string("{{ x.%s(*a) }}" % attr)
    except Exception as ex:
        return False, f"template does not compile: {ex!r}"
    for mk in SAMPLES[T]:
        for a in ARGS:
            x = mk()
            c = copy.deepcopy(x)
            try:
                tmpl.render(x=x, a=copy.deepcopy(a))
                err = None
            except Exception as ex:
                err = type(ex).__name__
            if snapshot(x) != snapshot(c):
                return True, (f"ImmutableSandboxedEnvironment: {{{{ x.{attr}(*{a!r}) }}}} with x={c!r} "
                              f"changed x to {x!r} ({'no error' if err is None else err})")
    return False, f"no sample call of {tname}.{attr} changed the data"


def replay_gate(w):
    from jinja2.sandbox import ImmutableSandboxedEnvironment
    T = {t.__name__: t for t in TYPES}[w["type"]]
    attr = w["attr"]
    env = ImmutableSandboxedEnvironment()
    x = SAMPLES[T][0]()
    safe = env.is_safe_attribute(x, attr, getattr(x, attr, None))
    mod, detail = native_modifies(w["type"], attr)
    return (bool(safe and mod), f"is_safe_attribute({w['type']}, {attr!r}) = {safe}; {detail}")


# ---- the gate ------------------------------------------------------------------------------------------------------
class Gate(VC):
    prop = "C19"
    target = "jinja2.sandbox:ImmutableSandboxedEnvironment.is_safe_attribute"

    def __init__(self, T):
        self.T = T
        super().__init__("C19", f"C19.gate.{T.__name__}")
        self.posts = [(f"blocks[{m}]", self.mk_post(m)) for m in MUT[T]]

    def configure(self, I):
        I.inline.update({"jinja2.sandbox:modifies_known_mutable", "jinja2.sandbox:is_internal_attribute",
                         "jinja2.sandbox:SandboxedEnvironment.is_safe_attribute"})
        _sbx.exact_types(I, {"obj": self.T})
        _sbx.install_super(I, S.ImmutableSandboxedEnvironment, lambda: (self.env, S.ImmutableSandboxedEnvironment))

    def setup(self, I, st):
        self.env = A.obj(st, S.ImmutableSandboxedEnvironment, "env")
        self.obj, self.attr, self.value = sym("obj", "obj"), sym("attr", "str"), sym("value", "obj")
        return [self.env, self.obj, self.attr, self.value], {}

    @staticmethod
    def mk_post(m):
        def post(self, pre, out):
            if out.raised:
                return False  # the gate is total
            return z3.Implies(_sbx.ret_term(out.value), self.attr.t != z3.StringVal(m))
        return post

    def concretize(self, model, pre, out):
        return {"type": self.T.__name__, "attr": _sbx.unescape_z3(_sbx.model_str(model, self.attr.t))}

    def finding_key(self, res):
        w = res.witness or {}
        return f"{w.get('type')}.{w.get('attr')}"

    def replay(self, w):
        return replay_gate(w)


# ---- the documented contract of modifies_known_mutable ------------------------------------------------------------
class Modifies(VC):
    """modifies_known_mutable(obj, attr): "checks if an attribute on a builtin mutable object (list, dict, set or deque)
    ... would modify it if called"; "If called with an unsupported object, False is returned"."""
    prop = "C19"
    target = "jinja2.sandbox:modifies_known_mutable"

    def __init__(self, T):
        self.T = T
        super().__init__("C19", f"C19.modifies_known_mutable.{T.__name__}")
        if T in MUT:
            self.posts = [(f"true_for[{m}]", self.mk_true(m)) for m in MUT[T]] + [("no_false_alarm", Modifies.p_no_false_alarm)]
        else:
            self.posts = [("unsupported_is_false", Modifies.p_false)]

    def configure(self, I):
        _sbx.exact_types(I, {"obj": self.T})

    def setup(self, I, st):
        self.obj, self.attr = sym("obj", "obj"), sym("attr", "str")
        return [self.obj, self.attr], {}

    @staticmethod
    def mk_true(m):
        def post(self, pre, out):
            if out.raised:
                return False
            return z3.Implies(self.attr.t == z3.StringVal(m), _sbx.ret_term(out.value))
        return post

    def p_no_false_alarm(self, pre, out):
        """True only for a mutator, or for a name the type does not have at all (nothing to call)"""
        if out.raised:
            return False
        is_mut = z3.Or(*[self.attr.t == z3.StringVal(m) for m in MUT[self.T]])
        absent = z3.And(*[self.attr.t != z3.StringVal(n) for n in public_names(self.T)])
        return z3.Implies(_sbx.ret_term(out.value), z3.Or(is_mut, absent))

    def p_false(self, pre, out):
        if out.raised:
            return False
        return z3.Not(_sbx.ret_term(out.value))

    def concretize(self, model, pre, out):
        return {"type": self.T.__name__, "attr": _sbx.unescape_z3(_sbx.model_str(model, self.attr.t))}

    def finding_key(self, res):
        w = res.witness or {}
        return f"{w.get('type')}.{w.get('attr')}"

    def replay(self, w):
        from jinja2.sandbox import modifies_known_mutable
        allT = {t.__name__: t for t in TYPES + UNSUPPORTED}
        T = allT[w["type"]]
        attr = w["attr"]
        x = SAMPLES[T][0]() if T in SAMPLES else (T() if T is not type(None) else None)
        got = modifies_known_mutable(x, attr)
        if T in MUT:
            want = attr in MUT[T]
            bad = (got != want) and (want or attr in public_names(T))
        else:
            want, bad = False, bool(got)
        return (bad, f"modifies_known_mutable({w['type']} instance, {attr!r}) = {got}, documented: {want}")



# =====================================================================================================================
# C19.filters.frame : every built-in filter writes only objects it allocated
# =====================================================================================================================
# (a) the frame clauses of the filter contracts of C22 (same real sources, same symbolic runs), listed here under C19
FRAME_CLAUSES = ("frame", "argument_list_unchanged", "no_inplace_update_of_an_argument")


def _c22_frame_tasks():
    from contracts import c22
    out = []
    for t in c22.TASKS:
        posts = getattr(t, "posts", None)
        if not posts or not any(c in FRAME_CLAUSES for c, _ in posts):
            continue
        out.append(t)
    return out


class FrameProxy(VC):
    """Runs one filter contract of contracts/c22.py and keeps its frame obligations (state.written within state.allocated; the
    argument list still holds the original items; no in-place update of an argument).  Engine problems are kept as well."""
    prop = "C19"

    def __init__(self, group, names):
        self.group, self.names = group, names
        VC.__init__(self, "C19", f"C19.filters.frame.{group}")

    def inner(self):
        return [t for t in _c22_frame_tasks() if t.name in self.names]

    def run(self, tier, seed):
        res = []
        for t in self.inner():
            for r in t.run(tier, seed):
                clause = r.name[len(t.name) + 1:].split("#")[0]
                if r.status in ("discharged", "bounded-ok", "refuted") and clause not in FRAME_CLAUSES:
                    continue
                r.name = "C19.filters.frame." + r.name[len("C22."):]
                if isinstance(r.witness, dict):
                    r.witness = dict(r.witness, _c22_task=t.name)
                elif r.status == "refuted":
                    r.witness = {"_c22_task": t.name, "generic": True}
                res.append(r)
        if any(getattr(t, "bound_text", None) for t in self.inner()):
            self.bound_text = "; ".join(sorted({t.bound_text for t in self.inner() if getattr(t, "bound_text", None)}))
        return res

    def _task(self, w):
        ts = [t for t in self.inner() if t.name == (w or {}).get("_c22_task")]
        return ts[0] if ts else None

    def replay(self, w):
        t = self._task(w)
        if t is None:
            return (None, "no inner task")
        v, d = t.replay({k: x for k, x in w.items() if k != "_c22_task"})
        if not v:
            # the property's own oracle on the filter family
            v2, d2 = replay_native_frame({"filter": getattr(t, "fnname", "") or t.name})
            if v2:
                return (v2, d2)
        return (v, d)

    def finding_key(self, res):
        t = self._task(res.witness)
        try:
            return t.finding_key(res) if t is not None else "no-witness"
        except Exception:
            return "no-witness"


def frame_proxy_groups():
    groups = {}
    for t in _c22_frame_tasks():
        nm = t.name[len("C22."):]
        g = nm.split("[")[0]
        g = "async_dispatch" if g == "async_variant.dispatch" else g.replace("async.", "").replace("sync_", "").replace("do_", "")
        if g.startswith(("select", "reject")) or "select_or_reject" in g:
            g = "select_reject"
        if g.startswith("make_"):
            g = "attrgetters"
        if g in ("min", "max", "_min_or_max"):
            g = "min_max"
        if g == "async_variant.dispatch":
            g = "async_dispatch"
        groups.setdefault(g, []).append(t.name)
    return groups


# (b) sync_do_join under autoescape for a list of ANY length passed directly (C22 bounds this case to 0-2 items)
class JoinFrame(VC):
    """sync_do_join(eval_ctx, value, d) with `value` an abstract list of symbolic length that exists before the call: no
    write - in any loop iteration - goes to an object the call did not allocate, and the list still has its items."""
    prop = "C19"
    target = "jinja2.filters:sync_do_join"
    timeout_quick = 20000

    def __init__(self):
        VC.__init__(self, "C19", "C19.filters.frame.join[list of any length]")

    def configure(self, I):
        import jinja2.filters as F
        from pyvc.values import Sym, Ref, HList, HIter, SSeq, Exc, fresh, fresh_name, BoundMethod, Obj
        from pyvc.interp import Raised
        from pyvc.ops import attr_fn
        from pyvc.stmts import LoopSpec
        self.foreign = []
        _sbx.install_frame_watch(I, self.foreign)
        has_html = z3.Function("has___html__", Obj, z3.BoolSort())

        def getattr_obj(I_, st, args, kwargs, node):
            o, name = args
            if name == "__html__":
                out = []
                for s2, b in I_.fork_bool(st, has_html(o.t)):
                    out.append((s2, BoundMethod(o, name)) if b else (s2, Raised(Exc(AttributeError, ("__html__",), origin=getattr(node, "lineno", None)))))
                return out
            return [(st, Sym(attr_fn(name)(o.t), "obj"))]

        I.specs["getattr_obj"] = getattr_obj
        for fn, nm in ((map, "map"), (F.escape, "escape"), (F.soft_str, "soft_str"), (F.make_attrgetter, "make_attrgetter")):
            I.specs[("fn", id(fn))] = A.abstract_fn(nm, returns="obj")
        I.specs["jinja2.filters:make_attrgetter"] = A.abstract_fn("make_attrgetter", returns="obj")
        I.specs["str.join"] = A.abstract_fn("str.join", returns="str")
        I.specs["call_obj"] = A.abstract_fn("call_obj", returns="obj")
        I.specs["method_obj"] = lambda I_, st, args, kwargs, node: A.abstract_fn("method:" + str(args[1]), returns="obj")(I_, st, [args[0]] + list(args[2:]), kwargs, node)

        def enum(I_, st, args, kwargs, node):
            v = args[0]
            h = st.get(v) if isinstance(v, Ref) else None
            if isinstance(h, HList) and not h.concrete:
                j = z3.Int(fresh_name("j"))
                idx = z3.Lambda([j], j)  # the index component of enumerate: position j holds j
                return [(st, st.alloc(HIter(SSeq((idx, h.arr), h.n, ("int", "obj")), 0)))]
            items = I_.iter_concrete(st, v, node)
            return [(st, st.alloc(HIter([(i, x) for i, x in enumerate(items)], 0)))]

        I.specs[("fn", id(enumerate))] = enum

        def heap(st, local):
            v = local.get("value")
            if isinstance(v, Ref) and isinstance(st.get(v), HList) and not st.get(v).concrete:
                st.get(v).arr = z3.Const(fresh_name("joined_arr"), st.get(v).arr.sort())

        I.loops[("sync_do_join", 0)] = LoopSpec(lambda ctx: [], havoc={"do_escape": "bool"}, heap=heap, name="items_loop")

    def setup(self, I, st):
        self.ctx, self.d = sym("eval_ctx", "obj"), sym("d", "obj")
        self.value = A.alist(st, "value", "obj")
        h = st.get(self.value)
        self.arr0, self.n0 = h.arr, h.n
        return [self.ctx, self.value, self.d, None], {}

    def p_frame(self, pre, out):
        for (rid, field) in out.st.written:
            if rid not in out.st.allocated:
                return False
        h = out.st.get(self.value)
        if not (h.arr.eq(self.arr0) and h.n.eq(self.n0)):
            return False
        if not self.foreign:
            return True
        # a write to a pre-existing object anywhere (loop bodies included) must be on an infeasible path
        return z3.And(*[z3.Not(z3.And(*pc)) if pc else z3.BoolVal(False) for _d, pc in self.foreign])

    posts = [("writes_only_what_it_allocated", p_frame)]

    def concretize(self, model, pre, out):
        return {"filter": "join", "templates": ["{{ l|join(', ') }}", "{{ l|join }}"]}

    def describe(self, out):
        extra = ("; foreign writes: " + ", ".join(d for d, _ in self.foreign[:3])) if getattr(self, "foreign", None) else ""
        return VC.describe(self, out) + extra

    def replay(self, w):
        return replay_native_frame(w)


# (c) bounded native stand-in: every registered filter on container data, sync / async, autoescape off / on
def frame_data():
    from markupsafe import Markup
    return {
        "l": [3, 1, 2, 1], "ls": ["b", "a", "C"], "lm": [Markup("<b>"), "x", 1], "d": {"b": 2, "a": 1}, "s": {1, 2, 3},
        "q": deque([3, 1, 2]), "rows": [{"n": 2, "t": [1]}, {"n": 1, "t": [2]}, {"n": 3, "t": []}], "nested": [[1, 2], [3, 4]],
        "l2": [7, 8], "d2": {"z": 1}, "s2": {9}, "q2": deque([5]), "text": "a b",
    }


def canon(x):
    """type-sensitive deep snapshot"""
    if isinstance(x, dict):
        return ("dict", [(canon(k), canon(v)) for k, v in x.items()])
    if isinstance(x, (set, frozenset)):
        return (type(x).__name__, sorted((canon(v) for v in x), key=repr))
    if isinstance(x, (list, tuple, deque)):
        return (type(x).__name__, [canon(v) for v in x], getattr(x, "maxlen", None))
    return (type(x).__name__, repr(x))


CONTAINERS = ("l", "ls", "lm", "d", "s", "q", "rows", "nested")
SPECIFIC = [
    "{{ l|join(', ') }}", "{{ l|join(d=' | ') }}", "{{ lm|join(', ') }}", "{{ q|join(', ') }}", "{{ s|join(', ') }}", "{{ d|join(', ') }}",
    "{{ rows|join(', ', attribute='n') }}", "{{ nested|map('join', '-')|join(';') }}", "{{ nested|map('join', '-')|list }}",
    "{{ l|sort(reverse=true)|list }}", "{{ rows|sort(attribute='n')|list }}", "{{ ls|sort(case_sensitive=true) }}",
    "{{ l|batch(3, fill_with=l2)|list }}", "{{ l|batch(3, l2)|map('list')|list }}", "{{ l|slice(3, fill_with=l2)|list }}", "{{ q|slice(2)|list }}",
    "{{ nested|sum(start=l2) }}", "{{ nested|sum(start=[]) }}", "{{ rows|sum(attribute='t', start=l2) }}", "{{ rows|sum(attribute='n') }}",
    "{{ rows|map(attribute='n')|list }}", "{{ rows|map(attribute='t')|map('first')|list }}", "{{ rows|map(attribute='x', default=l2)|list }}",
    "{{ rows|groupby('n')|list }}", "{{ rows|groupby('n', default=l2)|map(attribute='list')|list }}", "{{ rows|selectattr('n', 'gt', 1)|list }}",
    "{{ rows|rejectattr('t')|list }}", "{{ l|select('odd')|list }}", "{{ l|reject('in', l2)|list }}", "{{ l|unique|list }}", "{{ rows|unique(attribute='n')|list }}",
    "{{ d|dictsort(by='value', reverse=true) }}", "{{ d|items|list }}", "{{ d|xmlattr }}", "{{ d2|xmlattr(false) }}", "{{ d|tojson }}", "{{ l|tojson(indent=2) }}",
    "{{ nested|tojson }}", "{{ q|list|tojson }}", "{{ l|first }}{{ l|last }}{{ l|min }}{{ l|max }}{{ l|length }}{{ l|random is defined }}",
    "{{ rows|min(attribute='n') }}{{ rows|max(attribute='n') }}", "{{ l|reverse|list }}", "{{ q|reverse|list }}", "{{ l|list }}", "{{ q|list }}", "{{ s|list|length }}",
    "{{ text|replace('a', l2) }}", "{{ l|replace(1, 9) }}", "{{ ls|join('a')|replace('a', 'b') }}", "{{ none|default(l2) }}{{ l|default(l2) }}",
    "{{ l|string }}{{ l|pprint }}{{ d|pprint }}", "{{ '%s %s'|format(l, d) }}", "{{ l|map('string')|list }}", "{{ nested|map('reverse')|map('list')|list }}",
    "{{ nested|map('sort', reverse=true)|list }}", "{{ nested|map('batch', 1)|map('list')|list }}", "{{ nested|map('sum', start=0)|list }}",
    "{{ l|attr('append') }}", "{{ nested|map(attribute='0')|list }}", "{{ nested|first|join(',') }}", "{{ lm|map('escape')|join }}",
    "{% for x in l|join(',')|list %}{{ x }}{% endfor %}", "{{ l|join(l2) }}", "{{ ls|join(', ')|indent(2) }}", "{{ d|dictsort|map('join', '=')|join('&') }}",
]


def frame_templates():
    import jinja2
    names = sorted(jinja2.defaults.DEFAULT_FILTERS)
    ts = list(SPECIFIC)
    for f in names:
        for v in CONTAINERS:
            ts.append("{{ %s|%s }}" % (v, f))
            ts.append("{{ %s|%s|list }}" % (v, f))
        ts.append("{{ l|%s(l2) }}" % f)
        ts.append("{{ d|%s(d2) }}" % f)
        ts.append("{{ text|%s(l2, q2) }}" % f)
    return ts


def render_frame_case(src, autoescape, is_async):
    """-> (modified variable names, error name or None)"""
    from jinja2.sandbox import ImmutableSandboxedEnvironment
    env = ImmutableSandboxedEnvironment(autoescape=autoescape, enable_async=is_async)
    data = frame_data()
    before = {k: canon(v) for k, v in data.items()}
    err = None
    try:
        env.from_string(src).render(**data)
    except Exception as ex:
        err = type(ex).__name__
    return sorted(k for k, v in data.items() if canon(v) != before[k]), err


def native_frame(autoescape, is_async):
    def fn(task, tier, seed):
        ts = frame_templates()
        bad = []
        for src in ts:
            mod, err = render_frame_case(src, autoescape, is_async)
            if mod:
                bad.append((src, mod, err))
        name = f"C19.filters.frame.native[autoescape={'on' if autoescape else 'off'},{'async' if is_async else 'sync'}]"
        task.bound_text = (f"{len(ts)} templates: every registered filter x 8 container variables (list, list of str, list with Markup, dict, set, "
                           "deque, list of dicts, nested list) bare and with container-valued arguments, plus a table of argument "
                           "combinations for the collection filters; ImmutableSandboxedEnvironment; data compared with a type-sensitive deep snapshot")
        out = [Res(name, "bounded-ok", "bounded", 0, f"{len(ts) - len(bad)} templates left the data unchanged", "bounded")] if not bad else []
        for src, mod, err in bad:
            out.append(Res(name, "refuted", "bounded", 0, f"{src} modified {mod} ({err or 'no error'})", "bounded",
                           {"templates": [src], "autoescape": autoescape, "async": is_async}))
        return out
    return fn


class NativeFrame(FnTask):
    def __init__(self, autoescape, is_async):
        FnTask.__init__(self, "C19", f"C19.filters.frame.native[autoescape={'on' if autoescape else 'off'},{'async' if is_async else 'sync'}]",
                        native_frame(autoescape, is_async), "bounded", replay_native_frame)

    def finding_key(self, res):
        """<first filter>(<type of the variable it is applied to>) of the failing template"""
        import re
        w = res.witness or {}
        src = (w.get("templates") or [""])[0]
        m = re.match(r"\{\{\s*(\w+)\|(\w+)", src)
        if m and m.group(1) in frame_data():
            return f"{m.group(2)}({type(frame_data()[m.group(1)]).__name__})"
        return src


def replay_native_frame(w):
    """the property's own oracle: render in the immutable sandbox, compare the data with a deep snapshot taken before"""
    ts = list(w.get("templates") or [])
    if not ts:
        f = (w.get("filter") or "").replace("sync_do_", "").replace("do_", "")
        ts = [t for t in frame_templates() if ("|" + f) in t] if f else frame_templates()
    combos = [(w["autoescape"], w["async"])] if "autoescape" in w and "async" in w else [(a, b) for a in (True, False) for b in (False, True)]
    for src in ts:
        for ae, asy in combos:
            mod, err = render_frame_case(src, ae, asy)
            if mod:
                return (True, f"ImmutableSandboxedEnvironment(autoescape={ae}, enable_async={asy}): {src} modified context variable(s) {mod} ({err or 'no error'})")
    return (False, f"{len(ts)} templates x {len(combos)} configurations left the data equal to the snapshot")


TASKS = ([Gate(T) for T in TYPES] + [Modifies(T) for T in TYPES + UNSUPPORTED]
         + [FnTask("C19", "C19.spec.MUT", spec_crosscheck, "table")]
         + [FrameProxy(g, names) for g, names in sorted(frame_proxy_groups().items())]
         + [JoinFrame()]
         + [NativeFrame(ae, asy) for ae in (False, True) for asy in (False, True)])

META = {
    "level": "proof",
    "explanation": "Attribute gate of the immutable sandbox: for every attribute name (symbolic string) and a receiver of exact type "
                   "list/dict/set/deque, the real ImmutableSandboxedEnvironment.is_safe_attribute (with the real modifies_known_mutable "
                   "unrolled over the live _mutable_spec table, isinstance resolved on the live classes) returns True only for names "
                   "outside MUT(T); MUT(T) is written from the library reference and cross-checked against the live types. All routes by "
                   "which a template obtains an attribute end in this gate (C17 route obligations). Filters (C19.filters.frame.*): the frame "
                   "clauses of the filter contracts of contracts/c22.py (state.written within state.allocated, argument list unchanged, no "
                   "in-place update of an argument; slice, batch, unique, sort, dictsort, groupby, min/max, sum, first/last, list, reverse, "
                   "join, map, select/reject family, async twins and dispatch) are re-run under C19; sync_do_join under autoescape is "
                   "additionally proved for a pre-existing list of ANY length (every write, also inside the cut loop, goes to an object the "
                   "call allocated); a bounded native stand-in renders every registered filter on list/dict/set/deque data (bare and with "
                   "container-valued arguments) in the immutable sandbox, sync and async, autoescape off and on, and compares the data with a "
                   "type-sensitive deep snapshot.",
    "assumptions": ["MUT(T) lists the mutating public methods of the four builtin types (cross-checked on sample instances)",
                    "in-place dunders / __setitem__ / __delitem__ are blocked by C17.safe.underscore",
                    "methods of user subclasses are outside 'exact builtin types'",
                    "filter frame clauses are those of contracts/c22.py (same symbolic runs) plus the obligations added here; filters "
                    "without a symbolic contract are covered by the bounded native stand-in only"],
    "trusted_base": ["z3 5.1 / cvc5", "pyvc symbolic executor", "issubclass on the live classes (ABC registration of deque)",
                     "str.startswith / frozenset membership dependency specs"],
}
