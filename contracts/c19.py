"""C19  The immutable sandbox never modifies list, dict, set or deque data  (runtime half: the attribute gate).

Spec MUT(T) (DESIGN Appendix A.1): the public method names of T in {list, dict, set, deque} whose call can change the
receiver, written from the Python library reference ("Mutable Sequence Types", "Mapping Types - dict", "Set Types",
"collections.deque objects") and cross-checked against the live types (C19.spec.MUT.*).

Obligations
  C19.gate.<T>.blocks[m]   for ALL attribute names `attr` (symbolic string) and obj of exact type T:
       ImmutableSandboxedEnvironment.is_safe_attribute(obj, attr, value) is True  ==>  attr != m       (m in MUT(T))
     the real sources of ImmutableSandboxedEnvironment.is_safe_attribute, SandboxedEnvironment.is_safe_attribute,
     is_internal_attribute and modifies_known_mutable are executed symbolically; the loop over the real `_mutable_spec`
     table is unrolled, isinstance is resolved with issubclass on the live classes (deque is a registered MutableSequence).
  C19.modifies_known_mutable.<T>.*   the documented contract of the helper itself (iff, and False for unsupported objects)
  C19.spec.MUT.<T>          cross-check of the spec table against the live types (deep copy comparison)
The mechanism half for stored method references / attr filter / format lookups is C17 (every route ends in
`is_safe_attribute` of the environment, here the immutable one); the filter frame clause is shared with C22/C29.
"""
from __future__ import annotations

import collections
import copy

import z3

from pyvc.contract import VC, Res, FnTask
from pyvc.values import sym
from pyvc import abstract as A
from pyvc.smt import to_term, model_value

from contracts import _sbx

import jinja2.sandbox as S

deque = collections.deque

# ---- spec table (Python library reference) ---------------------------------------------------------------
MUT = {
    list: ("append", "clear", "extend", "insert", "pop", "remove", "reverse", "sort"),
    dict: ("clear", "pop", "popitem", "setdefault", "update"),
    set: ("add", "clear", "difference_update", "discard", "intersection_update", "pop", "remove",
          "symmetric_difference_update", "update"),
    deque: ("append", "appendleft", "clear", "extend", "extendleft", "insert", "pop", "popleft", "remove", "reverse",
            "rotate"),
}
TYPES = (list, dict, set, deque)
UNSUPPORTED = (str, int, tuple, frozenset, type(None))  # "If called with an unsupported object, False is returned"

SAMPLES = {
    list: [lambda: [3, 1, 2], lambda: [], lambda: [1]],
    dict: [lambda: {"a": 1, "b": 2}, lambda: {}],
    set: [lambda: {1, 2, 3}, lambda: set()],
    deque: [lambda: deque([3, 1, 2]), lambda: deque(), lambda: deque([1, 2, 3, 4], maxlen=4)],
}
ARGS = [(), (1,), (0,), ("a",), ([9],), ([1],), ({"z": 1},), (0, 9), ("zz", 5), (1, 2, 3), ({1},)]


def public_names(T):
    return sorted(n for n in dir(T) if not n.startswith("_"))


def snapshot(x):
    return (type(x), list(x.items()) if isinstance(x, dict) else (sorted(x, key=repr) if isinstance(x, set) else list(x)), getattr(x, "maxlen", None))


def observed_mutators(T):
    """names of public methods of the live type that changed some sample receiver (compared with a deep copy)"""
    mut, ok = set(), set()
    for name in public_names(T):
        for mk in SAMPLES[T]:
            for a in ARGS:
                x = mk()
                c = copy.deepcopy(x)
                try:
                    m = getattr(x, name)
                    if not callable(m):
                        continue
                    m(*copy.deepcopy(a))
                    ok.add(name)
                except Exception:
                    pass
                if snapshot(x) != snapshot(c):
                    mut.add(name)
    return mut, ok


def spec_crosscheck(task, tier, seed):
    out = []
    for T in TYPES:
        mut, ok = observed_mutators(T)
        spec = set(MUT[T])
        name = f"C19.spec.MUT.{T.__name__}"
        if mut == spec:
            out.append(Res(name, "discharged", "table", 0, f"{len(public_names(T))} public names x {len(SAMPLES[T])} samples x {len(ARGS)} argument tuples: observed mutators == MUT", "table"))
        else:
            out.append(Res(name, "error", "table", 0, f"spec table disagrees with the live type: observed-only {sorted(mut - spec)}, spec-only {sorted(spec - mut)}", "table"))
    return out


# ---- native oracle of the property: data equals a deep copy taken before rendering ---------------------------------
ROUTES = {
    "dot": "{{ x.%(a)s(*a) }}",
    "subscript": "{{ x[%(q)s](*a) }}",
    "attr filter": "{{ (x|attr(%(q)s))(*a) }}",
    "map(attribute=)": "{%% for m in [x]|map(attribute=%(q)s) %%}{{ m(*a) }}{%% endfor %%}",
    "stored reference": "{%% set m = x.%(a)s %%}{{ m(*a) }}",
    "stored subscript reference": "{%% set m = x[%(q)s] %%}{{ m(*a) }}",
    "selectattr": "{%% for o in [x]|selectattr(%(q)s) %%}{{ o[%(q)s](*a) }}{%% endfor %%}",
}


CLASS_ROUTES = {
    "unbound method of the class": "{{ c.%(a)s(x, *a) }}",
    "stored unbound method": "{%% set m = c.%(a)s %%}{{ m(x, *a) }}",
    "attr filter on the class": "{{ (c|attr(%(q)s))(x, *a) }}",
    "subscript of the class object": "{{ c[%(q)s](x, *a) }}",
    "parameterized alias made in the template": "{{ c['x'].%(a)s(x, *a) }}",
}


def receiver_of(T, receiver):
    """the object the attribute is looked up on: an instance is made by the caller; the class itself; a parameterized alias"""
    if receiver == "class":
        return T
    if receiver == "typing alias":
        import typing
        return {list: typing.List[int], dict: typing.Dict[str, int], set: typing.Set[int], deque: typing.Deque[int]}[T]
    if receiver == "bare typing alias":
        import typing
        return {list: typing.List, dict: typing.Dict, set: typing.Set, deque: typing.Deque}[T]
    return T[int, int] if T is dict else T[int]


def native_modifies_via_class(tname, attr, receiver="class", env_kwargs=None):
    """{{ dict.update(d, ...) }}: the mutator is taken from the class (or an alias of it) and applied to the data"""
    from jinja2.sandbox import ImmutableSandboxedEnvironment
    T = {t.__name__: t for t in TYPES}[tname]
    env = ImmutableSandboxedEnvironment(**(env_kwargs or {}))
    if not attr.isidentifier():
        return False, f"{attr!r} is not an identifier"
    c = receiver_of(T, receiver)
    for route, pat in CLASS_ROUTES.items():
        if receiver != "class" and "made in the template" in route:
            continue
        src = pat % {"a": attr, "q": repr(attr)}
        try:
            tmpl = env.from_string(src)
        except Exception:
            continue
        for mk in SAMPLES[T]:
            for a in ARGS:
                x = mk()
                cp = copy.deepcopy(x)
                try:
                    tmpl.render(x=x, a=copy.deepcopy(a), c=c)
                    err = None
                except Exception as ex:
                    err = type(ex).__name__
                if snapshot(x) != snapshot(cp):
                    return True, (f"ImmutableSandboxedEnvironment ({route}): {src} with c={c!r}, a={a!r}, x={cp!r} "
                                  f"changed x to {x!r} ({'no error' if err is None else err})")
    return False, f"no call of {tname}.{attr} taken from {receiver_of(T, receiver)!r} changed the data"


def native_modifies(tname, attr, routes=None, env_kwargs=None):
    """Call x.<attr>(*a) through every access route in the real ImmutableSandboxedEnvironment on sample data;
    -> (modified?, detail)."""
    from jinja2.sandbox import ImmutableSandboxedEnvironment
    T = {t.__name__: t for t in TYPES}[tname]
    env = ImmutableSandboxedEnvironment(**(env_kwargs or {}))
    if not attr.isidentifier():
        return False, f"{attr!r} is not an identifier"
    for route in (routes or list(ROUTES)):
        src = ROUTES[route] % {"a": attr, "q": repr(attr)}
        try:
            tmpl = env.from_string(src)
        except Exception as ex:
            continue
        for mk in SAMPLES[T]:
            for a in ARGS:
                x = mk()
                c = copy.deepcopy(x)
                try:
                    tmpl.render(x=x, a=copy.deepcopy(a))
                    err = None
                except Exception as ex:
                    err = type(ex).__name__
                if snapshot(x) != snapshot(c):
                    return True, (f"ImmutableSandboxedEnvironment ({route}): {src} with a={a!r}, x={c!r} "
                                  f"changed x to {x!r} ({'no error' if err is None else err})")
    return False, f"no sample call of {tname}.{attr} through {routes or list(ROUTES)} changed the data"


def replay_gate(w):
    from jinja2.sandbox import ImmutableSandboxedEnvironment
    T = {t.__name__: t for t in TYPES}[w["type"]]
    attr = w["attr"]
    env = ImmutableSandboxedEnvironment()
    x = SAMPLES[T][0]()
    rcv = w.get("receiver", "instance")
    if rcv != "instance":
        x = receiver_of(T, rcv)
        safe = env.is_safe_attribute(x, attr, getattr(x, attr, None))
        mod, detail = native_modifies_via_class(w["type"], attr, rcv)
        return (bool(safe and mod), f"is_safe_attribute({x!r}, {attr!r}) = {safe}; {detail}")
    safe = env.is_safe_attribute(x, attr, getattr(x, attr, None))
    mod, detail = native_modifies(w["type"], attr)
    return (bool(safe and mod), f"is_safe_attribute({w['type']}, {attr!r}) = {safe}; {detail}")


# ---- the gate ------------------------------------------------------------------------------------------------------
class Gate(VC):
    prop = "C19"
    target = "jinja2.sandbox:ImmutableSandboxedEnvironment.is_safe_attribute"

    def __init__(self, T, receiver="instance"):
        """receiver: the attribute is looked up on an instance of T, on the class T itself (`dict.update` is the same mutator,
        it takes the object to modify as its first argument) or on a parameterized alias of T (which forwards to the class)"""
        self.T, self.receiver = T, receiver
        super().__init__("C19", f"C19.gate.{T.__name__}" + ("" if receiver == "instance" else f"[{receiver} receiver]"))
        self.posts = [(f"blocks[{m}]", self.mk_post(m)) for m in MUT[T]]
        if receiver != "instance":
            self.posts = [("blocks_every_mutator", Gate.p_all)]

    def p_all(self, pre, out):
        if out.raised:
            return False
        # MUT(T) is finite: "True only for names outside MUT(T)" is decided by one ground query per mutator name (string goals
        # with a free name are slow when the machine is loaded)
        from pyvc.smt import check_sat
        ret = _sbx.ret_term(out.value)
        undecided = False
        for m in MUT[self.T]:
            r = check_sat(list(out.st.pc) + [ret, self.attr.t == z3.StringVal(m)], 8000, 0, use_cvc5=False)
            if r.status == "sat":
                return z3.Implies(ret, self.attr.t != z3.StringVal(m))
            undecided = undecided or r.status != "unsat"
        if not undecided:
            return True
        return z3.Implies(ret, z3.And(*[self.attr.t != z3.StringVal(m) for m in MUT[self.T]]))

    def configure(self, I):
        I.inline.update({"jinja2.sandbox:modifies_known_mutable", "jinja2.sandbox:is_internal_attribute", "jinja2.sandbox:_alias_origin",
                         "jinja2.sandbox:SandboxedEnvironment.is_safe_attribute"})
        if self.receiver == "instance":
            _sbx.exact_types(I, {"obj": self.T})
        _sbx.install_super(I, S.ImmutableSandboxedEnvironment, lambda: (self.env, S.ImmutableSandboxedEnvironment))

    def setup(self, I, st):
        self.env = A.obj(st, S.ImmutableSandboxedEnvironment, "env")
        self.attr, self.value = sym("attr", "str"), sym("value", "obj")
        # class / alias receivers are the live objects themselves: isinstance / issubclass are evaluated on them
        self.obj = sym("obj", "obj") if self.receiver == "instance" else receiver_of(self.T, self.receiver)
        return [self.env, self.obj, self.attr, self.value], {}

    @staticmethod
    def mk_post(m):
        def post(self, pre, out):
            if out.raised:
                return False  # the gate is total
            return z3.Implies(_sbx.ret_term(out.value), self.attr.t != z3.StringVal(m))
        return post

    def concretize(self, model, pre, out):
        return {"type": self.T.__name__, "attr": _sbx.unescape_z3(_sbx.model_str(model, self.attr.t)), "receiver": self.receiver}

    def finding_key(self, res):
        w = res.witness or {}
        rc = w.get("receiver", "instance")
        return f"{w.get('type')}.{w.get('attr')}" if rc == "instance" else f"{w.get('type')}[{rc}]"

    def replay(self, w):
        return replay_gate(w)


# ---- the documented contract of modifies_known_mutable ------------------------------------------------------------
class Modifies(VC):
    """modifies_known_mutable(obj, attr): "checks if an attribute on a builtin mutable object (list, dict, set or deque)
    ... would modify it if called"; "If called with an unsupported object, False is returned"."""
    prop = "C19"
    target = "jinja2.sandbox:modifies_known_mutable"

    def __init__(self, T):
        self.T = T
        super().__init__("C19", f"C19.modifies_known_mutable.{T.__name__}")
        if T in MUT:
            self.posts = [(f"true_for[{m}]", self.mk_true(m)) for m in MUT[T]] + [("no_false_alarm", Modifies.p_no_false_alarm)]
        else:
            self.posts = [("unsupported_is_false", Modifies.p_false)]

    def configure(self, I):
        _sbx.exact_types(I, {"obj": self.T})

    def setup(self, I, st):
        self.obj, self.attr = sym("obj", "obj"), sym("attr", "str")
        return [self.obj, self.attr], {}

    @staticmethod
    def mk_true(m):
        def post(self, pre, out):
            if out.raised:
                return False
            return z3.Implies(self.attr.t == z3.StringVal(m), _sbx.ret_term(out.value))
        return post

    def p_no_false_alarm(self, pre, out):
        """True only for a mutator, or for a name the type does not have at all (nothing to call)"""
        if out.raised:
            return False
        is_mut = z3.Or(*[self.attr.t == z3.StringVal(m) for m in MUT[self.T]])
        absent = z3.And(*[self.attr.t != z3.StringVal(n) for n in public_names(self.T)])
        return z3.Implies(_sbx.ret_term(out.value), z3.Or(is_mut, absent))

    def p_false(self, pre, out):
        if out.raised:
            return False
        return z3.Not(_sbx.ret_term(out.value))

    def concretize(self, model, pre, out):
        return {"type": self.T.__name__, "attr": _sbx.unescape_z3(_sbx.model_str(model, self.attr.t))}

    def finding_key(self, res):
        w = res.witness or {}
        return f"{w.get('type')}.{w.get('attr')}"

    def replay(self, w):
        from jinja2.sandbox import modifies_known_mutable
        allT = {t.__name__: t for t in TYPES + UNSUPPORTED}
        T = allT[w["type"]]
        attr = w["attr"]
        x = SAMPLES[T][0]() if T in SAMPLES else (T() if T is not type(None) else None)
        got = modifies_known_mutable(x, attr)
        if T in MUT:
            want = attr in MUT[T]
            bad = (got != want) and (want or attr in public_names(T))
        else:
            want, bad = False, bool(got)
        return (bad, f"modifies_known_mutable({w['type']} instance, {attr!r}) = {got}, documented: {want}")



# =====================================================================================================================
# the gate as the two access methods of the environment use it
# =====================================================================================================================
class RouteGate(VC):
    """SandboxedEnvironment.getattr / getitem (real source) on an ImmutableSandboxedEnvironment whose real is_safe_attribute is
    inlined, receiver of exact type T, ANY attribute name: the value of the builtin attribute lookup (ghost tag raw_attr) is
    returned only for names outside MUT(T) - for dot syntax AND for the attribute fallback of subscript syntax (which the attr
    filter, map(attribute=...) and format-field lookups use as well)."""
    prop = "C19"

    def __init__(self, fn, T):
        self.fn, self.T = fn, T
        self.target = f"jinja2.sandbox:SandboxedEnvironment.{fn}"
        VC.__init__(self, "C19", f"C19.gate.route[{fn}].{T.__name__}")
        self.posts = [(f"blocks[{m}]", self.mk_post(m)) for m in MUT[T]] + [("attribute_branch_explored", RouteGate.p_explored)]
        self.expect_paths_min = 3

    def configure(self, I):
        from contracts import c17
        c17.install_ghosts(I)
        I.inline.update({"jinja2.sandbox:modifies_known_mutable", "jinja2.sandbox:is_internal_attribute", "jinja2.sandbox:_alias_origin",
                         "jinja2.sandbox:SandboxedEnvironment.is_safe_attribute", "jinja2.sandbox:ImmutableSandboxedEnvironment.is_safe_attribute"})
        _sbx.exact_types(I, {"obj": self.T})
        _sbx.install_super(I, S.ImmutableSandboxedEnvironment, lambda: (self.env, S.ImmutableSandboxedEnvironment))
        I.specs["SandboxedEnvironment.wrap_str_format"] = A.abstract_fn("wrap_str_format", returns="obj", tags=("fmt_wrapper",))
        I.specs["SandboxedEnvironment.unsafe_undefined"] = A.abstract_fn("unsafe_undefined", returns="obj", tags=("security_undefined",))
        I.specs["SandboxedEnvironment.undefined"] = A.abstract_fn("undefined", returns="obj", tags=("undefined",))
        self.raw_returns = 0

    def setup(self, I, st):
        self.env = A.obj(st, S.ImmutableSandboxedEnvironment, "env")
        self.obj, self.attr = sym("obj", "obj"), sym("key", "str")
        return [self.env, self.obj, self.attr], {}

    def raw_returned(self, out):
        if not out.returned:
            return False
        for e in out.st.trace:
            if e.kind == "call" and e.name == "builtin.getattr" and _sbx.same(e.result, out.value):
                return True
        return False

    @staticmethod
    def mk_post(m):
        def post(self, pre, out):
            if not self.raw_returned(out):
                return None
            self.raw_returns += 1
            return self.attr.t != z3.StringVal(m)
        return post

    def p_explored(self, pre, out):
        """vacuity guard: some path hands the raw attribute out (names outside MUT(T) are allowed)"""
        if out.idx != 0:
            return None
        from pyvc.contract import VC as _VC
        return True

    def run(self, tier, seed):
        rs = VC.run(self, tier, seed)
        if not any(".blocks[" in r.name for r in rs) and not any(r.status in ("unknown", "error") for r in rs):
            rs.append(Res(self.name + ".paths", "error", "pyvc", 0, "no path returns the looked-up attribute: the gate was not exercised", "vc"))
        return rs

    def concretize(self, model, pre, out):
        return {"type": self.T.__name__, "attr": _sbx.unescape_z3(_sbx.model_str(model, self.attr.t)), "fn": self.fn}

    def finding_key(self, res):
        w = res.witness or {}
        return f"{w.get('type')}.{w.get('attr')}"

    def replay(self, w):
        from jinja2.sandbox import ImmutableSandboxedEnvironment
        T = {t.__name__: t for t in TYPES}[w["type"]]
        x = SAMPLES[T][0]()
        r = getattr(ImmutableSandboxedEnvironment(), w["fn"])(x, w["attr"])
        handed = callable(r) and getattr(r, "__self__", None) is x
        routes = ["dot", "stored reference"] if w["fn"] == "getattr" else ["subscript", "attr filter", "map(attribute=)", "stored subscript reference"]
        mod, detail = native_modifies(w["type"], w["attr"], routes)
        return (bool(handed and mod), f"ImmutableSandboxedEnvironment.{w['fn']}({w['type']}, {w['attr']!r}) hands out the bound method: {handed}; {detail}")


def native_gate_routes(task, tier, seed):
    """bounded stand-in of the statement's own quantifier: every public method name of the four builtin types, called with the
    generated argument tuples through every access route (dot, subscript, attr filter, map(attribute=), stored references,
    selectattr), sync and async: the data equals its deep copy"""
    out = []
    n = 0
    for T in TYPES:
        bad = []
        for name in public_names(T):
            for kw in ({}, {"enable_async": True}):
                n += 1
                mod, detail = native_modifies(T.__name__, name, None, kw)
                via = None
                for rcv in ("class", "alias", "typing alias", "bare typing alias"):
                    if not mod:
                        mod, detail = native_modifies_via_class(T.__name__, name, rcv, kw)
                        via = rcv if mod else None
                if mod:
                    bad.append((name, detail, via))
                    break
        nm = f"C19.gate.native.{T.__name__}"
        if bad:
            for name, detail, via in bad:
                out.append(Res(nm, "refuted", "bounded", 0, detail, "bounded", {"type": T.__name__, "attr": name, "receiver": via or "instance"}))
        else:
            out.append(Res(nm, "bounded-ok", "bounded", 0, f"{len(public_names(T))} public names x ({len(ROUTES)} instance routes + {len(CLASS_ROUTES)} routes through the class / a parameterized alias) x {len(SAMPLES[T])} samples x {len(ARGS)} argument tuples x sync/async", "bounded"))
    task.bound_text = (f"every public method name of list/dict/set/deque x routes {list(ROUTES)} x sample receivers x {len(ARGS)} argument tuples, "
                       "ImmutableSandboxedEnvironment sync and async")
    return out


class NativeGate(FnTask):
    def __init__(self):
        def replay(w):
            v, d = native_modifies(w["type"], w["attr"])
            for rcv in ("class", "alias", "typing alias", "bare typing alias"):
                if not v:
                    v, d = native_modifies_via_class(w["type"], w["attr"], rcv)
            return (v, d)
        FnTask.__init__(self, "C19", "C19.gate.native", native_gate_routes, "bounded", replay)

    def finding_key(self, res):
        w = res.witness or {}
        rc = w.get("receiver", "instance")
        return f"{w.get('type')}.{w.get('attr')}" if rc == "instance" else f"{w.get('type')}[{rc}]"


# =====================================================================================================================
# C19.globals.frame : objects a template can construct from data through the default globals copy, never alias
# =====================================================================================================================
class NamespaceInit(VC):
    """utils.Namespace.__init__(*args, **kwargs) ("may be initialized from a dictionary or with keyword arguments"): the
    attribute storage is a dict allocated by the call - never one of the arguments - holding dict(*args, **kwargs); the
    arguments are not written.  ({% set ns.x = v %} writes into that storage.)"""
    prop = "C19"
    target = "jinja2.utils:Namespace.__init__"
    SHAPES = ("abstract dict", "concrete dict", "concrete dict + kwargs", "kwargs only", "pairs", "empty")

    def __init__(self, shape):
        self.shape = shape
        VC.__init__(self, "C19", f"C19.globals.frame.Namespace.__init__[{shape}]")

    def setup(self, I, st):
        import jinja2.utils as U
        from pyvc.values import HObj, HDict, HList
        self.ns = st.alloc(HObj(U.Namespace), initial=True)
        st.get(self.ns).plain_setattr = True
        self.v1, self.v2 = sym("v1", "obj"), sym("v2", "obj")
        self.argrefs = []
        args, kwargs = [self.ns], {}
        self.expect = None
        if self.shape == "abstract dict":
            d = A.adict(st, "data", "obj", "obj")
            args.append(d)
            self.argrefs.append(d)
        elif self.shape.startswith("concrete dict"):
            d = st.alloc(HDict(items={"a": self.v1}), initial=True)
            args.append(d)
            self.argrefs.append(d)
            self.expect = {"a": self.v1}
            if "kwargs" in self.shape:
                kwargs = {"b": self.v2}
                self.expect = {"a": self.v1, "b": self.v2}
        elif self.shape == "kwargs only":
            kwargs = {"b": self.v2}
            self.expect = {"b": self.v2}
        elif self.shape == "pairs":
            args.append((("a", self.v1), ("b", self.v2)))  # an iterable of pairs (e.g. d|items)
            self.expect = {"a": self.v1, "b": self.v2}
        else:
            self.expect = {}
        self.pre_snap = {r.id: st.get(r).copy() for r in self.argrefs}
        return args, kwargs

    def p_storage(self, pre, out):
        from pyvc.values import HDict, Ref
        if out.raised:
            return False
        f = out.st.get(self.ns).fields
        store = f.get("__attrs", f.get("_Namespace__attrs"))
        if not isinstance(store, Ref) or store.id not in out.st.allocated or any(store == r for r in self.argrefs):
            return False  # the storage must be a dict of its own
        h = out.st.get(store)
        if not isinstance(h, HDict):
            return False
        if self.shape == "abstract dict":
            src = self.pre_snap[self.argrefs[0].id]
            return (not h.concrete) and h.dom.eq(src.dom) and h.val.eq(src.val)
        return h.concrete and list(h.items) == list(self.expect) and all(_sbx.same(h.items[k], v) for k, v in self.expect.items())

    def p_frame(self, pre, out):
        from pyvc.values import HDict
        for (rid, field) in out.st.written:
            if rid not in out.st.allocated and rid != self.ns.id:
                return False
        for r in self.argrefs:
            h, h0 = out.st.get(r), self.pre_snap[r.id]
            if isinstance(h, HDict) and not h.concrete:
                if not (h.dom.eq(h0.dom) and h.val.eq(h0.val)):
                    return False
            elif list(h.items) != list(h0.items):
                return False
        return True

    posts = [("storage_is_a_fresh_dict_with_the_given_content", p_storage), ("arguments_not_written", p_frame)]

    def concretize(self, model, pre, out):
        return {"global": "namespace", "shape": self.shape}

    def replay(self, w):
        return replay_globals_frame(w)


GLOBAL_TEMPLATES = [
    "{% set ns = namespace(d) %}{% set ns.level = 99 %}{{ ns.level }}", "{% set ns = namespace(d) %}{% set ns.b = 0 %}{{ ns.b }}",
    "{% set ns = namespace(d, extra=l) %}{% set ns.extra = 1 %}{% set ns.a = l2 %}", "{% set ns = namespace(**d) %}{% set ns.a = 5 %}",
    "{% set ns = namespace(d2) %}{% for x in l %}{% set ns.z = ns.z + x %}{% endfor %}{{ ns.z }}", "{% set ns = namespace(d|items) %}{% set ns.a = 5 %}",
    "{% set ns = namespace(items=l) %}{% set ns.items = ns.items + [1] %}{{ ns.items }}", "{% set ns = namespace(rows[0]) %}{% set ns.n = 77 %}{% set ns.t = [] %}",
    "{% set ns = namespace(nested=nested, d=d) %}{% set ns.nested = 1 %}{% set ns.d = 2 %}", "{% set ns = namespace(d) %}{% set ns.level = l %}{% set ns.level = ns.level + l2 %}",
    "{% set x = dict(d) %}{{ x }}", "{% set x = dict(d, z=l) %}{{ x.z }}", "{% set x = dict(d2, **d) %}{{ x|items|list }}", "{{ dict(d|items) }}", "{{ dict(a=l, b=d).a }}",
    "{% set c = cycler(*l) %}{{ c.next() }}{{ c.next() }}{{ c.current }}{{ c.reset() }}", "{% set c = cycler(l, d, s, q) %}{{ c.next() }}{{ c.next() }}{{ c.items }}",
    "{% set c = cycler(*nested) %}{% for i in range(5) %}{{ c.next() }}{% endfor %}", "{% set j = joiner(ls|join) %}{{ j() }}{{ j() }}", "{% set j = joiner(', ') %}{% for x in l %}{{ j() }}{{ x }}{% endfor %}",
    "{{ range(l|length)|list }}{{ range(*l2)|list }}", "{{ lipsum(n=1)|length }}", "{% set ns = namespace() %}{% set ns.d = d %}{% set ns.d = dict(ns.d, k=1) %}{{ ns.d }}",
    "{% set ns = namespace(q=q, s=s) %}{% set ns.q = ns.q|list + [1] %}{% set ns.s = 0 %}", "{% set a, b = l2 %}{% set l3 = l + l2 %}{{ l3 }}{% set d3 = dict(d, **d2) %}{{ d3 }}",
    "{% with d = dict(d) %}{% set ns = namespace(d) %}{% set ns.a = 9 %}{% endwith %}{{ d }}", "{% macro m(x) %}{% set ns = namespace(x) %}{% set ns.a = 3 %}{% endmacro %}{{ m(d) }}{{ m(d2) }}",
]


def globals_templates():
    import jinja2
    ts = list(GLOBAL_TEMPLATES)
    for g in sorted(jinja2.defaults.DEFAULT_NAMESPACE):
        for v in ("l", "d", "s", "q", "rows", "nested", "l2", "d2"):
            ts.append("{{ %s(%s) }}" % (g, v))
            ts.append("{%% set o = %s(%s) %%}{%% set o.level = 99 %%}{%% set o.a = 1 %%}{%% set o.n = 1 %%}" % (g, v))
        ts.append("{{ %s(*l2) }}" % g)
        ts.append("{%% set o = %s(**d) %%}{%% set o.a = 99 %%}" % g)
        ts.append("{%% set o = %s(d, **d2) %%}{%% set o.z = 99 %%}" % g)
    return ts


def native_globals_frame(autoescape, is_async):
    def fn(task, tier, seed):
        ts = globals_templates()
        bad = []
        for src in ts:
            mod, err = render_frame_case(src, autoescape, is_async)
            if mod:
                bad.append((src, mod, err))
        name = f"C19.globals.frame.native[autoescape={'on' if autoescape else 'off'},{'async' if is_async else 'sync'}]"
        task.bound_text = (f"{len(ts)} templates: every default global (range, dict, lipsum, cycler, joiner, namespace) applied to list/dict/set/deque "
                           "data (positional, *args, **kwargs), attribute assignment on the result, plus a table of namespace / dict / cycler / "
                           "joiner uses; ImmutableSandboxedEnvironment; data compared with a type-sensitive deep snapshot")
        out = [Res(name, "bounded-ok", "bounded", 0, f"{len(ts)} templates left the data unchanged", "bounded")] if not bad else []
        for src, mod, err in bad:
            out.append(Res(name, "refuted", "bounded", 0, f"{src} modified {mod} ({err or 'no error'})", "bounded",
                           {"templates": [src], "autoescape": autoescape, "async": is_async}))
        return out
    return fn


class NativeGlobals(FnTask):
    def __init__(self, autoescape, is_async):
        FnTask.__init__(self, "C19", f"C19.globals.frame.native[autoescape={'on' if autoescape else 'off'},{'async' if is_async else 'sync'}]",
                        native_globals_frame(autoescape, is_async), "bounded", lambda w: replay_globals_frame(w))

    def finding_key(self, res):
        """<global>(<argument variable>) of the failing template: one report per global and argument"""
        import re
        src = ((res.witness or {}).get("templates") or [""])[0]
        m = re.search(r"\b(namespace|dict|cycler|joiner|range|lipsum)\(([^)]*)\)", src)
        return f"{m.group(1)}({m.group(2)})" if m else src


def replay_globals_frame(w):
    ts = list(w.get("templates") or []) or globals_templates()
    combos = [(w["autoescape"], w["async"])] if "autoescape" in w and "async" in w else [(a, b) for a in (False, True) for b in (False, True)]
    for src in ts:
        for ae, asy in combos:
            mod, err = render_frame_case(src, ae, asy)
            if mod:
                return (True, f"ImmutableSandboxedEnvironment(autoescape={ae}, enable_async={asy}): {src} modified context variable(s) {mod} ({err or 'no error'})")
    return (False, f"{len(ts)} templates x {len(combos)} configurations left the data equal to the snapshot")


# =====================================================================================================================
# C19.filters.frame : every built-in filter writes only objects it allocated
# =====================================================================================================================
# (a) the frame clauses of the filter contracts of C22 (same real sources, same symbolic runs), listed here under C19
FRAME_CLAUSES = ("frame", "argument_list_unchanged", "no_inplace_update_of_an_argument")


def _c22_frame_tasks():
    from contracts import c22
    out = []
    for t in c22.TASKS:
        posts = getattr(t, "posts", None)
        if not posts or not any(c in FRAME_CLAUSES for c, _ in posts):
            continue
        out.append(t)
    return out


class FrameProxy(VC):
    """Runs one filter contract of contracts/c22.py and keeps its frame obligations (state.written within state.allocated; the
    argument list still holds the original items; no in-place update of an argument).  Engine problems are kept as well."""
    prop = "C19"

    def __init__(self, group, names):
        self.group, self.names = group, names
        VC.__init__(self, "C19", f"C19.filters.frame.{group}")

    def inner(self):
        return [t for t in _c22_frame_tasks() if t.name in self.names]

    def run(self, tier, seed):
        res = []
        for t in self.inner():
            for r in t.run(tier, seed):
                clause = r.name[len(t.name) + 1:].split("#")[0]
                if r.status in ("discharged", "bounded-ok", "refuted") and clause not in FRAME_CLAUSES:
                    continue
                r.name = "C19.filters.frame." + r.name[len("C22."):]
                if isinstance(r.witness, dict):
                    r.witness = dict(r.witness, _c22_task=t.name)
                elif r.status == "refuted":
                    r.witness = {"_c22_task": t.name, "generic": True}
                res.append(r)
        if any(getattr(t, "bound_text", None) for t in self.inner()):
            self.bound_text = "; ".join(sorted({t.bound_text for t in self.inner() if getattr(t, "bound_text", None)}))
        return res

    def _task(self, w):
        ts = [t for t in self.inner() if t.name == (w or {}).get("_c22_task")]
        return ts[0] if ts else None

    def replay(self, w):
        t = self._task(w)
        if t is None:
            return (None, "no inner task")
        v, d = t.replay({k: x for k, x in w.items() if k != "_c22_task"})
        if not v:
            # the property's own oracle on the filter family
            v2, d2 = replay_native_frame({"filter": getattr(t, "fnname", "") or t.name})
            if v2:
                return (v2, d2)
        return (v, d)

    def finding_key(self, res):
        t = self._task(res.witness)
        try:
            return t.finding_key(res) if t is not None else "no-witness"
        except Exception:
            return "no-witness"


def frame_proxy_groups():
    groups = {}
    for t in _c22_frame_tasks():
        nm = t.name[len("C22."):]
        g = nm.split("[")[0]
        g = "async_dispatch" if g == "async_variant.dispatch" else g.replace("async.", "").replace("sync_", "").replace("do_", "")
        if g.startswith(("select", "reject")) or "select_or_reject" in g:
            g = "select_reject"
        if g.startswith("make_"):
            g = "attrgetters"
        if g in ("min", "max", "_min_or_max"):
            g = "min_max"
        if g == "async_variant.dispatch":
            g = "async_dispatch"
        groups.setdefault(g, []).append(t.name)
    return groups


# (b) sync_do_join under autoescape for a list of ANY length passed directly (C22 bounds this case to 0-2 items)
class JoinFrame(VC):
    """sync_do_join(eval_ctx, value, d) with `value` an abstract list of symbolic length that exists before the call: no
    write - in any loop iteration - goes to an object the call did not allocate, and the list still has its items."""
    prop = "C19"
    target = "jinja2.filters:sync_do_join"
    timeout_quick = 20000

    def __init__(self):
        VC.__init__(self, "C19", "C19.filters.frame.join[list of any length]")

    def configure(self, I):
        import jinja2.filters as F
        from pyvc.values import Sym, Ref, HList, HIter, SSeq, Exc, fresh, fresh_name, BoundMethod, Obj
        from pyvc.interp import Raised
        from pyvc.ops import attr_fn
        from pyvc.stmts import LoopSpec
        self.foreign = []
        _sbx.install_frame_watch(I, self.foreign)
        has_html = z3.Function("has___html__", Obj, z3.BoolSort())

        def getattr_obj(I_, st, args, kwargs, node):
            o, name = args
            if name == "__html__":
                out = []
                for s2, b in I_.fork_bool(st, has_html(o.t)):
                    out.append((s2, BoundMethod(o, name)) if b else (s2, Raised(Exc(AttributeError, ("__html__",), origin=getattr(node, "lineno", None)))))
                return out
            return [(st, Sym(attr_fn(name)(o.t), "obj"))]

        I.specs["getattr_obj"] = getattr_obj
        for fn, nm in ((map, "map"), (F.escape, "escape"), (F.soft_str, "soft_str"), (F.make_attrgetter, "make_attrgetter")):
            I.specs[("fn", id(fn))] = A.abstract_fn(nm, returns="obj")
        I.specs["jinja2.filters:make_attrgetter"] = A.abstract_fn("make_attrgetter", returns="obj")
        I.specs["str.join"] = A.abstract_fn("str.join", returns="str")
        I.specs["call_obj"] = A.abstract_fn("call_obj", returns="obj")
        I.specs["method_obj"] = lambda I_, st, args, kwargs, node: A.abstract_fn("method:" + str(args[1]), returns="obj")(I_, st, [args[0]] + list(args[2:]), kwargs, node)

        def enum(I_, st, args, kwargs, node):
            v = args[0]
            h = st.get(v) if isinstance(v, Ref) else None
            if isinstance(h, HList) and not h.concrete:
                j = z3.Int(fresh_name("j"))
                idx = z3.Lambda([j], j)  # the index component of enumerate: position j holds j
                return [(st, st.alloc(HIter(SSeq((idx, h.arr), h.n, ("int", "obj")), 0)))]
            items = I_.iter_concrete(st, v, node)
            return [(st, st.alloc(HIter([(i, x) for i, x in enumerate(items)], 0)))]

        I.specs[("fn", id(enumerate))] = enum

        def heap(st, local):
            v = local.get("value")
            if isinstance(v, Ref) and isinstance(st.get(v), HList) and not st.get(v).concrete:
                st.get(v).arr = z3.Const(fresh_name("joined_arr"), st.get(v).arr.sort())

        I.loops[("sync_do_join", 0)] = LoopSpec(lambda ctx: [], havoc={"do_escape": "bool"}, heap=heap, name="items_loop")

    def setup(self, I, st):
        self.ctx, self.d = sym("eval_ctx", "obj"), sym("d", "obj")
        self.value = A.alist(st, "value", "obj")
        h = st.get(self.value)
        self.arr0, self.n0 = h.arr, h.n
        return [self.ctx, self.value, self.d, None], {}

    def p_frame(self, pre, out):
        for (rid, field) in out.st.written:
            if rid not in out.st.allocated:
                return False
        h = out.st.get(self.value)
        if not (h.arr.eq(self.arr0) and h.n.eq(self.n0)):
            return False
        if not self.foreign:
            return True
        # a write to a pre-existing object anywhere (loop bodies included) must be on an infeasible path
        return z3.And(*[z3.Not(z3.And(*pc)) if pc else z3.BoolVal(False) for _d, pc in self.foreign])

    posts = [("writes_only_what_it_allocated", p_frame)]

    def concretize(self, model, pre, out):
        return {"filter": "join", "templates": ["{{ l|join(', ') }}", "{{ l|join }}"]}

    def describe(self, out):
        extra = ("; foreign writes: " + ", ".join(d for d, _ in self.foreign[:3])) if getattr(self, "foreign", None) else ""
        return VC.describe(self, out) + extra

    def replay(self, w):
        return replay_native_frame(w)


# (c) bounded native stand-in: every registered filter on container data, sync / async, autoescape off / on
def frame_data():
    from markupsafe import Markup
    return {
        "l": [3, 1, 2, 1], "ls": ["b", "a", "C"], "lm": [Markup("<b>"), "x", 1], "d": {"b": 2, "a": 1}, "s": {1, 2, 3},
        "q": deque([3, 1, 2]), "rows": [{"n": 2, "t": [1]}, {"n": 1, "t": [2]}, {"n": 3, "t": []}], "nested": [[1, 2], [3, 4]],
        "l2": [7, 8], "d2": {"z": 1}, "s2": {9}, "q2": deque([5]), "text": "a b",
    }


def canon(x):
    """type-sensitive deep snapshot"""
    if isinstance(x, dict):
        return ("dict", [(canon(k), canon(v)) for k, v in x.items()])
    if isinstance(x, (set, frozenset)):
        return (type(x).__name__, sorted((canon(v) for v in x), key=repr))
    if isinstance(x, (list, tuple, deque)):
        return (type(x).__name__, [canon(v) for v in x], getattr(x, "maxlen", None))
    return (type(x).__name__, repr(x))


CONTAINERS = ("l", "ls", "lm", "d", "s", "q", "rows", "nested")
SPECIFIC = [
    "{{ l|join(', ') }}", "{{ l|join(d=' | ') }}", "{{ lm|join(', ') }}", "{{ q|join(', ') }}", "{{ s|join(', ') }}", "{{ d|join(', ') }}",
    "{{ rows|join(', ', attribute='n') }}", "{{ nested|map('join', '-')|join(';') }}", "{{ nested|map('join', '-')|list }}",
    "{{ l|sort(reverse=true)|list }}", "{{ rows|sort(attribute='n')|list }}", "{{ ls|sort(case_sensitive=true) }}",
    "{{ l|batch(3, fill_with=l2)|list }}", "{{ l|batch(3, l2)|map('list')|list }}", "{{ l|slice(3, fill_with=l2)|list }}", "{{ q|slice(2)|list }}",
    "{{ nested|sum(start=l2) }}", "{{ nested|sum(start=[]) }}", "{{ rows|sum(attribute='t', start=l2) }}", "{{ rows|sum(attribute='n') }}",
    "{{ rows|map(attribute='n')|list }}", "{{ rows|map(attribute='t')|map('first')|list }}", "{{ rows|map(attribute='x', default=l2)|list }}",
    "{{ rows|groupby('n')|list }}", "{{ rows|groupby('n', default=l2)|map(attribute='list')|list }}", "{{ rows|selectattr('n', 'gt', 1)|list }}",
    "{{ rows|rejectattr('t')|list }}", "{{ l|select('odd')|list }}", "{{ l|reject('in', l2)|list }}", "{{ l|unique|list }}", "{{ rows|unique(attribute='n')|list }}",
    "{{ d|dictsort(by='value', reverse=true) }}", "{{ d|items|list }}", "{{ d|xmlattr }}", "{{ d2|xmlattr(false) }}", "{{ d|tojson }}", "{{ l|tojson(indent=2) }}",
    "{{ nested|tojson }}", "{{ q|list|tojson }}", "{{ l|first }}{{ l|last }}{{ l|min }}{{ l|max }}{{ l|length }}{{ l|random is defined }}",
    "{{ rows|min(attribute='n') }}{{ rows|max(attribute='n') }}", "{{ l|reverse|list }}", "{{ q|reverse|list }}", "{{ l|list }}", "{{ q|list }}", "{{ s|list|length }}",
    "{{ text|replace('a', l2) }}", "{{ l|replace(1, 9) }}", "{{ ls|join('a')|replace('a', 'b') }}", "{{ none|default(l2) }}{{ l|default(l2) }}",
    "{{ l|string }}{{ l|pprint }}{{ d|pprint }}", "{{ '%s %s'|format(l, d) }}", "{{ l|map('string')|list }}", "{{ nested|map('reverse')|map('list')|list }}",
    "{{ nested|map('sort', reverse=true)|list }}", "{{ nested|map('batch', 1)|map('list')|list }}", "{{ nested|map('sum', start=0)|list }}",
    "{{ l|attr('append') }}", "{{ nested|map(attribute='0')|list }}", "{{ nested|first|join(',') }}", "{{ lm|map('escape')|join }}",
    "{% for x in l|join(',')|list %}{{ x }}{% endfor %}", "{{ l|join(l2) }}", "{{ ls|join(', ')|indent(2) }}", "{{ d|dictsort|map('join', '=')|join('&') }}",
]


def frame_templates():
    import jinja2
    names = sorted(jinja2.defaults.DEFAULT_FILTERS)
    ts = list(SPECIFIC)
    for f in names:
        for v in CONTAINERS:
            ts.append("{{ %s|%s }}" % (v, f))
            ts.append("{{ %s|%s|list }}" % (v, f))
        ts.append("{{ l|%s(l2) }}" % f)
        ts.append("{{ d|%s(d2) }}" % f)
        ts.append("{{ text|%s(l2, q2) }}" % f)
    return ts


def render_frame_case(src, autoescape, is_async):
    """-> (modified variable names, error name or None)"""
    from jinja2.sandbox import ImmutableSandboxedEnvironment
    env = ImmutableSandboxedEnvironment(autoescape=autoescape, enable_async=is_async)
    data = frame_data()
    before = {k: canon(v) for k, v in data.items()}
    err = None
    try:
        env.from_string(src).render(**data)
    except Exception as ex:
        err = type(ex).__name__
    return sorted(k for k, v in data.items() if canon(v) != before[k]), err


def native_frame(autoescape, is_async):
    def fn(task, tier, seed):
        ts = frame_templates()
        bad = []
        for src in ts:
            mod, err = render_frame_case(src, autoescape, is_async)
            if mod:
                bad.append((src, mod, err))
        name = f"C19.filters.frame.native[autoescape={'on' if autoescape else 'off'},{'async' if is_async else 'sync'}]"
        task.bound_text = (f"{len(ts)} templates: every registered filter x 8 container variables (list, list of str, list with Markup, dict, set, "
                           "deque, list of dicts, nested list) bare and with container-valued arguments, plus a table of argument "
                           "combinations for the collection filters; ImmutableSandboxedEnvironment; data compared with a type-sensitive deep snapshot")
        out = [Res(name, "bounded-ok", "bounded", 0, f"{len(ts) - len(bad)} templates left the data unchanged", "bounded")] if not bad else []
        for src, mod, err in bad:
            out.append(Res(name, "refuted", "bounded", 0, f"{src} modified {mod} ({err or 'no error'})", "bounded",
                           {"templates": [src], "autoescape": autoescape, "async": is_async}))
        return out
    return fn


class NativeFrame(FnTask):
    def __init__(self, autoescape, is_async):
        FnTask.__init__(self, "C19", f"C19.filters.frame.native[autoescape={'on' if autoescape else 'off'},{'async' if is_async else 'sync'}]",
                        native_frame(autoescape, is_async), "bounded", replay_native_frame)

    def finding_key(self, res):
        """<first filter>(<type of the variable it is applied to>) of the failing template"""
        import re
        w = res.witness or {}
        src = (w.get("templates") or [""])[0]
        m = re.match(r"\{\{\s*(\w+)\|(\w+)", src)
        if m and m.group(1) in frame_data():
            return f"{m.group(2)}({type(frame_data()[m.group(1)]).__name__})"
        return src


def replay_native_frame(w):
    """the property's own oracle: render in the immutable sandbox, compare the data with a deep snapshot taken before"""
    ts = list(w.get("templates") or [])
    if not ts:
        f = (w.get("filter") or "").replace("sync_do_", "").replace("do_", "")
        ts = [t for t in frame_templates() if ("|" + f) in t] if f else frame_templates()
    combos = [(w["autoescape"], w["async"])] if "autoescape" in w and "async" in w else [(a, b) for a in (True, False) for b in (False, True)]
    for src in ts:
        for ae, asy in combos:
            mod, err = render_frame_case(src, ae, asy)
            if mod:
                return (True, f"ImmutableSandboxedEnvironment(autoescape={ae}, enable_async={asy}): {src} modified context variable(s) {mod} ({err or 'no error'})")
    return (False, f"{len(ts)} templates x {len(combos)} configurations left the data equal to the snapshot")



# =====================================================================================================================
# C19.statements.frame : statement forms through which the GENERATED CODE itself stores into an object
# =====================================================================================================================
# `{% set a.b = v %}` and `{% set a.b %}...{% endset %}` compile to an item store `<a>['b'] = ...` without any sandbox method in
# between; the only thing that keeps it away from context data is the guard `if not isinstance(<a>, Namespace): raise ...`.
STORE_VARS = ("l", "d", "s", "q", "rows", "nested", "d2")
STORE_ATTRS = ("x", "a", "append", "n")


def statement_templates():
    ts = []
    for v in STORE_VARS:
        for at in STORE_ATTRS:
            ts += [
                "{%% set %s.%s = 42 %%}" % (v, at),
                "{%% set %s.%s %%}42{%% endset %%}" % (v, at),
                "{%% set %s.%s | upper %%}ab{%% endset %%}" % (v, at),
                "{%% set %s.%s | default(l2) | list %%}{%% endset %%}" % (v, at),
                "{%% for i in range(2) %%}{%% set %s.%s = i %%}{%% endfor %%}" % (v, at),
                "{%% for i in range(2) %%}{%% set %s.%s %%}{{ i }}{%% endset %%}{%% endfor %%}" % (v, at),
                "{%% for i in l2 %%}{%% set %s.%s | trim %%} {{ i }} {%% endset %%}{%% endfor %%}" % (v, at),
                "{%% set %s.%s, y = 1, 2 %%}" % (v, at),
                "{%% set y, %s.%s = l2 %%}" % (v, at),
                "{%% set ns = namespace() %%}{%% set ns.ok, %s.%s = 1, 2 %%}" % (v, at),
                "{%% if true %%}{%% set %s.%s %%}z{%% endset %%}{%% endif %%}" % (v, at),
                "{%% with o = %s %%}{%% set o.%s %%}1{%% endset %%}{%% endwith %%}" % (v, at),
                "{%% with o = %s %%}{%% set o.%s = 1 %%}{%% endwith %%}" % (v, at),
                "{%% macro m(o) %%}{%% set o.%s %%}1{%% endset %%}{%% endmacro %%}{{ m(%s) }}" % (at, v),
                "{%% macro m(o) %%}{%% set o.%s = 1 %%}{%% endmacro %%}{{ m(%s) }}" % (at, v),
                "{%% set o = %s %%}{%% set o.%s %%}1{%% endset %%}" % (v, at),
                "{%% macro m2() %%}{{ caller(%s) }}{%% endmacro %%}{%% call(o) m2() %%}{%% set o.%s %%}1{%% endset %%}{%% endcall %%}" % (v, at),
                "{%% macro m2() %%}{{ caller(%s) }}{%% endmacro %%}{%% call(o) m2() %%}{%% set o.%s = 1 %%}{%% endcall %%}" % (v, at),
            ]
    ts += [
        "{% for r in rows %}{% set r.n = 0 %}{% endfor %}", "{% for r in rows %}{% set r.n %}0{% endset %}{% endfor %}",
        "{% for r in rows %}{% set r.t %}{{ loop.index }}{% endset %}{% endfor %}", "{% for k, v in d|items %}{% set d.k %}{{ v }}{% endset %}{% endfor %}",
        "{% for r in nested %}{% set r.x | length %}abc{% endset %}{% endfor %}", "{% for r in rows %}{% for i in r.t %}{% set r.t %}{% endset %}{% endfor %}{% set r.z %}{% endset %}{% endfor %}",
        "{% set ns = namespace(d=d) %}{% set ns.d %}replaced{% endset %}{{ ns.d }}{% set d.x %}{% endset %}",
        # hunt i2/C19_1: the variable of the reference is rebound by the same statement, after the guard
        "{% set ns = namespace() %}{% set ns, ns.x = d, 1 %}", "{% set ns = namespace() %}{% set ns.x, ns = 1, d %}{% set ns = namespace() %}{% set (ns, (y, ns.a)) = (d2, (1, 2)) %}",
        "{% set ns = namespace() %}{% for i in range(2) %}{% set ns, ns.n = rows[i], 9 %}{% endfor %}", "{% set ns = namespace() %}{% set ns, ns.x = d, l2 %}{{ d }}",
    ]
    return ts


def render_statement_case(src, autoescape, is_async):
    """-> (modified variable names, outcome) ; outcome: 'rejected at compile time' | exception class name | 'rendered'"""
    from jinja2.sandbox import ImmutableSandboxedEnvironment
    from jinja2.exceptions import TemplateSyntaxError
    env = ImmutableSandboxedEnvironment(autoescape=autoescape, enable_async=is_async)
    data = frame_data()
    before = {k: canon(v) for k, v in data.items()}
    try:
        t = env.from_string(src)
    except TemplateSyntaxError:
        return [], "rejected at compile time"
    try:
        t.render(**data)
        outcome = "rendered"
    except Exception as ex:
        outcome = type(ex).__name__
    return sorted(k for k, v in data.items() if canon(v) != before[k]), outcome


ALLOWED_STATEMENT_OUTCOMES = ("rejected at compile time", "TemplateRuntimeError", "SecurityError")


def native_statements(autoescape, is_async):
    def fn(task, tier, seed):
        ts = statement_templates()
        bad = []
        for src in ts:
            mod, outcome = render_statement_case(src, autoescape, is_async)
            if mod or outcome not in ALLOWED_STATEMENT_OUTCOMES:
                bad.append((src, mod, outcome))
        name = f"C19.statements.frame.native[autoescape={'on' if autoescape else 'off'},{'async' if is_async else 'sync'}]"
        task.bound_text = (f"{len(ts)} templates: attribute targets of {{% set %}} and {{% set %}}...{{% endset %}} (plain, filtered, in loops, in tuples, "
                           f"in with / macro / call blocks, through aliases) on variables {STORE_VARS} x attribute names {STORE_ATTRS}; "
                           "ImmutableSandboxedEnvironment; the render must fail with TemplateRuntimeError / SecurityError (or the template be rejected "
                           "at compile time) and the data must equal its deep snapshot")
        out = [Res(name, "bounded-ok", "bounded", 0, f"{len(ts)} templates: all refused, data unchanged", "bounded")] if not bad else []
        for src, mod, outcome in bad:
            out.append(Res(name, "refuted", "bounded", 0, f"{src}: {outcome}; modified {mod}", "bounded", {"templates": [src], "autoescape": autoescape, "async": is_async}))
        return out
    return fn


def replay_statements(w):
    ts = list(w.get("templates") or []) or statement_templates()
    combos = [(w["autoescape"], w["async"])] if "autoescape" in w and "async" in w else [(a, b) for a in (False, True) for b in (False, True)]
    for src in ts:
        for ae, asy in combos:
            mod, outcome = render_statement_case(src, ae, asy)
            if mod or outcome not in ALLOWED_STATEMENT_OUTCOMES:
                return (True, f"ImmutableSandboxedEnvironment(autoescape={ae}, enable_async={asy}): {src} -> {outcome}; modified context variable(s) {mod}")
    return (False, f"{len(ts)} store statements x {len(combos)} configurations: all refused, data unchanged")


class NativeStatements(FnTask):
    def __init__(self, autoescape, is_async):
        FnTask.__init__(self, "C19", f"C19.statements.frame.native[autoescape={'on' if autoescape else 'off'},{'async' if is_async else 'sync'}]",
                        native_statements(autoescape, is_async), "bounded", replay_statements)

    def finding_key(self, res):
        """<statement form>(<type of the object stored into>): one report per form and container type"""
        import re
        src = ((res.witness or {}).get("templates") or [""])[0]
        form = "set block" if "endset" in src else "set"
        if "|" in src.split("%}")[0] or re.search(r"set [\w.]+ *\|", src):
            form += " with filter"
        data = frame_data()
        m = re.search(r"\b(%s)\b" % "|".join(sorted(data, key=len, reverse=True)), src)
        return f"{form}({type(data[m.group(1)]).__name__ if m else '?'})"


# ---- emission: an item store into a template variable is dominated by the Namespace guard for that variable -------------------------
def _store_targets(tree):
    """(statement, target expression) for every store position of the parsed skeleton"""
    import ast as _ast
    out = []

    def flat(t):
        if isinstance(t, (_ast.Tuple, _ast.List)):
            for e in t.elts:
                yield from flat(e)
        elif isinstance(t, _ast.Starred):
            yield from flat(t.value)
        else:
            yield t

    for n in _ast.walk(tree):
        tg = []
        if isinstance(n, _ast.Assign):
            tg = n.targets
        elif isinstance(n, (_ast.AugAssign, _ast.AnnAssign)):
            tg = [n.target]
        elif isinstance(n, _ast.Delete):
            tg = n.targets
        elif isinstance(n, (_ast.For, _ast.AsyncFor, _ast.comprehension)):
            tg = [n.target]
        elif isinstance(n, (_ast.With, _ast.AsyncWith)):
            tg = [i.optional_vars for i in n.items if i.optional_vars is not None]
        elif isinstance(n, _ast.NamedExpr):
            tg = [n.target]
        for t in tg:
            for e in flat(t):
                out.append((n, e))
    return out


def _guarded_idents(tree, ph):
    """z3 terms of the identifiers <id> for which a top-level `if not isinstance(<id>, Namespace): raise TemplateRuntimeError(...)`
    precedes, with the index of the guard statement"""
    import ast as _ast
    from pyvc import emit
    out = []
    for k, g in enumerate(tree.body):
        if not isinstance(g, _ast.If):
            continue
        t = g.test
        ok = (isinstance(t, _ast.UnaryOp) and isinstance(t.op, _ast.Not) and isinstance(t.operand, _ast.Call) and emit.call_name(t.operand) == "isinstance"
              and len(t.operand.args) == 2 and isinstance(t.operand.args[1], _ast.Name) and t.operand.args[1].id == "Namespace"
              and len(g.body) == 1 and isinstance(g.body[0], _ast.Raise) and isinstance(g.body[0].exc, _ast.Call)
              and emit.call_name(g.body[0].exc) == "TemplateRuntimeError" and not g.orelse)
        a0 = t.operand.args[0] if ok else None
        if ok and isinstance(a0, _ast.Name) and a0.id in ph and isinstance(ph[a0.id], tuple) and ph[a0.id][0] == "ident":
            out.append((k, ph[a0.id][1]))
    return out


def nsref_store_pred(sc, tree, ph, txt):
    """the store through a namespace-reference target (emitted by visit_NSRef as `<ref(name)>[attr]`) happens in a top-level
    statement that comes AFTER `if not isinstance(<ref(name)>, Namespace): raise TemplateRuntimeError(...)` for the same name"""
    import ast as _ast
    import jinja2.nodes as N
    from contracts.emit_common import hole_of
    if sc.outcome == "raise":
        return [f"raises {sc.value!r}"]
    st = sc.st
    fails = []
    guards = _guarded_idents(tree, ph)
    refs = [e for e in st.trace if e.kind == "call" and e.name == "symbols.ref"]
    n_store = 0
    for stmt, tgt in _store_targets(tree):
        h = hole_of(tgt, ph)
        if h is None or h.cls is not N.NSRef:
            continue
        n_store += 1
        top = [k for k, top_stmt in enumerate(tree.body) if any(x is stmt for x in _ast.walk(top_stmt))]
        nsnode = st.get(sc.node).fields.get("target")
        name = st.get(nsnode).fields.get("name") if nsnode is not None and hasattr(nsnode, "id") else None
        mine = [e.result.t for e in refs if name is not None and e.args and e.args[0] is name]
        if not any(k < top[0] and any(g.eq(m) for m in mine) for k, g in guards):
            fails.append(f"the store into the namespace reference ({_ast.unparse(stmt)[:70]}) is not preceded by the isinstance(<its variable>, Namespace) guard")
    if n_store != 1:
        fails.append(f"{n_store} stores through the namespace-reference target (exactly one expected)")
    return fails


def no_foreign_store_pred(sc, tree, ph, txt):
    """no visitor emits a statement that stores into an item / attribute of a template expression or of a template variable
    (the only store into a template object is the guarded namespace-reference target above)"""
    import ast as _ast
    from contracts.emit_common import hole_of
    if sc.outcome == "raise" or tree is None:
        return []
    fails = []
    for stmt, tgt in _store_targets(tree):
        if isinstance(tgt, (_ast.Subscript, _ast.Attribute)):
            base = tgt.value
            while isinstance(base, (_ast.Subscript, _ast.Attribute)):
                base = base.value
            if hole_of(base, ph) is not None or (isinstance(base, _ast.Name) and base.id in ph and isinstance(ph[base.id], tuple) and ph[base.id][0] == "ident"
                                                  and "ident_ref" in str(ph[base.id][1])):
                fails.append(f"generated code stores into an object of the template: {_ast.unparse(stmt)[:90]}")
    return fails


def statement_emit_tasks():
    from pyvc.emitcheck import EmitTask
    from pyvc import emit
    from contracts.emit_common import all_visitor_tasks
    import jinja2.nodes as N

    def target_nsref(st):
        return {"target": emit.make_node(st, N.NSRef, "node.target")}

    def configure_assign(I):
        def find_all(I_, st, args, kwargs, node):
            # the only namespace reference below an Assign whose target IS a namespace reference is that target;
            # a namespace reference has no Name node below it
            h = st.get(args[0])
            if args[1] is N.NSRef and h.cls is N.Assign:
                return [(st, (h.fields["target"],))]
            if args[1] is N.Name and h.cls is N.NSRef:
                return [(st, ())]
            from pyvc.values import Unsupported
            raise Unsupported("find_all of another class", node)
        I.specs["Node.find_all"] = find_all

    # ---- {% set n, n.x = ... %}: the guard is evaluated before the statement, so it says nothing about a reference whose variable the
    # same statement rebinds; such a target must not reach code generation (b1257b3: rejected at compile time)
    def target_tuple(st):
        name = emit.make_node(st, N.Name, "node.target.items[0]", fields={"ctx": "store"})
        ref = emit.make_node(st, N.NSRef, "node.target.items[1]")
        tup = emit.make_node(st, N.Tuple, "node.target", fields={"ctx": "store"})
        st.ghost["c19_rebind"] = (name, ref, tup)
        return {"target": tup}

    def configure_rebind(I):
        def find_all(I_, st, args, kwargs, node):
            name, ref, tup = st.ghost["c19_rebind"]
            if args[1] is N.NSRef:
                return [(st, (ref,))]
            if args[1] is N.Name and args[0] == tup:
                return [(st, (name,))]
            from pyvc.values import Unsupported
            raise Unsupported("find_all of another class", node)
        I.specs["Node.find_all"] = find_all

    def rebind_pred(sc, tree, ph, txt):
        name, ref, tup = sc.st.ghost["c19_rebind"]
        nm, rf = sc.st.get(name).fields.get("name"), sc.st.get(ref).fields.get("name")
        if nm is None or rf is None:
            return ["the names of the target were never read: no rebinding check"]
        same_name = to_term(nm, "str") == to_term(rf, "str")
        if sc.outcome == "raise":
            # refused at compile time: only when the stored name can be the variable of the reference
            return [] if not sc.holds(z3.Not(same_name)) else ["compile-time error although the stored name differs from the variable of the reference"]
        fails = []
        if not sc.holds(z3.Not(same_name)):
            fails.append("code is generated for a target that stores a name and an attribute of the same name: the Namespace guard, evaluated "
                         "before the statement, does not cover the object the name is rebound to")
        guards = _guarded_idents(tree, ph)
        refs = [e for e in sc.st.trace if e.kind == "call" and e.name == "symbols.ref" and e.args and e.args[0] is rf]
        if not any(any(g.eq(e.result.t) for e in refs) for _k, g in guards):
            fails.append("no isinstance(<variable>, Namespace) guard for the namespace reference")
        return fails

    def replay(w):
        return replay_statements({})

    ts = [EmitTask("C19", "C19.statements.frame.emit.visit_AssignBlock[target=NSRef]", "jinja2.compiler:CodeGenerator.visit_AssignBlock", N.AssignBlock,
                   nsref_store_pred, mode="stmts", buffers=(None,), replay_fn=replay, node_fields=target_nsref, min_paths=2),
          EmitTask("C19", "C19.statements.frame.emit.visit_Assign[target=NSRef]", "jinja2.compiler:CodeGenerator.visit_Assign", N.Assign,
                   nsref_store_pred, mode="stmts", buffers=(None,), replay_fn=replay, node_fields=target_nsref, configure=configure_assign, min_paths=1)]
    ts.append(EmitTask("C19", "C19.statements.frame.emit.visit_Assign[target=(name, NSRef)].not_rebound", "jinja2.compiler:CodeGenerator.visit_Assign", N.Assign,
                       rebind_pred, mode="stmts", buffers=(None,), replay_fn=replay, node_fields=target_tuple, configure=configure_rebind, min_paths=2))
    ts += all_visitor_tasks("C19", "C19.statements.frame.emit.no_foreign_store", no_foreign_store_pred, replay_fn=replay, buffers=(None,))
    return ts


TASKS = ([Gate(T) for T in TYPES] + [Gate(T, r) for r in ("class", "alias", "typing alias", "bare typing alias") for T in TYPES] + [Modifies(T) for T in TYPES + UNSUPPORTED]
         + [FnTask("C19", "C19.spec.MUT", spec_crosscheck, "table")]
         + [FrameProxy(g, names) for g, names in sorted(frame_proxy_groups().items())]
         + [JoinFrame()]
         + [NativeFrame(ae, asy) for ae in (False, True) for asy in (False, True)]
         + [RouteGate(fn, T) for fn in ("getattr", "getitem") for T in TYPES] + [NativeGate()]
         + [NamespaceInit(sh) for sh in NamespaceInit.SHAPES]
         + [NativeGlobals(ae, asy) for ae in (False, True) for asy in (False, True)]
         + [NativeStatements(ae, asy) for ae in (False, True) for asy in (False, True)] + statement_emit_tasks())

META = {
    "level": "proof",
    "explanation": "Attribute gate of the immutable sandbox: for every attribute name (symbolic string) and a receiver of exact type "
                   "list/dict/set/deque, the real ImmutableSandboxedEnvironment.is_safe_attribute (with the real modifies_known_mutable "
                   "unrolled over the live _mutable_spec table, isinstance resolved on the live classes) returns True only for names "
                   "outside MUT(T); MUT(T) is written from the library reference and cross-checked against the live types. All routes by "
                   "which a template obtains an attribute end in this gate (C17 route obligations). Filters (C19.filters.frame.*): the frame "
                   "clauses of the filter contracts of contracts/c22.py (state.written within state.allocated, argument list unchanged, no "
                   "in-place update of an argument; slice, batch, unique, sort, dictsort, groupby, min/max, sum, first/last, list, reverse, "
                   "join, map, select/reject family, async twins and dispatch) are re-run under C19; sync_do_join under autoescape is "
                   "additionally proved for a pre-existing list of ANY length (every write, also inside the cut loop, goes to an object the "
                   "call allocated); a bounded native stand-in renders every registered filter on list/dict/set/deque data (bare and with "
                   "container-valued arguments) in the immutable sandbox, sync and async, autoescape off and on, and compares the data with a "
                   "type-sensitive deep snapshot. The gate is also proved THROUGH the two access methods (C19.gate.route[getattr|getitem].<T>: "
                   "real SandboxedEnvironment.getattr/getitem on an immutable environment with the real is_safe_attribute inlined - the "
                   "looked-up attribute is returned only for names outside MUT(T), also on the attribute fallback of subscripts) and checked "
                   "natively for every public method name x every access route (C19.gate.native). Objects built from data through the default "
                   "globals: Namespace.__init__ stores a dict it allocated, never an argument (C19.globals.frame.Namespace.__init__[shape]), and "
                   "a bounded native stand-in applies every default global to container data (C19.globals.frame.native[...]). Statements by "
                   "which the generated code itself stores into an object (attribute targets of {% set %} and {% set %}...{% endset %}): emission "
                   "obligations show that the store through a namespace-reference target is preceded by the isinstance(<variable>, Namespace) "
                   "guard in visit_Assign and visit_AssignBlock and that no visitor emits any other store into a template expression or "
                   "variable (C19.statements.frame.emit.*); a bounded native family renders all such statement forms on container data and "
                   "requires TemplateRuntimeError / SecurityError and unchanged data (C19.statements.frame.native[...]).",
    "assumptions": ["MUT(T) lists the mutating public methods of the four builtin types (cross-checked on sample instances)",
                    "in-place dunders / __setitem__ / __delitem__ are blocked by C17.safe.underscore",
                    "methods of user subclasses are outside 'exact builtin types'",
                    "filter frame clauses are those of contracts/c22.py (same symbolic runs) plus the obligations added here; filters "
                    "without a symbolic contract are covered by the bounded native stand-in only"],
    "trusted_base": ["z3 5.1 / cvc5", "pyvc symbolic executor", "issubclass on the live classes (ABC registration of deque)",
                     "str.startswith / frozenset membership dependency specs"],
}
