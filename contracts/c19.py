"""C19  The immutable sandbox never modifies list, dict, set or deque data  (runtime half: the attribute gate).

Spec MUT(T) (DESIGN Appendix A.1): the public method names of T in {list, dict, set, deque} whose call can change the
receiver, written from the Python library reference ("Mutable Sequence Types", "Mapping Types - dict", "Set Types",
"collections.deque objects") and cross-checked against the live types (C19.spec.MUT.*).

Obligations
  C19.gate.<T>.blocks[m]   for ALL attribute names `attr` (symbolic string) and obj of exact type T:
       ImmutableSandboxedEnvironment.is_safe_attribute(obj, attr, value) is True  ==>  attr != m       (m in MUT(T))
     the real sources of ImmutableSandboxedEnvironment.is_safe_attribute, SandboxedEnvironment.is_safe_attribute,
     is_internal_attribute and modifies_known_mutable are executed symbolically; the loop over the real `_mutable_spec`
     table is unrolled, isinstance is resolved with issubclass on the live classes (deque is a registered MutableSequence).
  C19.modifies_known_mutable.<T>.*   the documented contract of the helper itself (iff, and False for unsupported objects)
  C19.spec.MUT.<T>          cross-check of the spec table against the live types (deep copy comparison)
The mechanism half for stored method references / attr filter / format lookups is C17 (every route ends in
`is_safe_attribute` of the environment, here the immutable one); the filter frame clause is shared with C22/C29.
"""
from __future__ import annotations

import collections
import copy

import z3

from pyvc.contract import VC, Res, FnTask
from pyvc.values import sym
from pyvc import abstract as A
from pyvc.smt import to_term, model_value

from contracts import _sbx

import jinja2.sandbox as S

deque = collections.deque

# ---- spec table (Python library reference) ---------------------------------------------------------------
MUT = {
    list: ("append", "clear", "extend", "insert", "pop", "remove", "reverse", "sort"),
    dict: ("clear", "pop", "popitem", "setdefault", "update"),
    set: ("add", "clear", "difference_update", "discard", "intersection_update", "pop", "remove",
          "symmetric_difference_update", "update"),
    deque: ("append", "appendleft", "clear", "extend", "extendleft", "insert", "pop", "popleft", "remove", "reverse",
            "rotate"),
}
TYPES = (list, dict, set, deque)
UNSUPPORTED = (str, int, tuple, frozenset, type(None))  # "If called with an unsupported object, False is returned"

SAMPLES = {
    list: [lambda: [3, 1, 2], lambda: [], lambda: [1]],
    dict: [lambda: {"a": 1, "b": 2}, lambda: {}],
    set: [lambda: {1, 2, 3}, lambda: set()],
    deque: [lambda: deque([3, 1, 2]), lambda: deque(), lambda: deque([1, 2, 3, 4], maxlen=4)],
}
ARGS = [(), (1,), (0,), ("a",), ([9],), ([1],), ({"z": 1},), (0, 9), ("zz", 5), (1, 2, 3), ({1},)]


def public_names(T):
    return sorted(n for n in dir(T) if not n.startswith("_"))


def snapshot(x):
    return (type(x), list(x.items()) if isinstance(x, dict) else (sorted(x, key=repr) if isinstance(x, set) else list(x)), getattr(x, "maxlen", None))


def observed_mutators(T):
    """names of public methods of the live type that changed some sample receiver (compared with a deep copy)"""
    mut, ok = set(), set()
    for name in public_names(T):
        for mk in SAMPLES[T]:
            for a in ARGS:
                x = mk()
                c = copy.deepcopy(x)
                try:
                    m = getattr(x, name)
                    if not callable(m):
                        continue
                    m(*copy.deepcopy(a))
                    ok.add(name)
                except Exception:
                    pass
                if snapshot(x) != snapshot(c):
                    mut.add(name)
    return mut, ok


def spec_crosscheck(task, tier, seed):
    out = []
    for T in TYPES:
        mut, ok = observed_mutators(T)
        spec = set(MUT[T])
        name = f"C19.spec.MUT.{T.__name__}"
        if mut == spec:
            out.append(Res(name, "discharged", "table", 0, f"{len(public_names(T))} public names x {len(SAMPLES[T])} samples x {len(ARGS)} argument tuples: observed mutators == MUT", "table"))
        else:
            out.append(Res(name, "error", "table", 0, f"spec table disagrees with the live type: observed-only {sorted(mut - spec)}, spec-only {sorted(spec - mut)}", "table"))
    return out


# ---- native oracle of the property: data equals a deep copy taken before rendering ---------------------------------
def native_modifies(tname, attr):
    """Render {{ x.<attr>(*a) }} in the real ImmutableSandboxedEnvironment on sample data; -> (modified?, detail)."""
    from jinja2.sandbox import ImmutableSandboxedEnvironment
    T = {t.__name__: t for t in TYPES}[tname]
    env = ImmutableSandboxedEnvironment()
    if not attr.isidentifier():
        return False, f"{attr!r} is not an identifier"
    try:
        tmpl = env.from_string("{{ x.%s(*a) }}" % attr)
    except Exception as ex:
        return False, f"template does not compile: {ex!r}"
    for mk in SAMPLES[T]:
        for a in ARGS:
            x = mk()
            c = copy.deepcopy(x)
            try:
                tmpl.render(x=x, a=copy.deepcopy(a))
                err = None
            except Exception as ex:
                err = type(ex).__name__
            if snapshot(x) != snapshot(c):
                return True, (f"ImmutableSandboxedEnvironment: {{{{ x.{attr}(*{a!r}) }}}} with x={c!r} "
                              f"changed x to {x!r} ({'no error' if err is None else err})")
    return False, f"no sample call of {tname}.{attr} changed the data"


def replay_gate(w):
    from jinja2.sandbox import ImmutableSandboxedEnvironment
    T = {t.__name__: t for t in TYPES}[w["type"]]
    attr = w["attr"]
    env = ImmutableSandboxedEnvironment()
    x = SAMPLES[T][0]()
    safe = env.is_safe_attribute(x, attr, getattr(x, attr, None))
    mod, detail = native_modifies(w["type"], attr)
    return (bool(safe and mod), f"is_safe_attribute({w['type']}, {attr!r}) = {safe}; {detail}")


# ---- the gate ------------------------------------------------------------------------------------------------------
class Gate(VC):
    prop = "C19"
    target = "jinja2.sandbox:ImmutableSandboxedEnvironment.is_safe_attribute"

    def __init__(self, T):
        self.T = T
        super().__init__("C19", f"C19.gate.{T.__name__}")
        self.posts = [(f"blocks[{m}]", self.mk_post(m)) for m in MUT[T]]

    def configure(self, I):
        I.inline.update({"jinja2.sandbox:modifies_known_mutable", "jinja2.sandbox:is_internal_attribute",
                         "jinja2.sandbox:SandboxedEnvironment.is_safe_attribute"})
        _sbx.exact_types(I, {"obj": self.T})
        _sbx.install_super(I, S.ImmutableSandboxedEnvironment, lambda: (self.env, S.ImmutableSandboxedEnvironment))

    def setup(self, I, st):
        self.env = A.obj(st, S.ImmutableSandboxedEnvironment, "env")
        self.obj, self.attr, self.value = sym("obj", "obj"), sym("attr", "str"), sym("value", "obj")
        return [self.env, self.obj, self.attr, self.value], {}

    @staticmethod
    def mk_post(m):
        def post(self, pre, out):
            if out.raised:
                return False  # the gate is total
            return z3.Implies(_sbx.ret_term(out.value), self.attr.t != z3.StringVal(m))
        return post

    def concretize(self, model, pre, out):
        return {"type": self.T.__name__, "attr": _sbx.unescape_z3(_sbx.model_str(model, self.attr.t))}

    def finding_key(self, res):
        w = res.witness or {}
        return f"{w.get('type')}.{w.get('attr')}"

    def replay(self, w):
        return replay_gate(w)


# ---- the documented contract of modifies_known_mutable ------------------------------------------------------------
class Modifies(VC):
    """modifies_known_mutable(obj, attr): "checks if an attribute on a builtin mutable object (list, dict, set or deque)
    ... would modify it if called"; "If called with an unsupported object, False is returned"."""
    prop = "C19"
    target = "jinja2.sandbox:modifies_known_mutable"

    def __init__(self, T):
        self.T = T
        super().__init__("C19", f"C19.modifies_known_mutable.{T.__name__}")
        if T in MUT:
            self.posts = [(f"true_for[{m}]", self.mk_true(m)) for m in MUT[T]] + [("no_false_alarm", Modifies.p_no_false_alarm)]
        else:
            self.posts = [("unsupported_is_false", Modifies.p_false)]

    def configure(self, I):
        _sbx.exact_types(I, {"obj": self.T})

    def setup(self, I, st):
        self.obj, self.attr = sym("obj", "obj"), sym("attr", "str")
        return [self.obj, self.attr], {}

    @staticmethod
    def mk_true(m):
        def post(self, pre, out):
            if out.raised:
                return False
            return z3.Implies(self.attr.t == z3.StringVal(m), _sbx.ret_term(out.value))
        return post

    def p_no_false_alarm(self, pre, out):
        """True only for a mutator, or for a name the type does not have at all (nothing to call)"""
        if out.raised:
            return False
        is_mut = z3.Or(*[self.attr.t == z3.StringVal(m) for m in MUT[self.T]])
        absent = z3.And(*[self.attr.t != z3.StringVal(n) for n in public_names(self.T)])
        return z3.Implies(_sbx.ret_term(out.value), z3.Or(is_mut, absent))

    def p_false(self, pre, out):
        if out.raised:
            return False
        return z3.Not(_sbx.ret_term(out.value))

    def concretize(self, model, pre, out):
        return {"type": self.T.__name__, "attr": _sbx.unescape_z3(_sbx.model_str(model, self.attr.t))}

    def finding_key(self, res):
        w = res.witness or {}
        return f"{w.get('type')}.{w.get('attr')}"

    def replay(self, w):
        from jinja2.sandbox import modifies_known_mutable
        allT = {t.__name__: t for t in TYPES + UNSUPPORTED}
        T = allT[w["type"]]
        attr = w["attr"]
        x = SAMPLES[T][0]() if T in SAMPLES else (T() if T is not type(None) else None)
        got = modifies_known_mutable(x, attr)
        if T in MUT:
            want = attr in MUT[T]
            bad = (got != want) and (want or attr in public_names(T))
        else:
            want, bad = False, bool(got)
        return (bad, f"modifies_known_mutable({w['type']} instance, {attr!r}) = {got}, documented: {want}")


TASKS = ([Gate(T) for T in TYPES] + [Modifies(T) for T in TYPES + UNSUPPORTED]
         + [FnTask("C19", "C19.spec.MUT", spec_crosscheck, "table")])

META = {
    "level": "proof",
    "explanation": "Attribute gate of the immutable sandbox: for every attribute name (symbolic string) and a receiver of exact type "
                   "list/dict/set/deque, the real ImmutableSandboxedEnvironment.is_safe_attribute (with the real modifies_known_mutable "
                   "unrolled over the live _mutable_spec table, isinstance resolved on the live classes) returns True only for names "
                   "outside MUT(T); MUT(T) is written from the library reference and cross-checked against the live types. All routes by "
                   "which a template obtains an attribute end in this gate (C17 route obligations).",
    "assumptions": ["MUT(T) lists the mutating public methods of the four builtin types (cross-checked on sample instances)",
                    "in-place dunders / __setitem__ / __delitem__ are blocked by C17.safe.underscore",
                    "methods of user subclasses are outside 'exact builtin types'",
                    "filter frame clause (C19.filters.frame) is discharged with C22/C29"],
    "trusted_base": ["z3 5.1 / cvc5", "pyvc symbolic executor", "issubclass on the live classes (ABC registration of deque)",
                     "str.startswith / frozenset membership dependency specs"],
}
