"""C29  Rendering is repeatable and does not modify its inputs  (level: other - the sequential clauses are proved as
frame contracts of the mechanisms; the thread clause is NOT decided (no concurrency model) and only probed natively).

  C29.frame.entry.*      Template.render / render_async / generate / generate_async, TemplateExpression.__call__,
                         Environment.make_globals: the caller's data is COPIED (`dict(*args, **kwargs)` - a fresh dict reaches
                         new_context), nothing the call did not allocate is written (state.written within state.allocated): not the
                         template, not the environment, not the globals ChainMap, not the caller's dicts.  The same frame clause on the
                         symbolic runs of the contracts that own the remaining entry functions: runtime.new_context, Context.get_all,
                         Template.new_context / make_module(_async) / _get_default_module(_async), TemplateModule.__init__
                         (contracts/c05.py), Context.__init__ / derived (contracts/c04.py), Context.call (contracts/c18.py); the
                         only admitted write to a pre-existing object is the idempotent cache `Template._module`.
  C29.frame.emitted.*    every emission schema of every visitor (and visit_Template, visit_Macro, visit_CallBlock, visit_FromImport
                         on bounded shapes): assignment / deletion / augmented-assignment targets and receivers of mutating method calls
                         are Python locals, context.vars / exported_vars / blocks / eval_ctx.*, _loop_vars, _block_vars, buffers,
                         derived-context temporaries and Namespace items - never an attribute or item of `environment` or of a template.
                         C29.frame.emitted.item_store_guarded.*: an item store on a template variable is dominated by the Namespace guard
                         for that variable (visit_Assign / visit_AssignBlock on every target shape).
  C29.frame.filters.*    = C19.filters.frame (contracts/c19.py, which re-runs the frame clauses of contracts/c22.py): re-listed here.
  C29.module.pure.*      the cached default module is built by make_module() WITHOUT variables, exactly once, and an importing
                         context with extra globals gets an uncached module (clause of contracts/c05.py DefaultModule, same run).
  C29.cache.immutable    values reachable from a cross-render cache are not writable by template code: bounded native histories
                         (import x every exported value kind x every store the template language has); EXPECTED TO FAIL for an
                         exported namespace() (DESIGN F20).
  C29.bounded.histories  generated templates (C03 corpus + imports / includes / filters) rendered twice, after other templates and from
                         4 threads vs. one isolated render; inputs, environment globals and template globals deep-compared with a copy.
"""
from __future__ import annotations

import ast
import copy
import importlib
import re
import time
import z3

from pyvc.contract import VC, Res, FnTask, Task
from pyvc.values import State, Sym, Ref, HObj, HList, HDict, HSet, Event, Unsupported, CheckerError, sym, fresh_name, Obj as OBJ_SORT
from pyvc.smt import to_term, check_sat
from pyvc.interp import Raised
from pyvc import abstract as A
from pyvc.emitcheck import EmitTask
from contracts.emit_common import all_visitor_tasks

import jinja2.nodes as N
import jinja2.environment as E
import jinja2.runtime as R
from jinja2 import Environment


# =====================================================================================================================
# native oracle (replay of every obligation, and the bounded stand-ins)
# =====================================================================================================================

def canon(x, depth=0):
    """type-sensitive deep snapshot"""
    from collections import deque
    if depth > 8:
        return ("deep", type(x).__name__)
    if isinstance(x, dict):
        return ("dict", [(canon(k, depth + 1), canon(v, depth + 1)) for k, v in x.items()])
    if isinstance(x, (set, frozenset)):
        return (type(x).__name__, sorted((canon(v, depth + 1) for v in x), key=repr))
    if isinstance(x, (list, tuple, deque)):
        return (type(x).__name__, [canon(v, depth + 1) for v in x])
    if hasattr(x, "__dict__") and type(x).__module__ == __name__:
        return (type(x).__name__, canon(vars(x), depth + 1))
    return (type(x).__name__, repr(x))


class Obj:
    def __init__(self):
        self.attr = [1, 2]
        self.name = "o"


def base_data():
    from collections import deque
    return {"a": 7, "b": [1, 2, 3], "c": {"k": [1], "j": 2}, "s": "txt", "o": Obj(), "q": deque([1, 2]), "st": {1, 2}, "n": None,
            "rows": [{"n": 2, "t": [1]}, {"n": 1, "t": [2]}], "tree": [{"v": 1, "c": [{"v": 2, "c": []}]}], "nested": [[1, 2], [3]]}


LIB = {
    "lib_macro": "{% macro f(x) %}[{{ x }}{{ g }}]{% endmacro %}{% set const = 5 %}",
    "lib_list": "{% set items = [1, 2] %}{% set d = {'k': 1} %}{% macro show() %}{{ items }}{{ d }}{% endmacro %}",
    "lib_ns": "{% set ns = namespace(n=0) %}{% macro bump() %}{% set ns.n = ns.n + 1 %}{{ ns.n }}{% endmacro %}",
    "lib_ns_plain": "{% set ns = namespace(n=0) %}{% macro read() %}{{ ns.n }}{% endmacro %}",
    "lib_loopns": "{% macro count(xs) %}{% set c = namespace(n=0) %}{% for x in xs %}{% set c.n = c.n + 1 %}{% endfor %}{{ c.n }}{% endmacro %}",
    "inc": "<{{ a }}{% set a = 1 %}{{ a }}>",
    "base": "[{% block body %}base{{ a }}{% endblock %}]",
}

TEMPLATES = {
    "t_plain": "{{ a }}{{ b }}{{ c.k }}{{ s|upper }}{{ o.name }}{{ o.attr|join(',') }}",
    "t_set": "{% set a = a + 1 %}{{ a }}{% set b = b + [4] %}{{ b }}{% set c = 1 %}{{ c }}",
    "t_loop": "{% for x in b %}{% set a = x %}{{ loop.index }}{{ a }}{% endfor %}{{ a }}{% for k, v in c|dictsort %}{{ k }}{% endfor %}",
    "t_ns": "{% set ns = namespace(n=0) %}{% for x in b %}{% set ns.n = ns.n + x %}{% endfor %}{{ ns.n }}",
    "t_filters": "{{ b|sort(reverse=true)|list }}{{ b|sum(start=0) }}{{ nested|sum(start=[]) }}{{ rows|sort(attribute='n')|map(attribute='n')|list }}{{ b|batch(2, 0)|list }}"
                 "{{ c|dictsort }}{{ b|reverse|list }}{{ q|list }}{{ st|list|sort }}{{ b|unique|list }}{{ rows|groupby('n')|length }}{{ b|join('-') }}{{ c|tojson }}",
    "t_import_macro": "{% import 'lib_macro' as lib %}{{ lib.f(a) }}{{ lib.const }}",
    "t_from_import": "{% from 'lib_macro' import f, const with context %}{{ f(1) }}{{ const }}",
    "t_import_list": "{% import 'lib_list' as lib %}{{ lib.items }}{{ lib.show() }}{% set mine = lib.items + [3] %}{{ mine }}",
    "t_import_ns_read": "{% import 'lib_ns_plain' as lib %}{{ lib.read() }}{{ lib.ns.n }}",
    "t_import_loopns": "{% import 'lib_loopns' as lib %}{{ lib.count(b) }}{{ lib.count(b) }}",
    "t_include": "{% include 'inc' %}{{ a }}{% include 'inc' %}",
    "t_extends": "{% extends 'base' %}{% block body %}child{{ a }}{{ super() }}{% endblock %}",
    "t_macro_default": "{% macro m(x, y=b) %}{{ x }}{{ y }}{% endmacro %}{{ m(1) }}{{ m(1, 2) }}",
    "t_recursive": "{% for n in tree recursive %}{{ n.v }}({{ loop(n.c) }}){% endfor %}",
    "t_with_filter_block": "{% with z = b %}{% filter upper %}{{ s }}{{ z }}{% endfilter %}{% endwith %}{% set blk %}x{{ a }}{% endset %}{{ blk }}",
    "t_autoescape": "{% autoescape true %}{{ s }}{{ '<' }}{% endautoescape %}{{ '<' }}",
    "t_blockset_attr_dict": "{% set c.x %}42{% endset %}{{ c }}",
    "t_blockset_attr_filtered": "{% set c.x | upper %}ab{% endset %}{{ c }}",
    "t_blockset_attr_rows": "{% for r in rows %}{% set r.x %}{{ loop.index }}{% endset %}{% endfor %}{{ rows }}",
    "t_set_attr_rows": "{% for r in rows %}{% set r.x = 1 %}{% endfor %}{{ rows }}",
    "t_blockset_attr_ns": "{% set ns = namespace(n='') %}{% for i in b %}{% set ns.n %}{{ ns.n }}{{ i }}{% endset %}{% endfor %}{{ ns.n }}{% set ns.f | upper %}x{% endset %}{{ ns.f }}",
    "t_rebind_then_attr": "{% set ns = namespace() %}{% set ns, ns.x = c, 1 %}{{ c }}",
    "t_rebind_then_attr_global": "{% set ns = namespace() %}{% for i in b %}{% set ns, ns.x = glist_holder, 1 %}{% endfor %}{{ glist_holder }}",
    "t_cycler": "{% set cy = cycler('x', 'y') %}{% for i in b %}{{ cy.next() }}{% endfor %}{% set j = joiner(',') %}{% for i in b %}{{ j() }}{{ i }}{% endfor %}",
}
# the only template of the family with state that is DESIGNED to persist in a cross-render cache (F20)
NS_TEMPLATES = {
    "t_import_ns_bump": "{% import 'lib_ns' as lib %}{{ lib.bump() }}",
    "t_from_ns_bump": "{% from 'lib_ns' import bump %}{{ bump() }}",
    "t_import_ns_set": "{% import 'lib_ns' as lib %}{% set shared = lib.ns %}{% set shared.n = shared.n + 10 %}{{ shared.n }}",
}


def make_env(is_async=False, extra=None):
    import jinja2
    srcs = dict(LIB)
    srcs.update(TEMPLATES)
    srcs.update(NS_TEMPLATES)
    srcs.update(POLICY_TEMPLATES)
    srcs.update(extra or {})
    env = jinja2.Environment(loader=jinja2.DictLoader(srcs), enable_async=is_async, extensions=["jinja2.ext.loopcontrols", "jinja2.ext.do", "jinja2.ext.i18n"])
    env.install_null_translations()
    env.globals["g"] = "G"
    env.globals["glist"] = [1, 2]
    env.globals["glist_holder"] = {"k": [1]}
    return env


def render_once(env, name, data, template_globals=None):
    try:
        t = env.get_template(name, globals=template_globals)
        return ("ok", t.render(data))
    except Exception as ex:
        return ("error", type(ex).__name__)


def isolated(name, data, is_async=False, extra=None):
    return render_once(make_env(is_async, extra), name, copy.deepcopy(data))


def history_problems(names, is_async=False, extra=None, threads=4, data_fn=base_data):
    """for every template: isolated render (fresh environment, fresh data) vs. the same template rendered in ONE shared
    environment twice in a row, again after all other templates, and from `threads` threads at once; inputs, environment
    globals and template globals are deep-compared with a snapshot taken before"""
    import sys
    import threading
    problems = []
    want = {n: isolated(n, data_fn(), is_async, extra) for n in names}
    env = make_env(is_async, extra)
    g_before = canon(dict(env.globals))
    state_before = env_state(env)
    tg = {"tglob": [1, 2], "g": "TG"}
    tg_before = canon(tg)
    for n in names:
        data = data_fn()
        before = canon(data)
        first = render_once(env, n, data)
        second = render_once(env, n, data)
        if first != want[n]:
            problems.append((n, "first", f"{n}: first render in a shared environment {first!r}, isolated render {want[n]!r}"))
        if second != want[n]:
            problems.append((n, "twice", f"{n}: rendering the template twice gives {first!r} then {second!r} (isolated render: {want[n]!r})"))
        if canon(data) != before:
            problems.append((n, "data", f"{n}: rendering modified the data passed in: {[k for k in data if canon(data[k]) != dict(before[1]).get(canon(k))][:4]}"))
        if canon(dict(env.globals)) != g_before:
            problems.append((n, "env.globals", f"{n}: rendering modified the environment globals"))
            g_before = canon(dict(env.globals))
        changed = state_diff(state_before, env_state(env))
        if changed:
            problems.append((n, "env-state", f"{n}: rendering changed {changed} (environment policies incl. nested values / filter and test tables / process-wide defaults)"))
            state_before = env_state(env)
    for n in names:  # after all the others
        r = render_once(env, n, data_fn())
        if r != want[n]:
            problems.append((n, "after-others", f"{n}: rendered after other templates {r!r}, isolated render {want[n]!r}"))
    # template globals
    for n in names[:6]:
        r1 = render_once(env, n, data_fn(), tg)
        if canon(tg) != tg_before:
            problems.append((n, "template.globals", f"{n}: rendering modified the template globals passed to get_template"))
            tg_before = canon(tg)
    if threads and not is_async:
        old = sys.getswitchinterval()
        sys.setswitchinterval(1e-6)
        try:
            env2 = make_env(is_async, extra)
            results = {}

            def work(k):
                out = []
                for n in names:
                    out.append((n, render_once(env2, n, data_fn())))
                results[k] = out

            ths = [threading.Thread(target=work, args=(k,)) for k in range(threads)]
            for th in ths:
                th.start()
            for th in ths:
                th.join()
        finally:
            sys.setswitchinterval(old)
        for k, out in results.items():
            for n, r in out:
                if r != want[n] and n not in NS_TEMPLATES:
                    problems.append((n, "threads", f"{n}: rendered from {threads} threads {r!r}, isolated render {want[n]!r}"))
    return problems


def native_histories(w=None):
    names = list(TEMPLATES) + list(POLICY_TEMPLATES)
    ps = history_problems(names) + history_problems([n for n in names if n != "t_cycler"], is_async=True, threads=0) + policy_problems()
    return (bool(ps), "; ".join(p[2] for p in ps[:2]) or f"{len(names)} templates: repeated / interleaved / threaded renders equal the isolated render; inputs unchanged")


# =====================================================================================================================
# C29.frame.entry
# =====================================================================================================================

def frame_violations(st, allow=()):
    """writes to objects that existed before the call (not allocated by it), except the admitted ones"""
    bad = []
    for (i, f) in sorted(st.written, key=repr):
        if i in st.allocated or (i, f) in allow:
            continue
        h = st.heap.get(i)
        bad.append(f"{getattr(h, 'path', '') or type(h).__name__}#{i}.{f}")
    return bad


def containers_changed(pre, st, own=()):
    """pre-existing dicts / lists / sets whose content differs from the pre-state (covers writes inside loops that are cut at
    an invariant: the havoc replaces the content terms)"""
    bad = []
    for i, h0 in pre.heap.items():
        if i in own or i in st.allocated or i not in st.heap:
            continue
        h1 = st.heap[i]
        same = True
        if isinstance(h0, HDict):
            same = (h0.items == h1.items) if h0.concrete and h1.concrete else (not h0.concrete and not h1.concrete and h0.dom.eq(h1.dom) and h0.val.eq(h1.val))
        elif isinstance(h0, HList):
            same = (h0.items == h1.items) if h0.concrete and h1.concrete else (not h0.concrete and not h1.concrete and h0.n.eq(h1.n) and _arr_eq(h0.arr, h1.arr))
        elif isinstance(h0, HSet):
            same = (h0.items == h1.items) if h0.items is not None and h1.items is not None else (h0.items is None and h1.items is None and h0.dom.eq(h1.dom))
        if not same:
            bad.append(f"{type(h0).__name__}#{i} content")
    return bad


def _arr_eq(a, b):
    if isinstance(a, tuple):
        return isinstance(b, tuple) and len(a) == len(b) and all(_arr_eq(x, y) for x, y in zip(a, b))
    return a.eq(b)


class Globals:
    """model class of a template's `globals` mapping (a ChainMap over the environment globals)"""


class EntryVC(VC):
    """Template.<method>(*args, **kwargs): the data is copied and nothing but fresh objects is written."""
    prop = "C29"
    timeout_quick = 15000

    def __init__(self, method, shape):
        self.method, self.shape = method, shape  # shape: 'kwargs' = f(**kw), 'mapping' = f(m, **kw)
        self.target = f"jinja2.environment:Template.{method}"
        super().__init__("C29", f"C29.frame.entry.Template.{method}[{shape}]")

    def configure(self, I):
        from contracts.c05 import install_dict_merge
        install_dict_merge(I)
        def new_context(I_, st, args, kwargs, node):
            # contract of Template.new_context (C05): a NEW context object
            vars_ = st.alloc(HDict(dom=z3.Const(fresh_name("ctx_vars_dom"), z3.ArraySort(z3.StringSort(), z3.BoolSort())),
                                   val=z3.Const(fresh_name("ctx_vars_val"), z3.ArraySort(z3.StringSort(), OBJ_SORT)), size=z3.Int(fresh_name("ctx_vars_n")), kk="str", vk="obj"))
            r = st.alloc(HObj(R.Context, fields={"vars": vars_}, path="new_context"))
            A.call_event(st, "self.new_context", args, kwargs, r, node)
            return [(st, r)]

        I.specs["Template.new_context"] = new_context
        I.specs["Template.render_async"] = A.abstract_fn("self.render_async", returns="obj")
        I.specs["Template.generate_async"] = A.abstract_fn("self.generate_async", returns="obj")
        I.specs["Environment.concat"] = A.abstract_fn("environment.concat", returns="obj")
        I.specs["Environment.handle_exception"] = A.abstract_fn("environment.handle_exception", returns="obj", raises=[("any", Exception)])
        # the render function returns a stream; shape bound: two chunks (the frame clause does not depend on the stream)
        I.specs["call_obj"] = A.abstract_fn("root_render_func", returns="obj", raises=[("any", Exception)],
                                            result=lambda st, args, kwargs: (sym(fresh_name("chunk"), "str"), sym(fresh_name("chunk"), "str")))
        I.specs["cm_enter"] = lambda I_, st, cm, node: [(st, cm)]
        I.specs["cm_exit"] = lambda I_, st, cm, ctl, node: [(st, ctl)]
        import asyncio
        I.specs[("fn", id(asyncio.run))] = A.abstract_fn("asyncio.run", returns="obj", raises=[("any", Exception)],
                                                         result=lambda st, args, kwargs: (sym(fresh_name("chunk"), "str"), sym(fresh_name("chunk"), "str")))
        I.specs["comp_abstract"] = lambda I_, e, g, st, cfr, itv, elt_fn: [(st, itv)]  # [n async for n in S] is S collected (A7)
        from jinja2.utils import consume
        I.specs[("fn", id(consume))] = A.abstract_fn("consume", returns=None)
        try:
            from jinja2.async_utils import aclosing
        except ImportError:  # pragma: no cover
            from contextlib import aclosing
        I.specs[("fn", id(aclosing))] = lambda I_, st, args, kwargs, node: [(st, args[0])]

    def setup(self, I, st):
        self.is_async = sym("environment.is_async", "bool")
        self.envglobals = A.adict(st, "env_globals", "str", "obj")
        self.env = A.obj(st, Environment, "environment", fields={"is_async": self.is_async, "globals": self.envglobals})
        self.tglobals = st.alloc(HObj(Globals, path="self.globals"), initial=True)
        self.module = sym("cached_module", "obj")
        self.t = A.obj(st, E.Template, "self", fields={"environment": self.env, "name": sym("template_name", "str"), "blocks": sym("template_blocks", "obj"),
                                                      "globals": self.tglobals, "root_render_func": sym("root_render_func", "obj"), "_module": self.module})
        self.kw = A.adict(st, "kwargs", "str", "obj")
        self.mapping = A.adict(st, "mapping", "str", "obj") if self.shape == "mapping" else None
        args = (self.mapping,) if self.mapping is not None else ()
        self.pre_terms = {r.id: (st.get(r).dom, st.get(r).val) for r in (self.kw, self.mapping, self.envglobals) if r is not None}
        return "locals", {"self": self.t, "args": args, "kwargs": self.kw}

    # ---- clauses
    def p_frame(self, pre, out):
        """state.written within state.allocated (exceptional paths included)"""
        bad = frame_violations(out.st)
        for rid, (d, v) in self.pre_terms.items():
            h = out.st.heap[rid]
            if not (h.dom.eq(d) and h.val.eq(v)):
                bad.append(f"dict#{rid} content changed")
        return not bad

    def p_copied(self, pre, out):
        """the dict that reaches new_context is a fresh merge of the caller's mapping and keywords, never the caller's own dict"""
        st = out.st
        ncs = A.calls(out, "self.new_context")
        delegated = A.calls(out, "asyncio.run") or A.calls(out, "self.render_async") or A.calls(out, "self.generate_async")
        if not ncs:
            # delegation to the async twin (sync API on an async environment) or the documented RuntimeError
            if out.raised and out.value.cls is RuntimeError:
                return True
            return bool(delegated) or None
        if len(ncs) != 1 or len(ncs[0].args) != 2 or ncs[0].kwargs:
            return False
        d = ncs[0].args[1]
        if not isinstance(d, Ref) or d.id not in st.allocated or d in (self.kw, self.mapping):
            return False
        merges = [e for e in st.trace if e.kind == "call" and e.name == "dict_merge" and e.result == d]
        if len(merges) != 1:
            return False
        base, star = merges[0].args
        return star == self.kw and (base == self.mapping if self.mapping is not None else base == ())

    def p_render(self, pre, out):
        """the render function runs once, with the context built from the copy"""
        ncs = A.calls(out, "self.new_context")
        rr = A.calls(out, "root_render_func")
        if not ncs:
            return None
        return len(rr) == 1 and len(rr[0].args) == 2 and rr[0].args[1] is ncs[0].result

    posts = [("writes_only_what_it_allocated", p_frame), ("data_copied_before_use", p_copied), ("renders_once_with_the_new_context", p_render)]

    def concretize(self, model, pre, out):
        return {"entry": self.method, "shape": self.shape}

    def replay(self, w):
        return replay_entry(w)


class ExpressionCall(EntryVC):
    """TemplateExpression.__call__(*args, **kwargs)"""

    def __init__(self, shape):
        self.method, self.shape = "__call__", shape
        self.target = "jinja2.environment:TemplateExpression.__call__"
        VC.__init__(self, "C29", f"C29.frame.entry.TemplateExpression.__call__[{shape}]")

    def configure(self, I):
        EntryVC.configure(self, I)
        I.inline.add("jinja2.environment:TemplateExpression._consume_async")

    def setup(self, I, st):
        kind, loc = EntryVC.setup(self, I, st)
        self.resultvars = A.adict(st, "context_vars", "str", "obj")
        self.expr = A.obj(st, E.TemplateExpression, "expr", fields={"_template": self.t, "_undefined_to_none": sym("undefined_to_none", "bool")})
        loc["self"] = self.expr
        return kind, loc

    def configure_ctx(self, I):
        pass

    def p_render(self, pre, out):
        ncs = A.calls(out, "self.new_context")
        cons = A.calls(out, "consume")
        rr = A.calls(out, "root_render_func")
        if not ncs:
            return None
        if A.calls(out, "asyncio.run") and not cons:
            return len(rr) == 1 and rr[0].args[1] is ncs[0].result  # async environment: the stream is drained by _consume_async
        if out.raised and not cons:
            return len(rr) == 1 and rr[0].args[1] is ncs[0].result  # the render function itself raised
        return len(rr) == 1 and rr[0].args[1] is ncs[0].result and len(cons) == 1 and cons[0].args[0] is rr[0].result

    posts = [("writes_only_what_it_allocated", EntryVC.p_frame), ("data_copied_before_use", EntryVC.p_copied), ("renders_once_with_the_new_context", p_render)]


class MakeGlobals(VC):
    """Environment.make_globals(d): a NEW ChainMap(d or a fresh {}, environment.globals): template globals overlay the
    environment's without ever being merged into them; nothing is written."""
    prop = "C29"
    target = "jinja2.environment:Environment.make_globals"

    def __init__(self, given):
        self.given = given
        super().__init__("C29", f"C29.frame.entry.Environment.make_globals[d={'mapping' if given else 'None'}]")

    def configure(self, I):
        from collections import ChainMap
        I.specs[("fn", id(ChainMap))] = A.abstract_fn("ChainMap", returns="obj")

    def setup(self, I, st):
        self.envglobals = A.adict(st, "env_globals", "str", "obj")
        self.env = A.obj(st, Environment, "environment", fields={"globals": self.envglobals})
        self.d = A.adict(st, "d", "str", "obj") if self.given else None
        return [self.env, self.d], {}

    def p_chain(self, pre, out):
        if out.raised:
            return False
        st = out.st
        cm = A.calls(out, "ChainMap")
        if len(cm) != 1 or out.value is not cm[0].result or len(cm[0].args) != 2 or cm[0].kwargs:
            return False
        first, second = cm[0].args
        if second != self.envglobals:
            return False
        if self.given:
            return first == self.d
        return isinstance(first, Ref) and first.id in st.allocated and isinstance(st.get(first), HDict) and st.get(first).concrete and not st.get(first).items

    def p_frame(self, pre, out):
        return not frame_violations(out.st)

    posts = [("new_chainmap_over_environment_globals", p_chain), ("writes_nothing", p_frame)]

    def concretize(self, model, pre, out):
        return {"entry": "make_globals"}

    def replay(self, w):
        return replay_entry(w)


def replay_entry(w):
    """native: every entry point with a caller-owned dict / keywords; the dict, the environment globals and the template
    globals are deep-compared afterwards; a template that assigns every variable it gets is used"""
    import asyncio
    import jinja2
    problems = []
    src = "{% set a = 1 %}{% set b = b + [9] %}{% for x in b %}{% set c = x %}{% endfor %}{{ a }}{{ b }}{{ glist }}{% set glist = 0 %}{% set g = 1 %}{{ g }}"
    for is_async in (False, True):
        env = jinja2.Environment(enable_async=is_async)
        env.globals["glist"] = [1, 2]
        env.globals["g"] = "G"
        tg = {"tg": [1]}
        t = env.from_string(src, globals=tg)
        snap = lambda: (canon(dict(env.globals)), canon(tg), canon(dict(t.globals)))

        def entries():
            yield "render", lambda d, kw: t.render(d, **kw)
            yield "generate", lambda d, kw: "".join(t.generate(d, **kw))
            yield "stream", lambda d, kw: "".join(t.stream(d, **kw))
            yield "make_module", lambda d, kw: (str(t.make_module(dict(d, **kw))) if not is_async else asyncio.run(t.make_module_async(dict(d, **kw))) and "")
            yield "new_context", lambda d, kw: (t.new_context(d), t.new_context(d, shared=False, locals={"a": 5}))[0] and ""
            if is_async:
                async def ra(d, kw):
                    return await t.render_async(d, **kw)

                async def ga(d, kw):
                    return "".join([x async for x in t.generate_async(d, **kw)])
                yield "render_async", lambda d, kw: asyncio.run(ra(d, kw))
                yield "generate_async", lambda d, kw: asyncio.run(ga(d, kw))

        for name, fn in entries():
            d = {"a": 7, "b": [1, 2], "c": {"k": 1}}
            kw = {"z": [3]}
            before = (canon(d), canon(kw), snap())
            try:
                fn(d, kw)
            except Exception as ex:
                problems.append(f"{name} (async={is_async}): {type(ex).__name__}: {ex}")
                continue
            if (canon(d), canon(kw), snap()) != before:
                problems.append(f"Template.{name} (async={is_async}) modified its inputs: data {d}, keywords {kw}, environment globals {dict(env.globals)}, template globals {tg}")
        if not is_async:
            ex = env.compile_expression("a + b|length")
            d = {"a": 1, "b": [1, 2]}
            before = canon(d)
            r1, r2 = ex(d), ex(d)
            if canon(d) != before or r1 != r2 or r1 != 3:
                problems.append(f"TemplateExpression.__call__ modified its input or is not repeatable: {d}, {r1}, {r2}")
        for shared in (False, True):
            d = {"a": 7, "b": [1, 2]}
            before = canon(d)
            ctx = t.new_context(d, shared=shared, locals={"zz": 5, "a": 6})
            ctx.vars["q"] = 1
            ctx.exported_vars.add("q")
            if canon(d) != before:
                problems.append(f"Template.new_context(vars, shared={shared}, locals=...) or a store into the new context modified the caller's dict: {d}")
            if shared:
                d2 = {"a": 7}
                c2 = t.new_context(d2, shared=True)
                c2.vars["q"] = 1
                if "q" in d2:
                    problems.append("a store into a new context's vars reached the dict the context was built from (vars must be a fresh dict)")
            der = ctx.derived({"loc": 1})
            der.vars["w"] = 2
            if "w" in ctx.vars or "w" in ctx.parent or canon(d) != before:
                problems.append("a store into a derived context reached the context it was derived from")
        g = env.make_globals(None)
        g["mine"] = 1
        g2 = env.make_globals({"x": 1})
        g2["y"] = 2
        if "mine" in env.globals or "y" in env.globals or "x" in env.globals:
            problems.append("a write to a template's globals reached the environment globals")
    bad, det = native_histories()
    if bad:
        problems.append(det)
    return (bool(problems), "; ".join(problems[:2]) or "entry points leave data, environment globals and template globals unchanged")


# ---- the same frame clause on the runs of the contracts that own the other entry functions

class FrameOf(Task):
    """Runs the symbolic paths of a contract of another property module (real source, that module's pre-state) and checks
    the C29 frame clause on every path: every write goes to an object the call allocated; the only admitted write to a
    pre-existing object is the idempotent cache Template._module.  Optionally re-lists named clauses of that contract."""
    kind = "vc"

    def __init__(self, label, module, expr, relist=(), relist_as=None, prefix="C29.frame.entry"):
        self.prop = "C29"
        self.name = f"{prefix}.{label}"
        self.module, self.expr, self.relist, self.relist_as = module, expr, tuple(relist), relist_as

    def inner(self):
        mod = importlib.import_module(self.module)
        return eval(self.expr, vars(mod))

    def run(self, tier, seed):
        from pyvc.engine import Interp
        t0 = time.time()
        try:
            task = self.inner()
            I = Interp()
            pre, outs, own = self.paths_with_params(task, I)
        except Unsupported as ex:
            return [Res(self.name + ".engine", "unknown", "pyvc", time.time() - t0, f"unsupported: {ex}", self.kind)]
        except Exception as ex:  # the other module changed under us: undecided, never a violation
            return [Res(self.name + ".engine", "unknown", "pyvc", time.time() - t0, f"inner contract unavailable: {type(ex).__name__}: {ex}", self.kind)]
        res = []
        for o in outs:
            rr = check_sat(o.st.pc, 1000, seed, use_cvc5=False)
            if rr.status == "unsat":
                continue
            allow = set()
            for i, h in o.st.heap.items():
                if isinstance(h, HObj) and h.cls is E.Template:
                    allow.add((i, "_module"))
            bad = [b for b in frame_violations(o.st, allow) if int(b.split("#")[1].split(".")[0]) not in own]
            bad += containers_changed(pre, o.st, own)
            nm = f"{self.name}.writes_only_what_it_allocated#p{o.idx}"
            if bad:
                res.append(Res(nm, "refuted", "pyvc-path", 0, f"{task.target}: writes to pre-existing objects: {bad[:4]}", self.kind,
                               {"inner": self.expr, "module": self.module, "written": bad[:6]}))
            else:
                res.append(Res(nm, "discharged", "pyvc-path", 0, "", self.kind))
            for clause, fn in task.posts:
                if clause not in self.relist:
                    continue
                try:
                    f = fn(task, pre, o)
                except Unsupported as ex:
                    res.append(Res(f"{self.relist_as}.{clause}#p{o.idx}", "unknown", "pyvc", 0, f"unsupported: {ex}", self.kind))
                    continue
                if f is None:
                    continue
                r = task.discharge(f"{self.relist_as}[{self.expr}].{clause}#p{o.idx}", o.st.pc, f, 10000, seed, pre, o)
                if r.status == "refuted":
                    r.witness = {"inner": self.expr, "module": self.module, "clause": clause}
                res.append(r)
        if not res:
            res.append(Res(self.name + ".paths", "error", "pyvc", 0, "no reachable path", self.kind))
        return res

    def paths_with_params(self, task, I):
        """VC.paths, keeping the objects that belong to the call itself: the instance under construction of an __init__
        and the callee's own **kwargs dict"""
        from pyvc.contract import Outcome
        st = State()
        task.configure(I)
        install_for_generic_items(I)
        args, kwargs = task.setup(I, st)
        pre = st.fork()
        clo = task.closure(I)
        own = set()
        a = clo.node.args
        if args == "locals":
            loc = kwargs
            if a.kwarg is not None and isinstance(loc.get(a.kwarg.arg), Ref):
                own.add(loc[a.kwarg.arg].id)
            first = loc.get((a.posonlyargs + a.args)[0].arg) if (a.posonlyargs + a.args) else None
            results = I.run_body(st, clo, loc)
        else:
            first = args[0] if args else None
            results = I.call_closure(st, clo, list(args), dict(kwargs))
        if task.target.endswith(".__init__") and isinstance(first, Ref):
            own.add(first.id)
        outs = []
        for i, (s, v) in enumerate(results):
            outs.append(Outcome(s, "raise" if isinstance(v, Raised) else "return", v.exc if isinstance(v, Raised) else v, i))
        return pre, outs, own

    def replay(self, w):
        if self.relist and "module" in (self.relist_as or ""):
            v, d = native_module_cache(w)
            if v:
                return v, d
        return replay_entry(w)


def native_module_cache(w=None):
    """native: Template.module is built once, from no variables, and an importing context with extra globals gets an
    uncached module"""
    import jinja2
    problems = []
    env = jinja2.Environment(loader=jinja2.DictLoader({"lib": "{% macro f() %}[{{ extra }}{{ g }}]{% endmacro %}{% set v = extra %}",
                                                       "main": "{% import 'lib' as lib %}{{ lib.f() }}{{ lib.v }}"}))
    env.globals["g"] = "G"
    lib = env.get_template("lib")
    m1 = lib.module
    m2 = lib.module
    if m1 is not m2:
        problems.append("Template.module is rebuilt on every access")
    if str(lib.render(extra="X")) != "" or lib.module is not m1:
        problems.append("a render with variables replaced the cached module")
    if lib.module.f() != "[G]" or str(lib.module.v) != "":
        problems.append(f"the cached module was built from variables: f() = {lib.module.f()!r}, v = {lib.module.v!r}")
    main1 = env.get_template("main", globals={"extra": "E1"})
    r1 = main1.render()
    main2 = env.get_template("main", globals={"extra": "E2"})
    r2 = main2.render()
    if (r1, r2) != ("[E1G]E1", "[E2G]E2"):
        problems.append(f"imports with extra globals: {r1!r}, {r2!r}; expected '[E1G]E1', '[E2G]E2'")
    if lib.module is not m1 or lib.module.f() != "[G]":
        problems.append("an import with extra globals replaced or changed the cached module")
    return (bool(problems), "; ".join(problems[:2]) or "the default module is cached once, built from no variables; extra globals give uncached modules")


def _default_module_fresh_cls():
    from contracts import c05

    class DefaultModuleFresh(c05.DefaultModule):
        """C29.module.pure (extended): whatever _get_default_module(ctx) returns is either the one cached default module (built
        WITHOUT variables; only when the importing context has no extra globals) or a module MADE IN THIS CALL from this context's
        values.  No other object that outlives the call may be returned, and nothing but Template._module may be stored on the
        template.  The template and the context are OPEN objects here: attributes the contract does not know (any memo table a
        change might add) are arbitrary pre-existing values whose methods return arbitrary pre-existing values."""
        prop = "C29"

        def __init__(self, is_async, ctx_given):
            c05.DefaultModule.__init__(self, is_async, ctx_given)
            self.prop = "C29"
            nm = "_get_default_module" + ("_async" if is_async else "")
            self.name = f"C29.module.pure.fresh.{nm}[ctx={'context' if ctx_given else 'None'}]"

        def configure(self, I):
            c05.DefaultModule.configure(self, I)
            from pyvc.values import BoundMethod
            prev_m, prev_g = I.specs.get("method_obj"), I.specs.get("getattr_obj")

            def method_obj(I_, st, args, kwargs, node):
                r = prev_m(I_, st, args, kwargs, node) if prev_m else None
                if r is not None:
                    return r
                return A.abstract_fn("opaque.method", returns="obj")(I_, st, args, kwargs, node)

            def getattr_obj(I_, st, args, kwargs, node):
                r = prev_g(I_, st, args, kwargs, node) if prev_g else None
                return r if r is not None else [(st, BoundMethod(args[0], args[1]))]

            def setitem_obj(I_, st, args, kwargs, node):
                st.trace.append(Event("write", "opaque.setitem", args))
                return [(st, None)]

            I.specs["method_obj"], I.specs["getattr_obj"], I.specs["setitem_obj"] = method_obj, getattr_obj, setitem_obj
            I.specs[("fn", id(frozenset))] = A.abstract_fn("frozenset", returns="obj")

        def setup(self, I, st):
            r = c05.DefaultModule.setup(self, I, st)
            st.get(self.t).open = True
            if self.ctx is not None:
                st.get(self.ctx).open = True
            return r

        def p_fresh(self, pre, out):
            st = out.st
            q = z3.Const(fresh_name("q"), z3.StringSort())
            any_extra = z3.Exists([q], self.extra(q)) if self.ctx_given else z3.BoolVal(False)
            if out.raised:
                return z3.And(out.value.cls is RuntimeError and not self.is_async, self.env_async.t)
            mk = A.calls(out, "self.make_module")
            made = [e for e in mk if out.value is e.result]
            stores = [e for e in st.trace if e.kind == "write" and e.name == "opaque.setitem"]
            now = st.get(self.t).fields.get("_module")
            if stores:
                return z3.Not(z3.BoolVal(True)) if False else False  # a module (or anything) is memoised in a table that outlives the call
            if made:
                e = made[0]
                if len(mk) != 1:
                    return False
                if len(e.args) > 1 or e.kwargs:   # made from variables: only for extra globals, and never cached
                    return z3.And(any_extra, now is self.cached)
                return z3.And(z3.Not(any_extra), z3.Not(self.has_cache.t), now is e.result)
            if out.value is self.cached and not mk:
                return z3.And(z3.Not(any_extra), self.has_cache.t, now is self.cached)
            return False  # an object that was neither made in this call nor is the cached default module

        posts = [("returns_cached_default_or_a_module_made_in_this_call", p_fresh)]

        def replay(self, w):
            return native_import_globals(w)

        def finding_key(self, res):
            return "module-for-extra-globals"

    return DefaultModuleFresh


def native_import_globals(w=None):
    """native: the same library imported by pages with DIFFERENT values of the same template globals, in both orders,
    through get_template and from_string, sync and async"""
    import asyncio
    import jinja2
    problems = []
    lib = "{% macro f() %}[{{ site }}|{{ g }}]{% endmacro %}{% set v = site %}"
    page = "{% import 'lib' as lib %}{{ lib.f() }}{{ lib.v }}{% from 'lib' import f %}{{ f() }}"
    for is_async in (False, True):
        def render(t):
            return asyncio.run(t.render_async()) if is_async else t.render()
        for order in (("alpha", "beta"), ("beta", "alpha")):
            env = jinja2.Environment(loader=jinja2.DictLoader({"lib": lib, "pageA": page, "pageB": page}), enable_async=is_async)
            env.globals["g"] = "G"
            got = []
            for k, site in enumerate(order):
                t = env.get_template("pageA" if k == 0 else "pageB", globals={"site": site})
                got.append(render(t))
                t2 = env.from_string(page, globals={"site": site + "2"})
                got.append(render(t2))
            want = []
            for site in order:
                want += [f"[{site}|G]{site}[{site}|G]", f"[{site}2|G]{site}2[{site}2|G]"]
            if got != want:
                problems.append(f"async={is_async}, pages with site={order}: rendered {got}, each page alone renders {want}")
            plain = render(env.get_template("lib")) == "" and render(env.from_string("{% import 'lib' as lib %}{{ lib.f() }}")) == "[|G]"
            if not plain:
                problems.append(f"async={is_async}: an import without extra globals after imports with them does not use the plain module")
    bad, det = native_module_cache(w)
    if bad:
        problems.append(det)
    return (bool(problems), "; ".join(problems[:2])[:1200] or "imports with different template globals render each page's own values, in any order")


def install_for_generic_items(I):
    """An explicit `for k, v in <generic mapping>.items(): d[k] = f(v)` over the generic-key mapping model of contracts/c04.py
    (the shape a dict comprehension is sometimes rewritten to): the body is run once for the generic key; an empty dict that the
    body fills by item stores becomes the generic mapping with that key (same summary as c04's comprehension / update specs)."""
    if "for_abstract" in I.specs:
        return
    cur = {}

    def hook(I_, n, st, fr, itv):
        if type(itv).__name__ != "GItems" or n.orelse:
            return None
        from contracts import c04
        cur["itv"] = itv
        filled = {x.value.id for stmt in n.body for x in ast.walk(stmt)
                  if isinstance(x, ast.Subscript) and isinstance(x.ctx, ast.Store) and isinstance(x.value, ast.Name)}
        for nm in filled:
            try:
                v = I_.lookup(st, fr, nm)
            except Unsupported:
                continue
            if isinstance(v, Ref) and isinstance(st.get(v), HDict) and st.get(v).concrete and not st.get(v).items:
                st.heap[v.id] = HObj(c04.GMap, fields={"dom": c04.Box(z3.K(itv.dom.sort().domain(), z3.BoolVal(False))), "k": None, "v": None}, path=nm)
        out = []
        for s2, r in I_.assign(n.target, (itv.k, itv.v), st, fr):
            if isinstance(r, Raised):
                from pyvc.interp import Ctl
                out.append((s2, Ctl("raise", r.exc)))
                continue
            for s3, c in I_.exec_block(n.body, s2, fr):
                if c.kind in ("ok", "continue"):
                    from pyvc.interp import OK
                    out.append((s3, OK))
                elif c.kind == "break":
                    raise Unsupported("break in a loop over a generic mapping", n)
                else:
                    out.append((s3, c))
        return out

    def setitem(I_, st, args, kwargs, node):
        m, idx, v = args
        h = st.get(m)
        itv = cur.get("itv")
        if itv is None or h.fields.get("k") is not None or not (isinstance(idx, Sym) and idx.t.eq(itv.k.t)):
            raise Unsupported("item store into a generic mapping at a key other than the generic key", node)
        from contracts import c04
        h.fields.update({"dom": c04.Box(itv.dom), "k": itv.k, "v": v})
        st.written.add((m.id, "*"))
        return [(st, None)]

    I.specs["for_abstract"] = hook
    I.specs.setdefault("GMap.__setitem__", setitem)


def entry_tasks():
    ts = []
    for m in ("render", "render_async", "generate", "generate_async"):
        for shape in ("kwargs", "mapping"):
            ts.append(EntryVC(m, shape))
    ts += [ExpressionCall("kwargs"), ExpressionCall("mapping"), MakeGlobals(True), MakeGlobals(False)]
    c05 = "contracts.c05"
    for cfg in ((True, True, True), (True, True, False), (True, False, True), (True, False, False), (False, True, False), (False, False, False)):
        ts.append(FrameOf("runtime.new_context[vars=%s,globals=%s,locals=%s]" % tuple("dict" if x else "None" for x in cfg), c05, f"NewContext{cfg}"))
    ts += [FrameOf("Context.get_all", c05, "GetAll()"), FrameOf("Template.new_context", c05, "TemplateNewContext()"),
           FrameOf("Template.make_module", c05, "MakeModule(False)"), FrameOf("Template.make_module_async", c05, "MakeModule(True)")]
    for a in (False, True):
        for c in (False, True):
            nm = "_get_default_module" + ("_async" if a else "")
            ts.append(FrameOf(f"Template.{nm}[ctx={'context' if c else 'None'}]", c05, f"DefaultModule({a}, {c})",
                              relist=("cached_without_vars_or_uncached_from_extra_globals",), relist_as="C29.module.pure"))
    cls_ = _default_module_fresh_cls()
    ts += [cls_(a, c) for a in (False, True) for c in (False, True)]
    for n in (0, 2):
        for s_ in (False, True):
            ts.append(FrameOf(f"TemplateModule.__init__[exports={n},body_stream={'given' if s_ else 'None'}]", c05, f"ModuleInit({n}, {s_})"))
    ts += [FrameOf("Context.__init__[globals=None]", "contracts.c04", "ContextInit(False)", relist=("other_fields",), relist_as="C29.frame.entry.Context.__init__.fresh_vars"),
           FrameOf("Context.__init__[globals]", "contracts.c04", "ContextInit(True)", relist=("other_fields",), relist_as="C29.frame.entry.Context.__init__.fresh_vars"),
           FrameOf("Context.derived", "contracts.c04", "ContextDerived()"), FrameOf("Context.call", "contracts.c18", "ContextCall()")]
    return ts


# =====================================================================================================================
# C29.cache.immutable  (bounded native; expected to fail for an exported namespace: DESIGN F20)
# =====================================================================================================================

EXPORT_KINDS = {
    "int": "{% set V = 5 %}", "str": "{% set V = 'abc' %}", "list": "{% set V = [1, 2] %}", "dict": "{% set V = {'n': 1} %}", "tuple": "{% set V = (1, 2) %}",
    "macro": "{% macro V() %}m{% endmacro %}", "namespace": "{% set V = namespace(n=0) %}", "block_set": "{% set V %}blk{% endset %}",
}
STORES = {
    "rebind": "{% set V = 9 %}{{ V }}",
    "item": "{% set V.n = (V.n|default(0)) + 1 %}{{ V.n }}",
    "alias_item": "{% set w = V %}{% set w.n = (w.n|default(0)) + 1 %}{{ w.n }}",
    "loop_target": "{% for V in [7] %}{{ V }}{% endfor %}",
    "with_target": "{% with V = 8 %}{{ V }}{% endwith %}",
    "macro_param": "{% macro setit(p) %}{% set p = 3 %}{{ p }}{% endmacro %}{{ setit(V) }}",
    "macro_param_item": "{% macro setn(p) %}{% set p.n = (p.n|default(0)) + 1 %}{{ p.n }}{% endmacro %}{{ setn(V) }}",
    "loop_item": "{% for i in [1, 2] %}{% set V.n = (V.n|default(0)) + i %}{% endfor %}{{ V.n }}",
}
SHOW = "{% macro show() %}<{{ V.n if V.n is defined else V }}>{% endmacro %}"


def cache_cases():
    for kind, defn in EXPORT_KINDS.items():
        lib = defn + (SHOW if kind != "macro" else "{% macro show() %}<{{ V() }}>{% endmacro %}")
        for sname, store in STORES.items():
            for how in ("import", "from"):
                if how == "import":
                    main = "{% import 'cachelib' as lib %}{% set V = lib.V %}{{ lib.show() }}" + store + "{{ lib.show() }}"
                else:
                    main = "{% from 'cachelib' import V, show %}{{ show() }}" + store + "{{ show() }}"
                yield kind, sname, how, {"cachelib": lib, "cachemain": main}


def cache_case_problem(srcs):
    """render the importing template twice (and once more after the library was imported elsewhere) in one environment
    and compare with an isolated render"""
    want = isolated("cachemain", {}, extra=srcs)
    env = make_env(extra=srcs)
    first = render_once(env, "cachemain", {})
    second = render_once(env, "cachemain", {})
    third = render_once(env, "cachemain", {})
    if not (first == second == third == want):
        return f"library {srcs['cachelib']!r} imported by {srcs['cachemain']!r}: isolated render {want!r}; in one environment {first!r}, then {second!r}, then {third!r}"
    return None


def cache_immutable(task, tier, seed):
    rs = []
    n = 0
    fails = {}
    for kind, sname, how, srcs in cache_cases():
        n += 1
        p = cache_case_problem(srcs)
        if p:
            fails.setdefault(kind, []).append((sname, how, p, srcs))
    task.bound_text = (f"{n} (library, importing template) pairs: exported value kinds {sorted(EXPORT_KINDS)} x template-level stores {sorted(STORES)} x import / from-import; "
                       "3 renders in one environment vs. an isolated render")
    rs.append(Res("C29.cache.immutable", "bounded-ok", "native", 0, f"{n - sum(len(v) for v in fails.values())} of {n} pairs are repeatable", "bounded"))
    for kind, lst in sorted(fails.items()):
        sname, how, p, srcs = lst[0]
        rs.append(Res("C29.cache.immutable", "refuted", "native", 0, f"exported {kind}: {len(lst)} store forms persist in the cached module, e.g. [{sname}, {how}] {p}"[:1000],
                      "bounded", {"key": kind, "srcs": srcs, "stores": sorted({x[0] for x in lst})}))
    return rs


def replay_cache(w):
    srcs = (w or {}).get("srcs")
    if not srcs:
        ps = history_problems(list(NS_TEMPLATES), threads=0)
        return (bool(ps), "; ".join(p[2] for p in ps[:2]) or "repeatable")
    p = cache_case_problem(srcs)
    return (bool(p), p or "repeatable")


class Bounded(FnTask):
    def finding_key(self, res):
        return (res.witness or {}).get("key", "?")


# =====================================================================================================================
# C29.frame.emitted : what generated code may write
# =====================================================================================================================

MUTATORS = {"update", "add", "append", "extend", "insert", "pop", "popitem", "remove", "discard", "clear", "setdefault", "difference_update",
            "intersection_update", "symmetric_difference_update", "sort", "reverse", "__setitem__", "__delitem__", "__setattr__", "appendleft", "extendleft"}
# roots whose attributes / items are shared between renders: never a write target
SHARED_ROOTS = {"environment", "template", "parent_template", "included_template", "self", "blocks", "debug_info", "name"}
# documented per-render stores of the generated code
CONTEXT_STORES = ("context.vars", "context.exported_vars", "context.blocks", "context.eval_ctx")


def dotted(n):
    parts = []
    while True:
        if isinstance(n, ast.Attribute):
            parts.append(n.attr)
            n = n.value
        elif isinstance(n, ast.Subscript):
            parts.append("[]")
            n = n.value
        elif isinstance(n, ast.Call):
            parts.append("()")
            n = n.func
        else:
            break
    root = n.id if isinstance(n, ast.Name) else None
    return root, list(reversed(parts))


def classify_target(root, parts, ph):
    """-> None when the write target is admitted, else a description"""
    if root is None:
        return "a write through an expression that is not rooted at a name"
    if not parts:
        return None  # a Python local of the render function (l_*, t_*, markers, parameters)
    text = root + "".join("." + p if p not in ("[]", "()") else p for p in parts)
    if root in SHARED_ROOTS:
        return f"write to `{text}`: `{root}` is shared between renders"
    if root == "context":
        head = "context." + parts[0]
        if head in CONTEXT_STORES:
            return None
        return f"write to `{text}`: only context.vars / exported_vars / blocks / eval_ctx belong to the render"
    if root in ("_loop_vars", "_block_vars"):
        return None
    if re.fullmatch(r"t_\d+|t_buf", root):
        return None  # buffers and derived-context temporaries (created by this render)
    if root in ph:
        v = ph[root]
        if isinstance(v, tuple) and v[0] == "ident":
            return None if parts == ["[]"] else f"write to `{text}`: only an ITEM of a template variable (namespace attribute) may be stored"
        return None  # a child's own emission (hole): checked in that child's schema
    return f"write to `{text}`: not one of the documented per-render stores"


def emitted_writes_pred(sc, tree, ph, txt):
    if sc.outcome == "raise" or tree is None:
        return []
    fails = []
    cls_name = getattr(sc.st.get(sc.node).cls, "__name__", "") if getattr(sc, "node", None) is not None and hasattr(sc, "st") else ""
    for n in ast.walk(tree):
        targets = []
        if isinstance(n, ast.Assign):
            targets = list(n.targets)
        elif isinstance(n, (ast.AugAssign, ast.AnnAssign)):
            targets = [n.target]
        elif isinstance(n, ast.Delete):
            targets = list(n.targets)
        elif isinstance(n, (ast.For, ast.AsyncFor)):
            targets = [n.target]
        elif isinstance(n, ast.NamedExpr):
            targets = [n.target]
        elif isinstance(n, (ast.With, ast.AsyncWith)):
            targets = [i.optional_vars for i in n.items if i.optional_vars is not None]
        elif isinstance(n, ast.Global) or isinstance(n, ast.Nonlocal):
            fails.append(f"generated code declares {type(n).__name__.lower()} names {n.names}")
        flat = []
        for t in targets:
            flat += [x for x in ast.walk(t) if isinstance(x, (ast.Name, ast.Attribute, ast.Subscript)) and isinstance(getattr(x, "ctx", None), (ast.Store, ast.Del))] or [t]
        for t in flat:
            if isinstance(t, (ast.Tuple, ast.List, ast.Starred)):
                continue
            root, parts = dotted(t)
            why = classify_target(root, parts, ph)
            if why:
                fails.append(why)
        if isinstance(n, ast.Call) and isinstance(n.func, ast.Attribute) and n.func.attr in MUTATORS:
            root, parts = dotted(n.func.value)
            why = classify_target(root, parts + ["." + n.func.attr], ph) if (root in SHARED_ROOTS or root == "context") else None
            if root == "context" and parts and ("context." + parts[0]) in CONTEXT_STORES:
                why = None
            if why:
                fails.append(f"mutating call {ast.unparse(n.func)[:80]}(...): {why}")
    # visit_NSRef emits the store target `<ident>['attr']` as an expression statement (it is completed by visit_Assign)
    if cls_name == "NSRef":
        for stmt in tree.body:
            if isinstance(stmt, ast.Expr) and isinstance(stmt.value, ast.Subscript):
                root, parts = dotted(stmt.value)
                why = classify_target(root, parts, ph)
                if why:
                    fails.append(why)
    return fails


def replay_emitted(w):
    """native: compile a family of templates that use every statement kind, scan the REAL generated source with the same
    classifier, then run the histories"""
    problems = scan_generated_family()
    bad, det = native_histories()
    if bad:
        problems.append(det)
    return (bool(problems), "; ".join(problems[:3]) or "generated code of the template family writes only per-render stores; histories repeat")


def scan_generated_family():
    import jinja2
    env = make_env()
    problems = []
    srcs = dict(TEMPLATES)
    srcs.update(NS_TEMPLATES)
    srcs.update(LIB)
    srcs["t_misc"] = ("{% import 'lib_macro' as lib %}{% from 'lib_macro' import f as ff %}{% extends 'base' %}{% block body scoped %}{{ super() }}{% endblock %}"
                      "{% do b.append(1) %}{% set ns = namespace() %}{% set ns.x, y = 1, 2 %}{% autoescape false %}{% endautoescape %}"
                      "{% call(z) lib.f(1) %}{{ z }}{% endcall %}{% for a in b recursive %}{{ loop(a) }}{% else %}{% endfor %}{% include ['inc', 'x'] ignore missing %}")
    for name, src in srcs.items():
        for is_async in (False, True):
            e = make_env(is_async)
            try:
                code = e.compile(src, name=name, raw=True)
                tree = ast.parse(code)
            except jinja2.TemplateSyntaxError:
                continue  # rejected at compile time (e.g. a name and an attribute of it in one set target): no code to scan
            except Exception as ex:
                problems.append(f"{name}: {type(ex).__name__}: {ex}")
                continue
            ph = {}
            for n in ast.walk(tree):
                if isinstance(n, ast.Name) and re.fullmatch(r"l_\d+_.*", n.id):
                    ph[n.id] = ("ident", None)

            class S:
                outcome = "return"
                node = None
            for why in emitted_writes_pred(S, tree, ph, code):
                # module-level names of the generated module (name / blocks / debug_info are assigned once at load time)
                problems.append(f"{name} (async={is_async}): {why}")
    return problems


def generated_family(task, tier, seed):
    """the REAL generated source of the template family (every statement kind; filters / tests pulled in by pull_dependencies,
    assignment tracking, frame entry / exit) scanned with the same classifier"""
    ps = scan_generated_family()
    task.bound_text = f"{len(TEMPLATES) + len(NS_TEMPLATES) + len(LIB) + 1} templates, sync and async code generation"
    if ps:
        return [Res("C29.frame.emitted.generated_family", "refuted", "native", 0, "; ".join(ps[:3])[:900], "bounded", {"key": ps[0][:80]})]
    return [Res("C29.frame.emitted.generated_family", "bounded-ok", "native", 0, "only per-render stores are written", "bounded")]


def helper_emission(task, tier, seed):
    """the code-emitting helpers that visitors use through markers in the emission runs: pop_assign_tracking (every small tracked
    set x frame kind), enter_frame / leave_frame (every small load table) - same write rule"""
    from contracts import c03
    rs = []

    class SC:
        pass

    def check(name, scs, wit):
        for i, sc in enumerate(scs):
            if sc.outcome == "raise":
                continue
            tree, ph, txt = c03.stmts_of(sc)
            sc.node = None
            fails = emitted_writes_pred(sc, tree, ph, txt)
            rs.append(Res(f"C29.frame.emitted.{name}#p{i}", "refuted" if fails else "discharged", "pyvc-emit", 0, "; ".join(fails[:3]), "emission",
                          dict(wit, schema=sc.describe()[:300]) if fails else None))

    for names in c03.TRACK_SETS:
        def gen_fields(st, names=names):
            return {"_assign_stack": st.alloc(HList(items=[st.alloc(HSet(items=list(names)), initial=True)]), initial=True)}
        check(f"pop_assign_tracking[{','.join(names) or 'empty'}]", c03.run_gen_method("pop_assign_tracking", lambda st, g: [g.frame], gen_fields=gen_fields,
                                                                                          configure=c03.install_sorted), {"helper": "pop_assign_tracking"})
    for actions in c03.LOAD_TABLES:
        if any(a not in (c03.PARAM, c03.RESOLVE, c03.ALIAS, c03.UNDEF) for a in actions):
            continue
        check(f"enter_frame[{','.join(actions) or 'empty'}]", c03.run_gen_method("enter_frame", lambda st, g: [g.frame], pre=c03.frame_with_loads(actions)), {"helper": "enter_frame"})
        check(f"leave_frame[{','.join(actions) or 'empty'}]", c03.run_gen_method("leave_frame", lambda st, g: [g.frame, False], pre=c03.frame_with_loads(actions)), {"helper": "leave_frame"})
    return rs


def emitted_tasks():
    from pyvc import emit
    from contracts.emit_common import visitors
    from contracts import c03
    ts = all_visitor_tasks("C29", "C29.frame.emitted", emitted_writes_pred, replay_fn=replay_emitted, only=[nm for nm, _m, _w in visitors() if nm != "For"])

    def for_configure(I):
        c03.record_frames(I)  # Node.find_all -> abstract descendants (otherwise most paths of visit_For end in an engine artefact)

    for is_async in (False, True):
        ts.append(EmitTask("C29", f"C29.frame.emitted.visit_For[{'async' if is_async else 'sync'}]", "jinja2.compiler:CodeGenerator.visit_For", N.For, emitted_writes_pred,
                           mode="stmts", buffers=(None, "t_buf"), replay_fn=replay_emitted, configure=for_configure, env_fields={"is_async": is_async}, min_paths=50))

    def params(st):
        return {"args": st.alloc(HList(items=[emit.make_node(st, N.Name, "node.args[0]")]), initial=True),
                "defaults": st.alloc(HList(items=[emit.make_node(st, N.Expr, "node.defaults[0]", kind="expr")]), initial=True)}

    def abstract_params(I):
        for nm in ("push_parameter_definitions", "pop_parameter_definitions", "mark_parameter_stored"):
            I.specs[f"CodeGenerator.{nm}"] = A.abstract_fn(nm, returns=None)
        I.specs["CodeGenerator.parameter_is_undeclared"] = A.abstract_fn("parameter_is_undeclared", returns="bool")

    for cls in ("Macro", "CallBlock"):
        for is_async in (False, True):
            t = EmitTask("C29", f"C29.frame.emitted.visit_{cls}[{'async' if is_async else 'sync'}]", f"jinja2.compiler:CodeGenerator.visit_{cls}", getattr(N, cls),
                         emitted_writes_pred, mode="stmts", buffers=(None,), replay_fn=replay_emitted, node_fields=params, configure=abstract_params,
                         env_fields={"is_async": is_async}, min_paths=4)
            t.bound_text = "macro / call block nodes with a concrete parameter list of length 1"
            ts.append(t)

    def names(st):
        return {"names": st.alloc(HList(items=["n0", ("n1", "alias1")]), initial=True)}

    t = EmitTask("C29", "C29.frame.emitted.visit_FromImport", "jinja2.compiler:CodeGenerator.visit_FromImport", N.FromImport, emitted_writes_pred, mode="stmts",
                 buffers=(None, "t_buf"), replay_fn=replay_emitted, node_fields=names, configure=c03.install_sorted, min_paths=2)
    t.bound_text = "from-import with two imported names (one aliased)"
    ts.append(t)
    from contracts.emit_template import TemplateEmitTask
    tt = TemplateEmitTask("C29", "C29.frame.emitted.visit_Template", template_writes_pred, replay_fn=replay_emitted, min_paths=8, n_blocks=1, n_imports=1,
                          configure=c03.install_nfkc)
    tt.bound_text = "template with 1 block and 1 imported name (body abstract)"
    ts.append(tt)
    ts += c03.store_guard_tasks(prop="C29", prefix="C29.frame.emitted.item_store_guarded")
    for t_ in ts[-2 * len(c03.TARGET_SHAPES):]:
        t_.replay_fn = replay_emitted
    ts.append(FnTask("C29", "C29.frame.emitted.helpers", helper_emission, "emission", replay_emitted))
    ts.append(Bounded("C29", "C29.frame.emitted.generated_family", generated_family, "bounded", replay_emitted))
    return ts


def template_writes_pred(sc, tree, ph, txt):
    """visit_Template: the generated MODULE assigns its own module-level names (name, blocks, debug_info, imports) once at load
    time; inside the render functions the same rule as for every other visitor holds"""
    if sc.outcome == "raise" or tree is None:
        return []
    fails = []
    for stmt in tree.body:
        if isinstance(stmt, (ast.FunctionDef, ast.AsyncFunctionDef)):
            fails += emitted_writes_pred(sc, ast.Module(body=stmt.body, type_ignores=[]), ph, txt)
        elif isinstance(stmt, ast.Assign):
            for t in stmt.targets:
                if not isinstance(t, ast.Name):
                    fails.append(f"module level write to {ast.unparse(t)[:60]}")
        elif isinstance(stmt, (ast.Import, ast.ImportFrom, ast.Expr, ast.Pass)):
            continue
        else:
            fails.append(f"unexpected module level statement {type(stmt).__name__}")
    return fails


# =====================================================================================================================
# C29 eval-context scopes: context.eval_ctx of an imported macro is the EvalContext of the CACHED module (Template._module)
# =====================================================================================================================
# Generated code of a macro reads and writes `context.eval_ctx` of the context it closes over.  For a macro reached through
# {% import %} / {% from %} that context belongs to the cached TemplateModule, so the object outlives the render and is shared by
# all renders and threads.  Hence (sequential clause) every modification must be undone on EVERY exit path of the scope, and
# (thread clause / C29.cache.immutable) the object should not be written at all.

def _is_eval_ctx_store(n):
    from pyvc import emit
    return isinstance(n, ast.Attribute) and isinstance(n.ctx, ast.Store) and emit.call_name(n.value) == "context.eval_ctx"


def scoped_restore_pred(sc, tree, ph, txt):
    """visit_ScopedEvalContextModifier: `t = context.eval_ctx.save()` is followed by try: <option stores, body> finally:
    context.eval_ctx.revert(t) - the saved state is restored when the body is left by continue / break / return / an exception too"""
    from pyvc import emit
    if sc.outcome == "raise" or tree is None:
        return []
    body = list(tree.body)
    if not body or not (isinstance(body[0], ast.Assign) and isinstance(body[0].value, ast.Call) and emit.call_name(body[0].value) == "context.eval_ctx.save"
                        and isinstance(body[0].targets[0], ast.Name)):
        return [f"the scope does not start by saving the eval context: {txt!r}"]
    saved = body[0].targets[0].id
    fails = []

    def is_revert(stmt):
        return (isinstance(stmt, ast.Expr) and isinstance(stmt.value, ast.Call) and emit.call_name(stmt.value) == "context.eval_ctx.revert"
                and len(stmt.value.args) == 1 and isinstance(stmt.value.args[0], ast.Name) and stmt.value.args[0].id == saved)

    rest = body[1:]
    if len(rest) == 1 and isinstance(rest[0], ast.Try) and not rest[0].handlers and not rest[0].orelse and len(rest[0].finalbody) == 1 and is_revert(rest[0].finalbody[0]):
        inner = rest[0].body
        if any(is_revert(x) for x in ast.walk(ast.Module(body=inner, type_ignores=[])) if isinstance(x, ast.Expr)):
            fails.append("the saved state is also reverted inside the protected body")
        return fails
    protected = any(isinstance(x, ast.Try) and x.finalbody for x in rest)
    if not protected:
        fails.append("context.eval_ctx is modified for the scope but restored by a plain statement after the body: `continue`, `break` or an exception in the "
                     "body skips the revert (no try/finally), so the modification outlives the scope - and the render, when the context is a cached module's")
    else:
        fails.append(f"unexpected shape of the protected scope: {txt!r}")
    return fails


def eval_ctx_store_pred(sc, tree, ph, txt):
    """C29.cache.immutable (thread clause): generated code does not write attributes of context.eval_ctx - for the macros of an
    imported template that object is reachable from the cross-render cache Template._module and shared by concurrent renders"""
    if sc.outcome == "raise" or tree is None:
        return []
    stores = [n for n in ast.walk(tree) if _is_eval_ctx_store(n)]
    from pyvc import emit
    reverts = [n for n in ast.walk(tree) if isinstance(n, ast.Call) and emit.call_name(n) == "context.eval_ctx.revert"]
    if stores or reverts:
        return [f"generated code modifies the shared object context.eval_ctx in place ({len(stores)} attribute stores, {len(reverts)} revert calls): inside a macro of an "
                "imported template this is the EvalContext of the cached module, read by every concurrent render (set blocks, pass_eval_context filters, volatile frames)"]
    return []


EVAL_LIB = {
    "ec_lib": "{% macro show(v) %}{% set y %}{{ v }}{% endset %}{{ [y, v]|join(',') }}{% endmacro %}"
              "{% macro cont(v) %}{% for i in [1] %}{% autoescape true %}{% continue %}{% endautoescape %}{% endfor %}{% endmacro %}"
              "{% macro brk(v) %}{% for i in [1] %}{% autoescape true %}{% break %}{% endautoescape %}{% endfor %}{% endmacro %}"
              "{% macro boom(x) %}{% autoescape true %}{{ x.nope.nope }}{% endautoescape %}{% endmacro %}"
              "{% macro plain(v) %}{% autoescape true %}{{ v }}{% endautoescape %}{% endmacro %}"
              "{% macro slow(v) %}{% autoescape true %}{% for i in range(50) %}{{ v }}{% endfor %}{% endautoescape %}{% endmacro %}"
              "{% macro many(v) %}{% for i in range(50) %}{% set y %}{{ v }}{% endset %}{{ [y, v]|join(',') }};{% endfor %}{% endmacro %}",
    "ec_good": "{% import 'ec_lib' as lib %}{{ lib.show('<b>') }}",
    "ec_plain": "{% import 'ec_lib' as lib %}{{ lib.plain('<') }}{{ lib.show('<b>') }}",
    "ec_continue": "{% import 'ec_lib' as lib %}{{ lib.cont(1) }}{{ lib.show('<b>') }}",
    "ec_break": "{% from 'ec_lib' import brk, show %}{{ brk(1) }}{{ show('<b>') }}",
    "ec_bad": "{% import 'ec_lib' as lib %}{{ lib.boom(1) }}",
    "ec_threads": "{% import 'ec_lib' as lib %}{{ lib.slow('<') }}|{{ lib.many('<b>') }}",
    "ec_local_continue": "{% for i in [1, 2] %}{% autoescape true %}{{ '<' }}{% continue %}{% endautoescape %}{% endfor %}{% set y %}{{ '<' }}{% endset %}{{ [y, '<']|join }}",
}


def eval_ctx_env():
    import jinja2
    return jinja2.Environment(loader=jinja2.DictLoader(EVAL_LIB), extensions=["jinja2.ext.loopcontrols"])


def eval_ctx_sequential():
    """-> [(variant, detail)]: the hunt inputs of C29_2 and neighbours, single-threaded"""
    out = []
    iso = {n: render_once(eval_ctx_env(), n, {}) for n in EVAL_LIB if n != "ec_lib"}
    for variant, seq in (("plain-scope", ["ec_plain", "ec_plain", "ec_good"]), ("continue", ["ec_continue", "ec_continue", "ec_good"]),
                         ("break", ["ec_break", "ec_break", "ec_good"]), ("exception", ["ec_bad", "ec_good", "ec_plain"]),
                         ("same-template-continue", ["ec_local_continue", "ec_local_continue"])):
        env = eval_ctx_env()
        got = [(n, render_once(env, n, {})) for n in seq]
        bad = [(n, r) for n, r in got if r != iso[n]]
        if bad:
            n, r = bad[0]
            out.append((variant, f"sequence {seq} in one environment: {n} rendered {r!r}, isolated render {iso[n]!r} ({variant} inside {{% autoescape %}} in a macro of the "
                                 "imported, cached module leaves its eval context modified)"))
    return out


def eval_ctx_threads(threads=8, rounds=150):
    """the hunt input of C29_1: concurrent renders of a template whose imported macros use {% autoescape %}"""
    import sys
    import threading
    iso = render_once(eval_ctx_env(), "ec_threads", {})
    env = eval_ctx_env()
    env.get_template("ec_threads").render()
    results = []
    old = sys.getswitchinterval()
    sys.setswitchinterval(1e-6)
    try:
        def work():
            for _ in range(rounds):
                results.append(render_once(env, "ec_threads", {}))
        ths = [threading.Thread(target=work) for _ in range(threads)]
        for t in ths:
            t.start()
        for t in ths:
            t.join()
    finally:
        sys.setswitchinterval(old)
    after = render_once(env, "ec_threads", {})
    diff = [r for r in results if r != iso]
    if diff or after != iso:
        r = diff[0] if diff else after
        txt = r[1] if r[0] == "ok" else r
        return f"{len(diff)} of {len(results)} renders from {threads} threads differ from the isolated render (e.g. {str(txt)[-60:]!r} vs {str(iso[1])[-40:]!r}); single render afterwards {'differs too' if after != iso else 'is equal'}"
    return None


def eval_ctx_histories(task, tier, seed):
    rs = []
    seq = eval_ctx_sequential()
    task.bound_text = "5 single-threaded sequences (plain scope / continue / break / exception in an imported macro, continue in the template itself) and 8 threads x 150 renders"
    rs.append(Res("C29.bounded.eval_ctx_histories", "bounded-ok", "native", 0, f"{5 - len(seq)} of 5 sequential histories repeat", "bounded"))
    for variant, det in seq:
        rs.append(Res("C29.bounded.eval_ctx_histories", "refuted", "native", 0, det[:900], "bounded", {"key": "sequential-leak", "variant": variant}))
    th = None
    for _attempt in range(4):  # the race is probabilistic: a few attempts so that the listed finding is observed in every run
        th = eval_ctx_threads()
        if th:
            break
    if th:
        rs.append(Res("C29.bounded.eval_ctx_histories", "refuted", "native", 0, th[:900], "bounded", {"key": "threads", "variant": "threads"}))
    return rs


def replay_eval_ctx(w):
    v = (w or {}).get("variant")
    if v == "threads" or (w or {}).get("key") == "eval_ctx-store":
        for _ in range(4):
            th = eval_ctx_threads()
            if th:
                return (True, th)
        return (False, "concurrent renders equal the isolated render in 4 attempts")
    seq = eval_ctx_sequential()
    return (bool(seq), "; ".join(d for _v, d in seq[:2])[:1200] or "sequential histories with eval-context scopes in imported macros repeat")


class KeyedEmit(EmitTask):
    def __init__(self, *a, key="?", **k):
        EmitTask.__init__(self, *a, **k)
        self._key = key

    def finding_key(self, res):
        return self._key


def eval_ctx_tasks():
    ts = [KeyedEmit("C29", "C29.frame.emitted.eval_ctx_scope.visit_ScopedEvalContextModifier", "jinja2.compiler:CodeGenerator.visit_ScopedEvalContextModifier",
                    N.ScopedEvalContextModifier, scoped_restore_pred, mode="stmts", buffers=(None, "t_buf"), replay_fn=replay_eval_ctx, min_paths=4, key="revert-not-in-finally")]
    for cls in ("ScopedEvalContextModifier", "EvalContextModifier"):
        ts.append(KeyedEmit("C29", f"C29.cache.immutable.eval_ctx.visit_{cls}", f"jinja2.compiler:CodeGenerator.visit_{cls}", getattr(N, cls), eval_ctx_store_pred,
                            mode="stmts", buffers=(None,), replay_fn=replay_eval_ctx, min_paths=2, key="eval_ctx-store"))
    ts.append(Bounded("C29", "C29.bounded.eval_ctx_histories", eval_ctx_histories, "bounded", replay_eval_ctx))
    return ts


# =====================================================================================================================
# C29.frame.filters  = C19.filters.frame (re-listed)
# =====================================================================================================================

class FiltersProxy(Task):
    """Re-runs the filter frame obligations of contracts/c19.py (which themselves re-run the frame clauses of the filter contracts of
    contracts/c22.py on the same real sources): every built-in filter writes only objects it allocated."""
    kind = "vc"

    def __init__(self, part, parts):
        self.prop, self.part, self.parts = "C29", part, parts
        self.name = f"C29.frame.filters[{part}]"

    def inner(self):
        from contracts import c19
        ts = [t for t in c19.TASKS if t.name.startswith("C19.filters.frame")]
        return [t for i, t in enumerate(ts) if i % self.parts == self.part]

    def run(self, tier, seed):
        res = []
        try:
            inner = self.inner()
        except Exception as ex:
            return [Res(self.name + ".engine", "unknown", "pyvc", 0, f"contracts.c19 unavailable: {type(ex).__name__}: {ex}", self.kind)]
        bounds = []
        for t in inner:
            for r in t.run(tier, seed):
                r.name = "C29.frame.filters." + r.name[len("C19.filters.frame."):] if r.name.startswith("C19.filters.frame.") else "C29.frame.filters." + r.name
                if r.status == "refuted":
                    fk = getattr(t, "finding_key", None)
                    r.witness = {"_c19_task": t.name, "inner": r.witness, "key": (fk(r) if fk else None)}
                res.append(r)
            if getattr(t, "bound_text", None):
                bounds.append(t.bound_text)
        if bounds:
            self.bound_text = "; ".join(sorted(set(bounds)))[:600]
        return res or [Res(self.name + ".empty", "error", "pyvc", 0, "no inner obligations", self.kind)]

    def finding_key(self, res):
        return str((res.witness or {}).get("key"))

    def replay(self, w):
        for t in self.inner():
            if t.name == (w or {}).get("_c19_task"):
                return t.replay(w.get("inner") or {})
        from contracts import c19
        return c19.replay_native_frame({})


# =====================================================================================================================
# C29.frame.filters.policies : filters that read environment.policies leave the policy values (shared between environments) alone
# =====================================================================================================================

class PolicyFrame(VC):
    """A filter that consults environment.policies: the policies mapping and every value reachable from it exist before the
    call (the nested ones are shared by ALL environments: DEFAULT_POLICIES is copied shallowly) and must be unchanged after it;
    every write goes to an object the call allocated."""
    prop = "C29"
    timeout_quick = 15000

    def frame(self, pre, out):
        bad = frame_violations(out.st) + containers_changed(pre, out.st)
        return not bad

    def concretize(self, model, pre, out):
        return {"filter": self.target.split(":")[-1]}

    def replay(self, w):
        return replay_policies(w)


class ToJsonPolicy(PolicyFrame):
    """do_tojson(eval_ctx, value, indent): dumps receives the policy's keyword arguments; with an indent a COPY of them plus
    `indent`, the policy dict itself is never written."""
    target = "jinja2.filters:do_tojson"

    def __init__(self, given):
        self.given = given
        super().__init__("C29", f"C29.frame.filters.policies.do_tojson[indent={'given' if given else 'None'}]")

    def configure(self, I):
        import jinja2.filters as F
        I.specs["star_kwargs_abstract"] = True
        I.specs[("fn", id(F.htmlsafe_json_dumps))] = A.abstract_fn("htmlsafe_json_dumps", returns="obj", raises=[("any", Exception)])

    def setup(self, I, st):
        self.dumps_kwargs = A.adict(st, "json_dumps_kwargs", "str", "obj")
        h = st.get(self.dumps_kwargs)
        self.kd, self.kv = h.dom, h.val
        self.dumps = sym("json_dumps_function", "obj")
        self.policies = st.alloc(HDict(items={"json.dumps_function": self.dumps, "json.dumps_kwargs": self.dumps_kwargs, "truncate.leeway": 5}), initial=True)
        self.env = A.obj(st, Environment, "environment", fields={"policies": self.policies})
        self.eval_ctx = A.obj(st, N.EvalContext, "eval_ctx", fields={"environment": self.env})
        self.value = sym("value", "obj")
        self.indent = sym("indent", "int")
        from pyvc.smt import host_const
        st.assume(to_term(self.indent, "obj") != host_const(None))  # an int argument is not None
        return [self.eval_ctx, self.value, self.indent if self.given else None], {}

    def p_kwargs(self, pre, out):
        calls = A.calls(out, "htmlsafe_json_dumps")
        if len(calls) != 1:
            return False
        c = calls[0]
        if len(c.args) != 1 or c.args[0] is not self.value or c.kwargs.get("dumps") is not self.dumps or set(c.kwargs) != {"dumps", "**"}:
            return False
        star = c.kwargs["**"]
        st = out.st
        if not self.given:
            return star == self.dumps_kwargs
        if not isinstance(star, Ref) or star == self.dumps_kwargs or star.id not in st.allocated:
            return False
        h = st.get(star)
        k = z3.StringVal("indent")
        q = z3.Const(fresh_name("q"), z3.StringSort())
        return z3.And(h.dom == z3.Store(self.kd, k, True), z3.Select(h.val, k) == to_term(self.indent, "obj"),
                      z3.ForAll([q], z3.Implies(z3.And(q != k, z3.Select(self.kd, q)), z3.Select(h.val, q) == z3.Select(self.kv, q))))

    posts = [("policy_values_unchanged_and_only_fresh_objects_written", PolicyFrame.frame), ("dumps_gets_policy_kwargs_plus_indent_on_a_copy", p_kwargs)]


class Obj2:
    pass


class UrlizePolicy(PolicyFrame):
    """do_urlize(eval_ctx, value, ...): the three urlize.* policy values are read, never written (extra_schemes may be a
    pre-existing list: it is iterated and handed on, not changed); string processing is abstract here."""
    target = "jinja2.filters:do_urlize"

    def __init__(self, args_given):
        self.args_given = args_given
        super().__init__("C29", f"C29.frame.filters.policies.do_urlize[{'arguments' if args_given else 'defaults'}]")

    def configure(self, I):
        import jinja2.filters as F
        I.specs[("fn", id(F.urlize))] = A.abstract_fn("urlize", returns="obj", raises=[("any", Exception)])
        I.specs[("fn", id(F.Markup))] = A.abstract_fn("Markup", returns="obj")
        I.specs[("fn", id(sorted))] = lambda I_, st, args, kwargs, node: [(st, st.alloc(HList(items=list(I_.iter_concrete(st, args[0], node)))))]

        def method_obj(I_, st, args, kwargs, node):
            o, name = args[0], args[1]
            if name == "split":
                return [(st, (sym(fresh_name("word"), "str"),))]
            return None

        I.specs["method_obj"] = method_obj
        from pyvc.values import BoundMethod
        I.specs["getattr_obj"] = lambda I_, st, args, kwargs, node: ([(st, BoundMethod(args[0], args[1]))] if args[1] == "split" else None)
        def fullmatch(*a):  # stable stand-in object for the bound method _uri_scheme_re.fullmatch
            raise RuntimeError("abstract")

        self._fullmatch = fullmatch
        I.specs[("fn", id(fullmatch))] = A.abstract_fn("re.fullmatch", returns="obj")
        I.attr_hook = lambda I_, st, obj, name, node: ([(st, fullmatch)] if obj is F._uri_scheme_re and name == "fullmatch" else None)

    def setup(self, I, st):
        self.schemes = st.alloc(HList(items=[sym("scheme0", "obj")]), initial=True)
        self.policies = st.alloc(HDict(items={"urlize.rel": sym("policy_rel", "obj"), "urlize.target": sym("policy_target", "obj"),
                                              "urlize.extra_schemes": self.schemes, "json.dumps_kwargs": A.adict(st, "json_dumps_kwargs", "str", "obj")}), initial=True)
        self.env = A.obj(st, Environment, "environment", fields={"policies": self.policies})
        self.eval_ctx = A.obj(st, N.EvalContext, "eval_ctx", fields={"environment": self.env, "autoescape": sym("autoescape", "bool")})
        self.value = sym("value", "obj")
        if self.args_given:
            self.own_schemes = st.alloc(HList(items=[sym("scheme_arg", "obj")]), initial=True)
            return [self.eval_ctx, self.value, sym("trim", "obj"), sym("nofollow", "bool"), sym("target", "obj"), sym("rel", "obj"), self.own_schemes], {}
        return [self.eval_ctx, self.value], {}

    def p_reads(self, pre, out):
        calls = A.calls(out, "urlize")
        if out.raised and not calls:
            return None
        if len(calls) != 1:
            return False
        es = calls[0].kwargs.get("extra_schemes")
        return es == (self.own_schemes if self.args_given else self.schemes)

    posts = [("policy_values_unchanged_and_only_fresh_objects_written", PolicyFrame.frame), ("extra_schemes_from_argument_else_policy", p_reads)]


POLICY_TEMPLATES = {
    "p_json_plain": "{{ c|tojson }}|{{ b|tojson }}",
    "p_json_indent": "{{ c|tojson(indent=2) }}|{{ b|tojson(1) }}",
    "p_json_both": "{{ c|tojson }}{{ c|tojson(2) }}{{ c|tojson }}",
    "p_urlize_plain": "{{ 'see http://a.example/x and www.b.example'|urlize }}",
    "p_urlize_args": "{{ 'see http://a.example/x tel:1'|urlize(10, true, target='_blank', rel='me', extra_schemes=['tel:']) }}",
    "p_truncate_plain": "{{ 'foo bar baz qux quux corge'|truncate(9) }}",
    "p_truncate_args": "{{ 'foo bar baz qux quux corge'|truncate(9, true, '..', 0) }}",
    "p_wordwrap": "{{ 'foo bar baz qux'|wordwrap(7) }}{{ 'foo bar'|wordwrap(3, wrapstring='|') }}",
    "p_trans": "{% trans %} a  b {% endtrans %}{% trans trimmed %} a  b {% endtrans %}",
}


def env_state(env):
    """everything of an environment that outlives a render and that a filter / test / extension can reach"""
    import jinja2.defaults as D
    return {"policies": canon(env.policies), "DEFAULT_POLICIES": canon(D.DEFAULT_POLICIES), "globals": canon(dict(env.globals)),
            "DEFAULT_NAMESPACE": canon({k: v for k, v in D.DEFAULT_NAMESPACE.items()}),
            "filters": sorted((k, id(v)) for k, v in env.filters.items()), "tests": sorted((k, id(v)) for k, v in env.tests.items()),
            "DEFAULT_FILTERS": sorted((k, id(v)) for k, v in D.DEFAULT_FILTERS.items()), "DEFAULT_TESTS": sorted((k, id(v)) for k, v in D.DEFAULT_TESTS.items())}


def state_diff(a, b):
    return [k for k in a if a[k] != b[k]]


import jinja2.defaults as _D
PRISTINE_DEFAULT_POLICIES = canon(_D.DEFAULT_POLICIES)  # taken at import time, before any render in this process


def policy_problems(names=None, is_async=False):
    """the policy templates in both orders (plain first / arguments first), in one environment and across environments:
    outputs equal the isolated render, the environment state (policies and the process-wide defaults) equals its snapshot"""
    import jinja2
    names = list(names or POLICY_TEMPLATES)
    problems = []
    if canon(_D.DEFAULT_POLICIES) != PRISTINE_DEFAULT_POLICIES:
        problems.append(("*", "DEFAULT_POLICIES", f"jinja2.defaults.DEFAULT_POLICIES differs from its import-time value: {_D.DEFAULT_POLICIES}"))
        return problems

    def mk(custom=False):
        e = jinja2.Environment(loader=jinja2.DictLoader(POLICY_TEMPLATES), enable_async=is_async, autoescape=True, extensions=["jinja2.ext.i18n"])
        e.install_null_translations()
        if custom:  # an application that configured its own (container-valued) policies
            e.policies["urlize.extra_schemes"] = ["tel:"]
            e.policies["urlize.rel"] = "noopener nofollow"
            e.policies["urlize.target"] = "_top"
            e.policies["json.dumps_kwargs"] = {"sort_keys": False, "separators": (",", ":")}
            e.policies["truncate.leeway"] = 2
        return e

    for n in names:  # configured policies: two renders each, state compared
        e = mk(custom=True)
        before = env_state(e)
        r1, r2 = render_once(e, n, base_data()), render_once(e, n, base_data())
        d = state_diff(before, env_state(e))
        if d or r1 != r2:
            problems.append((n, "env-state", f"{n} {POLICY_TEMPLATES[n]!r} with configured policies: renders {r1!r} / {r2!r}, changed {d} (policies now {e.policies})"))

    want = {}
    for n in names:  # isolated renders: each in a fresh environment; the process-wide defaults are checked after each
        e = mk()
        before = env_state(e)
        want[n] = render_once(e, n, base_data())
        d = state_diff(before, env_state(e))
        if d:
            problems.append((n, "env-state", f"{n} {POLICY_TEMPLATES[n]!r}: one render changed {d} (policies now {e.policies})"))
            return problems
    for order in (names, list(reversed(names))):
        e = mk()
        before = env_state(e)
        for n in order + order:
            r = render_once(e, n, base_data())
            if r != want[n]:
                problems.append((n, "order", f"{n} {POLICY_TEMPLATES[n]!r} rendered after {order[:order.index(n)] or 'itself'}: {r!r}, isolated render {want[n]!r}"))
            d = state_diff(before, env_state(e))
            if d:
                problems.append((n, "env-state", f"{n} {POLICY_TEMPLATES[n]!r}: the render changed {d}"))
                before = env_state(e)
        e2 = mk()  # another environment afterwards
        for n in names:
            r = render_once(e2, n, base_data())
            if r != want[n]:
                problems.append((n, "other-environment", f"{n} {POLICY_TEMPLATES[n]!r} in a fresh environment after renders elsewhere: {r!r}, isolated render {want[n]!r}"))
    return problems


def replay_policies(w=None):
    ps = policy_problems() + policy_problems(is_async=True)
    return (bool(ps), "; ".join(p[2] for p in ps[:2])[:1200] or "policy-reading filters: outputs independent of order, environment state and process-wide defaults unchanged")


def environment_state_all_filters(task, tier, seed):
    """every registered filter and test (the template family of contracts/c19.py: each filter on 8 container variables, bare and
    with container-valued arguments) + the policy templates: after every render the environment state - policies incl. nested
    values, globals, filter / test tables, and the process-wide DEFAULT_* tables - equals its snapshot"""
    import jinja2
    from contracts import c19
    ts = list(c19.frame_templates()) + ["{{ %s is %s }}" % (v, t) for t in sorted(jinja2.defaults.DEFAULT_TESTS) for v in ("l", "d", "text")]
    fails = {}
    n = 0
    for autoescape in (False, True):
        for is_async in (False, True):
            env = jinja2.Environment(autoescape=autoescape, enable_async=is_async)
            before = env_state(env)
            for src in ts:
                n += 1
                try:
                    env.from_string(src).render(**c19.frame_data())
                except Exception:
                    pass
                d = state_diff(before, env_state(env))
                if d:
                    m = re.match(r"\{\{\s*\w+\s*(?:\||is )\s*(\w+)", src)
                    fails.setdefault((m.group(1) if m else src, tuple(d)), f"{src} (autoescape={autoescape}, async={is_async}) changed {d}")
                    before = env_state(env)
    ps = policy_problems() + policy_problems(is_async=True)
    for nme, kind, det in ps:
        fails.setdefault((nme, kind), det)
    task.bound_text = f"{len(ts)} templates (every registered filter and test) x autoescape off/on x sync/async, {len(POLICY_TEMPLATES)} policy templates in both orders and across environments"
    rs = [Res("C29.frame.filters.environment_state", "bounded-ok", "native", 0, f"{n} renders left policies / globals / filter and test tables / DEFAULT_* unchanged", "bounded")]
    for key, det in sorted(fails.items(), key=repr):
        rs.append(Res("C29.frame.filters.environment_state", "refuted", "native", 0, det[:900], "bounded", {"key": f"{key[0]}:{key[1]}", "detail": det[:300]}))
    return rs


def policy_tasks():
    return [ToJsonPolicy(True), ToJsonPolicy(False), UrlizePolicy(False), UrlizePolicy(True),
            FrameOf("do_truncate[policy leeway]", "contracts.c23", "Truncate(True)", prefix="C29.frame.filters.policies"),
            FrameOf("do_truncate[leeway argument]", "contracts.c23", "Truncate(False)", prefix="C29.frame.filters.policies"),
            Bounded("C29", "C29.frame.filters.environment_state", environment_state_all_filters, "bounded", replay_policies)]


# =====================================================================================================================
# C29.bounded.histories
# =====================================================================================================================

def bounded_histories(part, parts):
    def run(task, tier, seed):
        from standins import c03_scoping as S
        t0 = time.time()
        fails = {}
        family = list(TEMPLATES) + list(POLICY_TEMPLATES)
        names = [n for i, n in enumerate(family) if i % parts == part]
        if part == 0:
            for n, kind, det in policy_problems() + policy_problems(is_async=True):
                fails.setdefault((kind, n), det)
        if part == 1:
            bad, det = native_import_globals()
            if bad:
                fails.setdefault(("import-globals", "lib"), det)
        cases = 0
        for is_async in (False, True):
            use = [n for n in names if not (is_async and n == "t_cycler")]
            for n, kind, det in history_problems(use, is_async=is_async, threads=0 if is_async else 4):
                fails.setdefault((kind, n), det)
            cases += len(use)
        # generated corpus (scoping constructs, namespaces, macros, recursion): one shared environment
        count = 60 if tier == "quick" else 600
        progs = list(S.programs(7000 + 31 * seed + part, count, max_depth=2, max_stmts=3))
        srcs = {f"gen{i}": S.source(p) for i, p in enumerate(progs)}
        gen_data = lambda: {"a": 7, "b": [1, 2], "c": {"k": 1}, "tree": copy.deepcopy(S.TREE)}
        for n, kind, det in history_problems(list(srcs), extra=srcs, threads=4, data_fn=gen_data):
            fails.setdefault((kind, srcs[n]), det.replace(n + ":", repr(srcs[n]) + ":"))
        cases += len(srcs)
        task.bound_text = (f"{len(names)} hand-written templates (filters that read environment.policies with and without arguments, in both orders and across environments; imports with cached modules, includes, inheritance, namespaces, loop state, filters that build new "
                           f"containers; sync and async) and {count} generated statement trees per task: each rendered isolated, twice, after all others and from 4 threads "
                           "(switch interval 1 microsecond) in one shared environment; data, environment globals, template globals, environment.policies incl. nested values, filter / test tables and the process-wide DEFAULT_* tables "
                           "deep-compared with a snapshot after every render")
        task.stats = {"templates": cases, "seconds": round(time.time() - t0, 1)}
        rs = [Res(f"C29.bounded.histories[{part}]", "bounded-ok", "native", 0, f"{cases} templates x 4 histories agree with the isolated render; inputs unchanged", "bounded")]
        for (kind, n), det in sorted(fails.items()):
            rs.append(Res(f"C29.bounded.histories.{kind}", "refuted", "native", 0, det[:900], "bounded", {"key": f"{kind}:{n}", "template": n, "kind": kind}))
        return rs
    return run


def replay_histories(w):
    n = (w or {}).get("template")
    if (w or {}).get("kind") == "import-globals":
        return native_import_globals(w)
    if n in POLICY_TEMPLATES or n == "*":
        return replay_policies(w)
    if n in TEMPLATES:
        ps = history_problems([n]) + history_problems([n], is_async=True, threads=0)
    elif n:
        ps = history_problems(["gen"], extra={"gen": n}, data_fn=lambda: {"a": 7, "b": [1, 2], "c": {"k": 1}})
    else:
        return native_histories(w)
    if not ps:
        return native_histories(w)
    return (bool(ps), "; ".join(p[2] for p in ps[:2]) or "repeatable")


N_HIST = 3
_ALL = (entry_tasks() + emitted_tasks() + [FiltersProxy(i, 3) for i in range(3)] + policy_tasks() + eval_ctx_tasks()
         + [Bounded("C29", "C29.cache.immutable", cache_immutable, "bounded", replay_cache)]
         + [Bounded("C29", f"C29.bounded.histories[{i}]", bounded_histories(i, N_HIST), "bounded", replay_histories) for i in range(N_HIST)])
_HEAVY = ("visit_For", "visit_Template", "visit_Macro", "visit_CallBlock", "runtime.new_context[vars=dict,globals=dict,locals=dict]")
TASKS = sorted(_ALL, key=lambda t: 0 if any(h in t.name for h in _HEAVY) else 1)  # long tasks first (process pool)

META = {
    "level": "other",
    "explanation": (
        "Proof of mechanism for the sequential clauses. (1) Frame contracts (state.written within state.allocated, exceptional paths included) on the real "
        "Template.render / render_async / generate / generate_async, TemplateExpression.__call__ and Environment.make_globals, with 'the dict that reaches "
        "new_context is a fresh dict(*args, **kwargs)'; the same frame clause evaluated on the symbolic runs of the contracts of runtime.new_context, "
        "Context.__init__/derived/call/get_all, Template.new_context/make_module(_async)/_get_default_module(_async) and TemplateModule.__init__ "
        "(contracts c05/c04/c18), the only admitted write to a pre-existing object being the idempotent Template._module. (2) Emission contracts on every "
        "visitor (all symbolic paths; Macro/CallBlock/FromImport/Template on stated shapes): generated code assigns only Python locals, context.vars / "
        "exported_vars / blocks / eval_ctx, _loop_vars, _block_vars, buffers, derived-context temporaries and items of template variables (namespaces) - "
        "never `environment`, a template or the globals. (3) Filter frames re-listed from C19/C22. (4) The cached default module is built once from no "
        "variables (clause of C05's contract, same run). (5) Bounded native histories: repeated / interleaved / 4-thread renders vs. an isolated render with "
        "deep snapshots. The thread clause is NOT decided (no concurrency model): the threaded histories are a probe only. C29.cache.immutable fails by "
        "design for an exported namespace (known finding)."),
    "assumptions": [
        "A7 async iteration is modelled as collecting the stream; the render function's stream is two chunks in the entry contracts (the frame clause does not depend on it)",
        "callables and objects supplied by the data (methods, __getattr__, __iter__) are outside the frame (property statement)",
        "dict(*args, **kwargs) returns a new dict (dependency spec); ChainMap(d, g) does not copy or write d / g",
        "the inner contracts of c05 / c04 / c18 / c19 model the pre-state of their functions faithfully (their own obligations)",
        "no concurrency model: concurrent renders are only probed natively",
    ],
    "trusted_base": ["pyvc symbolic executor and emission engine", "z3 5.1", "contracts/c05.py, c04.py, c18.py, c19.py, c22.py (re-used symbolic runs)",
                     "standins/c03_scoping.py generator"],
}
