"""C22  Collection filters satisfy their documented contracts.

Proof part (unbounded, loop invariants, array encodings of the real source in jinja2/filters.py):
  sync_do_slice   partition arithmetic (s rows, sizes floor(n/s)+1 for i < n mod s, concatenation = input,
                  fill value exactly on the rows one short of the longest)
  do_batch        full rows of `linecount`, last row padded iff a fill value is given, concatenation = input
  sync_do_unique  yields item i iff no earlier item has the same key, order preserved
Relative proofs (library function = dependency spec, the arguments passed are checked):
  do_sort / do_dictsort / sync_do_groupby (`sorted`, `itertools.groupby`), _min_or_max (`min`/`max`),
  sync_do_sum (`sum`), do_reverse (`reversed`), sync_do_list, sync_do_first, do_last, sync_do_join,
  sync_do_map / select_or_reject skeletons, prepare_map, prepare_select_or_reject, make_attrgetter,
  make_multi_attrgetter, ignore_case, and the async twins (same result as the sync function on
  auto_to_list(value); no write to an object the filter did not allocate).
Bounded (never reported as proved): groupby for 0..3 groups of symbolic size, join under autoescape for 0..2 symbolic
items, and the native stand-ins of standins/c22_native.py: every filter through Environment.call_filter (sync env,
async env, async generators) on all small inputs against an executable specification, arguments deep-compared.

Ghost vocabulary for generators: the sequence of yielded values is kept as a symbolic ghost
(st.ghost["Y"]): for row generators  rows: Int -> (Int -> Obj), lens: Int -> Int, n;  for item
generators  items: Int -> Obj, n.  A yielded list is snapshotted at the yield; a later write to it is a
violation of `rows_frozen`.
"""
from __future__ import annotations

import ast
import itertools
import z3

from pyvc.contract import VC, Res, FnTask
from pyvc.values import (State, Sym, Ref, HObj, HList, HDict, HSet, HIter, SSeq, Obj, Exc, Event, Closure, BoundMethod,
                         fresh_name, fresh, sym, sel, Unsupported)
from pyvc.smt import to_term, model_value, host_const, feasible
from pyvc.stmts import LoopSpec
from pyvc.interp import Raised, seq
from pyvc import abstract as A

import jinja2
import jinja2.filters as F

I_ = z3.IntSort()
ArrObj = z3.ArraySort(I_, Obj)
NONE = host_const(None)


# ======================================================================================
# engine extensions local to this module (registered per task in configure; nothing global)
# ======================================================================================

class Y:
    """Ghost sequence of yielded values (immutable record; replaced on every yield)."""

    def __init__(self, mode, n, rows=None, lens=None, items=None, snaps=()):
        self.mode, self.n, self.rows, self.lens, self.items, self.snaps = mode, n, rows, lens, items, tuple(snaps)

    @staticmethod
    def empty(mode):
        if mode == "rows":
            return Y(mode, z3.IntVal(0), rows=z3.Const(fresh_name("Yrows"), z3.ArraySort(I_, ArrObj)),
                     lens=z3.Const(fresh_name("Ylens"), z3.ArraySort(I_, I_)))
        return Y(mode, z3.IntVal(0), items=z3.Const(fresh_name("Yitems"), ArrObj))

    @staticmethod
    def havoc(mode, snaps=()):
        y = Y.empty(mode)
        y.n = z3.Int(fresh_name("Yn"))
        y.snaps = tuple(snaps)
        return y


def install_yield_ghost(I, mode):
    """`yield v` additionally appends v to the symbolic ghost sequence st.ghost['Y']."""

    def ev_Yield(e, st, fr):
        if e.value is None:
            raise Unsupported("bare yield", e)

        def f(s, v):
            s.yields.append(v)
            s.trace.append(Event("yield", "yield", [v], lineno=e.lineno))
            y = s.ghost.get("Y") or Y.empty(mode)
            s.ghost = dict(s.ghost)
            if mode == "rows":
                if not (isinstance(v, Ref) and isinstance(s.get(v), HList)):
                    raise Unsupported("row generator yields a non-list", e)
                arr, ln, kind = A.list_terms(s, v)
                if kind != "obj":
                    arr, ln = obj_array(s, v)
                s.ghost["Y"] = Y(mode, y.n + 1, rows=z3.Store(y.rows, y.n, arr), lens=z3.Store(y.lens, y.n, ln),
                                 snaps=y.snaps + ((v, arr, ln),))
            else:
                s.ghost["Y"] = Y(mode, y.n + 1, items=z3.Store(y.items, y.n, to_term(v, "obj")), snaps=y.snaps)
            return [(s, None)]

        return seq(I.ev(e.value, st, fr), f)

    I.ev_Yield = ev_Yield


def obj_array(st, v):
    """content of a concrete list as (Array Int Obj, len) whatever the element kinds"""
    h = st.get(v)
    arr = z3.K(I_, z3.Const("dummy_obj", Obj))
    for i, x in enumerate(h.items):
        arr = z3.Store(arr, i, to_term(x, "obj"))
    return arr, z3.IntVal(len(h.items))


def cur_list(st, v):
    """(arr, n) of list value v as Obj array terms"""
    h = st.get(v)
    if h.concrete:
        return obj_array(st, v)
    return h.arr, h.n


def rows_frozen(st):
    """no yielded row was written after it was yielded (structural: the snapshot terms are unchanged)"""
    y = st.ghost.get("Y")
    if y is None:
        return True
    for ref, arr, ln in y.snaps:
        a2, n2 = cur_list(st, ref)
        if not (a2.eq(arr) and n2.eq(ln)):
            return False
    return True


def yielded_fresh(st, initial_refs):
    """every yielded row is a list allocated by the generator, and no two yields are the same object"""
    y = st.ghost.get("Y")
    if y is None:
        return True
    ids = [r.id for r, _, _ in y.snaps]
    return len(set(ids)) == len(ids) and all(i in st.allocated and i not in initial_refs for i in ids)


def install_range(I):
    """range(n) for a symbolic n: the sequence 0..n-1 (dependency spec of builtins.range, one argument)."""

    def h(I_, st, args, kwargs, node):
        if len(args) != 1 or kwargs:
            raise Unsupported("range with several arguments", node)
        a = args[0]
        if isinstance(a, int):
            return [(st, range(a))]
        n = to_term(a, "int")
        j = z3.Int(fresh_name("rj"))
        return [(st, SSeq(z3.Lambda([j], j), z3.If(n > 0, n, z3.IntVal(0)), "int"))]

    I.specs[("fn", id(range))] = h


def install_divmod(I):
    """x // y and x % y for symbolic ints with y > 0 on the path: z3 div / mod (Euclidean = floor for y > 0),
    so that specification and program share the terms.  Other cases: the engine's default."""
    orig = I.binop

    def binop(st, op, a, b, node=None):
        if op in (ast.FloorDiv, ast.Mod) and (isinstance(a, Sym) or isinstance(b, Sym)):
            try:
                x, y = to_term(a, "int"), to_term(b, "int")
            except Unsupported:
                return orig(st, op, a, b, node)
            if not feasible(st.pc + [y <= 0], 1000):
                return [(st, Sym(x / y if op is ast.FloorDiv else x % y, "int"))]
        return orig(st, op, a, b, node)

    I.binop = binop


def install_list_repeat(I):
    """[x] * m  for a symbolic int m: a list of max(m, 0) copies of x (dependency spec of list.__mul__)."""
    orig = I.seq_binop

    def seq_binop(st, op, a, b, node):
        if op is ast.Mult and isinstance(a, Ref) and isinstance(b, Sym) and b.k == "int":
            h = st.get(a)
            if isinstance(h, HList) and h.concrete and len(h.items) == 1:
                m = b.t
                return [(st, st.alloc(HList(arr=z3.K(I_, to_term(h.items[0], "obj")), n=z3.If(m > 0, m, z3.IntVal(0)), k="obj")))]
        return orig(st, op, a, b, node)

    I.seq_binop = seq_binop


def install_extend(I):
    """list.extend(other) / `lst += other` for two lists of symbolic length (dependency spec of list.extend), stated
    position-wise:  new[j] = old[j] for j < n,  new[j] = other[j - n] for n <= j < n + m."""
    orig = I.call_method

    def call_method(st, recv, name, args, kwargs, node=None):
        if name == "extend" and isinstance(recv, Ref) and len(args) == 1 and isinstance(args[0], Ref):
            h, hs = st.get(recv), st.get(args[0])
            if isinstance(h, HList) and isinstance(hs, HList) and not h.concrete and not hs.concrete and h.k == "obj" and hs.k == "obj":
                st.trace.append(Event("write", f"{h.tag}.extend", [recv, args[0]], lineno=getattr(node, "lineno", None), held=I.held_locks(st)))
                st.written.add((recv.id, "*"))
                na = z3.Const(fresh_name("ext"), ArrObj)
                j = z3.Int(fresh_name("j"))
                st.assume(z3.ForAll([j], z3.Implies(z3.And(0 <= j, j < h.n), z3.Select(na, j) == z3.Select(h.arr, j))))
                st.assume(z3.ForAll([j], z3.Implies(z3.And(h.n <= j, j < h.n + hs.n), z3.Select(na, j) == z3.Select(hs.arr, j - h.n))))
                h.arr, h.n = na, h.n + hs.n
                return [(st, None)]
        return orig(st, recv, name, args, kwargs, node)

    I.call_method = call_method


def loops_of(fn_node):
    return [n for n in ast.walk(fn_node) if isinstance(n, (ast.For, ast.While, ast.AsyncFor))]


def loop_assigned(node):
    assigned = {x.id for x in ast.walk(node) if isinstance(x, ast.Name) and isinstance(x.ctx, ast.Store)}
    tnames = {x.id for x in ast.walk(node.target) if isinstance(x, ast.Name)} if hasattr(node, "target") else set()
    return assigned - tnames


MUTATORS = {"add", "append", "extend", "insert", "pop", "remove", "clear", "update", "discard", "reverse", "sort", "setdefault", "popitem"}


def loop_mutated(node):
    """locals whose referent is written in the loop (mutating method call / item store) without being re-bound"""
    out = set()
    for x in ast.walk(node):
        if isinstance(x, ast.Call) and isinstance(x.func, ast.Attribute) and isinstance(x.func.value, ast.Name) and x.func.attr in MUTATORS:
            out.add(x.func.value.id)
        if isinstance(x, ast.Subscript) and isinstance(x.ctx, (ast.Store, ast.Del)) and isinstance(x.value, ast.Name):
            out.add(x.value.id)
    return out - loop_assigned(node)


UNBOUND = object()


def value_role(st, v):
    """coarse kind of a local's value at loop entry"""
    if v is UNBOUND:
        return "unbound"
    if isinstance(v, bool) or (isinstance(v, Sym) and v.k == "bool"):
        return "bool"
    if isinstance(v, int) or (isinstance(v, Sym) and v.k == "int"):
        return "int"
    if isinstance(v, Ref):
        h = st.get(v)
        return {HList: "list", HSet: "set", HDict: "dict"}.get(type(h), "heap")
    return "obj"


def install_auto_havoc(I):
    """LoopSpec.havoc may be a callable (st, fr, node, assigned) -> {name: factory}; the loop-carried locals are
    found from the AST of the real loop (a renamed local does not break the contract)."""
    orig = I.havoc

    def havoc(st, fr, spec, node):
        if callable(spec.havoc):
            m = spec.havoc(st, fr, node, loop_assigned(node))
            return orig(st, fr, LoopSpec(spec.invariant, m, spec.heap, spec.name, spec.variant), node)
        return orig(st, fr, spec, node)

    I.havoc = havoc


def gen_havoc(mode, alias_yielded=False, extra=None):
    """Havoc of a generator loop: every local assigned in the loop gets a fresh value of the kind it has at loop
    entry (int/bool/obj; list -> fresh abstract list; set -> fresh abstract set; unbound -> dead), and the
    ghost sequence of yields is replaced by an arbitrary one (to be constrained by the invariant).
    alias_yielded: a local that is unbound at entry and is yielded by the loop refers, at the head of a later
    iteration, to the row yielded by the previous one: modelled as an arbitrary already-yielded list."""

    def hv(st, fr, node, assigned):
        frame = st.frames[fr.fid]
        snaps = ()
        out = {}
        yielded_names = {y.value.id for y in ast.walk(node) if isinstance(y, ast.Yield) and isinstance(y.value, ast.Name)}
        for name in sorted(assigned):
            role = value_role(st, frame.get(name, UNBOUND))
            if role in ("int", "bool", "obj"):
                out[name] = role
            elif role == "list":
                out[name] = lambda s, name=name: s.alloc(HList(arr=z3.Const(fresh_name(name + "_arr"), ArrObj), n=z3.Int(fresh_name(name + "_n")), k="obj"))
            elif role == "set":
                out[name] = lambda s, name=name: s.alloc(HSet(dom=z3.Const(fresh_name(name + "_dom"), z3.ArraySort(Obj, z3.BoolSort())),
                                                              size=z3.Int(fresh_name(name + "_size")), kk="obj"))
            elif role == "unbound":
                if alias_yielded and mode == "rows" and name in yielded_names:
                    prev = st.alloc(HList(arr=z3.Const(fresh_name("prev_row"), ArrObj), n=z3.Int(fresh_name("prev_n")), k="obj"))
                    h = st.get(prev)
                    snaps = snaps + ((prev, h.arr, h.n),)
                    out[name] = lambda s, prev=prev: prev
                else:
                    out[name] = lambda s: None
            else:
                raise Unsupported(f"loop-carried local {name!r} of kind {role}", node)
        for name in sorted(loop_mutated(node)):
            v = frame.get(name, UNBOUND)
            role = value_role(st, v)
            if role == "set" and v.id in st.allocated:
                h = st.get(v)
                h.items, h.dom, h.size, h.kk = None, z3.Const(fresh_name(name + "_dom"), z3.ArraySort(Obj, z3.BoolSort())), z3.Int(fresh_name(name + "_size")), "obj"
            elif role == "list" and v.id in st.allocated:
                h = st.get(v)
                h.items, h.arr, h.n, h.k = None, z3.Const(fresh_name(name + "_arr"), ArrObj), z3.Int(fresh_name(name + "_n")), "obj"
            elif role in ("set", "list"):
                # the loop writes an object the function did not allocate: a frame violation on every path through the loop
                st.written.add((v.id, "*"))
            else:
                raise Unsupported(f"loop writes the referent of {name!r} ({role})", node)
        if mode is not None:
            st.ghost = dict(st.ghost)
            st.ghost["Y"] = Y.havoc(mode, snaps=snaps)
        if extra is not None:
            extra(st, fr, node, out)
        return out

    return hv


def carried(ctx, role, expect=None):
    """current values of the locals of the given role (their value at loop entry) that the loop re-binds or
    writes; if there is none, the locals of that role that the function allocated before the loop"""
    node = None
    for ln in loops_of(ctx.fr.fn_node):
        if ctx.interp.__dict__.get("_loop_entry", {}).get((ctx.fr.fid, id(ln))) is ctx.entry:
            node = ln
    if node is None:
        raise Unsupported("loop node of the invariant context not found")
    eframe = ctx.entry.frames[ctx.fr.fid]
    names = [n for n in sorted(loop_assigned(node) | loop_mutated(node)) if value_role(ctx.entry, eframe.get(n, UNBOUND)) == role]
    if not names and role in ("list", "set"):
        names = [n for n, v in sorted(eframe.items()) if value_role(ctx.entry, v) == role and v.id in ctx.entry.allocated]
    if expect is not None and len(names) != expect:
        raise Unsupported(f"expected {expect} loop-carried local(s) of kind {role}, found {names}")
    return [ctx.local(n) for n in names]


import json
import os
import re

_KNOWN = None


def known_pairs():
    """(obligation, finding key) pairs registered for C22 in known_findings.d/c22.json"""
    global _KNOWN
    if _KNOWN is None:
        _KNOWN = set()
        p = os.path.join(os.path.dirname(os.path.dirname(os.path.abspath(__file__))), "known_findings.d", "c22.json")
        try:
            for f in json.load(open(p)).get("findings", []):
                _KNOWN.add((f.get("obligation"), f.get("key")))
        except OSError:
            pass
    return _KNOWN


def known_keys():
    return {k for _, k in known_pairs()}


class Native:
    """Native side of a contract: cases() enumerates small concrete inputs (json), run_case(w) runs the REAL
    function and the executable specification -> (violated, detail), case_key(w) names the failing input."""

    def cases(self):
        return ()

    def run_case(self, w):
        return (None, "no native oracle")

    def case_key(self, w):
        return "other:" + json.dumps(w, sort_keys=True, default=str)

    def safe_case(self, w):
        try:
            return self.run_case(w)
        except Exception as ex:  # noqa
            return True, f"the real function raised {type(ex).__name__}: {ex} where the specification returns a value (input {w})"

    def sweep(self, obligation=None):
        """first small input on which the real function violates the specification; an input that fails only in an
        already registered way (known finding) counts only for the obligation it is registered for"""
        cache = self.__dict__.setdefault("_sweeps", {})
        ob = re.sub(r"#p\d+$", "", obligation or "")
        if ob not in cache:
            cache[ob] = None
            for w in self.cases():
                v, d = self.safe_case(w)
                if v:
                    k = self.case_key(w)
                    if k not in known_keys() or (ob, k) in known_pairs():
                        cache[ob] = (w, d)
                        break
        return cache[ob]

    def replay(self, w):
        v, d = self.safe_case(w)
        if v:
            return v, d
        for w2 in self.cases():
            v2, d2 = self.safe_case(w2)
            if v2 and self.case_key(w2) not in known_keys():
                return True, d2 + " [the solver's counterexample state is not itself a failing input; failing input found by the small-input sweep]"
        return v, d

    def finding_key(self, res):
        return self.case_key(res.witness) if isinstance(res.witness, dict) else "no-witness"


class GenVC(Native, VC):
    """VC whose side obligations (loop invariants) also get a concrete witness, and whose solver-undecided
    obligations are tried on the real function (small-input sweep): a failing input turns `unknown` into
    `refuted` with that input as the witness."""
    prop = "C22"
    timeout_quick = 8000
    timeout_thorough = 60000
    _pre = None

    inv_labels = ()

    def discharge(self, name, pc, cond, timeout, seed, pre, out):
        m = re.match(r"^(.*)\.inv_(entry|preserved)\[(\d+)\]@\d+$", name)
        if m and int(m.group(3)) < len(self.inv_labels):
            # stable obligation names: no line numbers, the invariant's label instead of its index
            name = f"{m.group(1)}.inv_{m.group(2)}.{self.inv_labels[int(m.group(3))]}"
        r = VC.discharge(self, name, pc, cond, timeout, seed, pre if pre is not None else self._pre, out)
        if r.status == "unknown":
            sw = self.sweep(name)
            if sw is not None:
                return Res(name, "refuted", "native-sweep", r.seconds, f"solver undecided ({r.detail[:80]}); the real function fails on {sw[0]}: {sw[1]}"[:600], self.kind, sw[0])
        elif r.status == "refuted" and isinstance(r.witness, dict) and "concretize_error" not in r.witness:
            v, _ = self.safe_case(r.witness)
            if not v and self.sweep(name) is not None:
                r.witness = self.sweep(name)[0]
        return r

    def paths(self, I):
        pre, outs = VC.paths(self, I)
        self._pre = pre
        return pre, outs

    def replay(self, w):
        return Native.replay(self, w)


# ======================================================================================
# slice
# ======================================================================================

def spec_slice(items, s, fill):
    """The statement, executable: s lists; list i has floor(n/s)+1 items for i < n mod s, floor(n/s) otherwise;
    concatenation = input; the fill value is added exactly to the lists one short of the longest."""
    n = len(items)
    q, r = n // s, n % s
    sizes = [q + 1 if i < r else q for i in range(s)]
    longest = max(sizes)
    out, pos = [], 0
    for sz in sizes:
        row = list(items[pos:pos + sz])
        pos += sz
        if fill is not None and sz == longest - 1:
            row.append(fill)
        out.append(row)
    return out


class Slice(GenVC):
    """sync_do_slice(value, slices, fill_with), slices >= 1, value a finite collection."""
    target = "jinja2.filters:sync_do_slice"
    inv_labels = ("offset", "start_closed_form", "rows_so_far", "row_sizes", "row_items", "row_fill", "rows_frozen_and_fresh")

    def __init__(self):
        super().__init__("C22", "C22.sync_do_slice")

    # specification vocabulary -------------------------------------------------------
    def L(self, i):
        """documented size of row i (input items)"""
        return self.q + z3.If(i < self.r, 1, 0)

    variant = "documented"

    def fill_code(self, i):
        """helper invariant only (not the specification): which rows the loop has given a fill value.  Two candidate
        invariants are tried: the documented behaviour, and the behaviour of the code as found (every row from
        n mod s on, even when n mod s = 0); the postconditions are the same for both."""
        if self.variant == "documented":
            return self.fill_spec(i)
        return z3.And(self.fill.t != NONE, i >= self.r)

    def run(self, tier, seed):
        # the candidate invariant for the documented behaviour first; the as-found candidate is tried only when the
        # first one is REFUTED (not when the solver merely gave up), and is reported only if it is itself inductive
        self.variant = "documented"
        self.__dict__.pop("_sweeps", None)
        first = VC.run(self, tier, seed)
        if not any(r.status == "refuted" for r in first if ".inv_" in r.name):
            return first
        self.variant = "as_found"
        self.__dict__.pop("_sweeps", None)
        second = VC.run(self, tier, seed)
        self.variant = "documented"
        if all(r.status == "discharged" for r in second if ".inv_" in r.name):
            return second
        return first

    def fill_spec(self, i):
        """row i is one short of the longest row"""
        return z3.And(self.fill.t != NONE, self.r > 0, i >= self.r)

    def configure(self, I):
        install_yield_ghost(I, "rows")
        install_auto_havoc(I)
        install_range(I)
        install_divmod(I)
        c = self

        def inv(ctx):
            st, k = ctx.st, ctx.k
            y = st.ghost["Y"]
            off = to_term(carried(ctx, "int", 1)[0], "int")  # the one loop-carried integer (`offset`)
            i, j = z3.Int(fresh_name("i")), z3.Int(fresh_name("j"))
            row = z3.Select(y.rows, i)
            return [
                off == z3.If(k < c.r, k, c.r),
                c.S(k) == off + k * c.q,
                y.n == k,
                z3.ForAll([i], z3.Implies(z3.And(0 <= i, i < k), z3.Select(y.lens, i) == c.L(i) + z3.If(c.fill_code(i), 1, 0))),
                z3.ForAll([i, j], z3.Implies(z3.And(0 <= i, i < k, 0 <= j, j < c.L(i)), z3.Select(row, j) == z3.Select(c.v, c.S(i) + j))),
                z3.ForAll([i], z3.Implies(z3.And(0 <= i, i < k, c.fill_code(i)), z3.Select(row, c.L(i)) == c.fill.t)),
                rows_frozen(st) and yielded_fresh(st, c.initial),
            ]

        I.loops[("sync_do_slice", 0)] = LoopSpec(inv, havoc=gen_havoc("rows", alias_yielded=True), name="slice_loop")

    def setup(self, I, st):
        self.value = A.alist(st, "value", "obj")
        hv = st.get(self.value)
        self.v, self.n = hv.arr, hv.n
        self.s = z3.Int("slices")
        self.fill = sym("fill_with", "obj")
        st.assume(self.s >= 1)
        self.q, self.r = self.n / self.s, self.n % self.s
        # S: prefix sums of the documented sizes (definition by recursion; conservative)
        self.S = z3.Function("S_start", I_, I_)
        i = z3.Int("si")
        st.assume(self.S(0) == 0, z3.ForAll([i], z3.Implies(z3.And(0 <= i, i < self.s), self.S(i + 1) == self.S(i) + self.L(i))))
        st.ghost["Y"] = Y.empty("rows")
        self.initial = {self.value.id}
        return [self.value, Sym(self.s, "int"), self.fill], {}

    # postconditions (from the statement) --------------------------------------------------
    def p_total(self, pre, out):
        return out.returned

    def p_count(self, pre, out):
        if out.raised:
            return None
        return out.st.ghost["Y"].n == self.s

    def p_partition(self, pre, out):
        """row i starts with the L(i) input items v[S(i) .. S(i)+L(i)) and the rows cover the input: S(s) = n"""
        if out.raised:
            return None
        y = out.st.ghost["Y"]
        i, j = z3.Int(fresh_name("i")), z3.Int(fresh_name("j"))
        return z3.And(
            self.S(self.s) == self.n,
            z3.ForAll([i], z3.Implies(z3.And(0 <= i, i < self.s), z3.Select(y.lens, i) >= self.L(i))),
            z3.ForAll([i, j], z3.Implies(z3.And(0 <= i, i < self.s, 0 <= j, j < self.L(i)),
                                         z3.Select(z3.Select(y.rows, i), j) == z3.Select(self.v, self.S(i) + j))))

    def p_extra(self, pre, out):
        """beyond its input items a row holds at most one more item, and that is the fill value"""
        if out.raised:
            return None
        y = out.st.ghost["Y"]
        i = z3.Int(fresh_name("i"))
        ln = z3.Select(y.lens, i)
        return z3.ForAll([i], z3.Implies(z3.And(0 <= i, i < self.s), z3.Or(
            ln == self.L(i),
            z3.And(ln == self.L(i) + 1, self.fill.t != NONE, z3.Select(z3.Select(y.rows, i), self.L(i)) == self.fill.t))))

    def p_fill(self, pre, out):
        """a fill value is added exactly to the rows that are one short of the longest"""
        if out.raised:
            return None
        y = out.st.ghost["Y"]
        i = z3.Int(fresh_name("i"))
        return z3.ForAll([i], z3.Implies(z3.And(0 <= i, i < self.s), z3.Select(y.lens, i) == self.L(i) + z3.If(self.fill_spec(i), 1, 0)))

    def p_frame(self, pre, out):
        return frame_ok(out, self.initial) and rows_frozen(out.st) and yielded_fresh(out.st, self.initial)

    posts = [("raises_nothing", p_total), ("row_count", p_count), ("partition_in_order", p_partition),
             ("only_fill_values_added", p_extra), ("fill_exactly_short_rows", p_fill), ("frame", p_frame)]

    def concretize(self, model, pre, out):
        n = max(0, min(40, model_value(model, self.n)))
        s = max(1, min(40, model_value(model, self.s)))
        fill = None if model_value(model, self.fill.t == NONE) is True else "x"
        return {"fn": "slice", "n": n, "slices": s, "fill": fill}

    def cases(self):
        for n in range(0, 10):
            for sl in range(1, 7):
                for fill in (None, "x"):
                    yield {"fn": "slice", "n": n, "slices": sl, "fill": fill}

    def run_case(self, w):
        n, sl, fill = w["n"], w["slices"], w["fill"]
        items = list(range(n))
        arg = list(items)
        try:
            got = [list(r) for r in list(F.sync_do_slice(arg, sl, fill))]  # rows are read after the generator is exhausted
        except Exception as ex:
            return (True, f"range({n})|slice({sl}, {fill!r}) raised {type(ex).__name__}: {ex}")
        want = spec_slice(items, sl, fill)
        return (got != want or arg != items, f"range({n})|slice({sl}, {fill!r}): real={got} spec={want}")

    def case_key(self, w):
        if w.get("fill") is not None and w.get("n", 1) % max(1, w.get("slices", 1)) == 0:
            # every failing input of this shape fails in the same way only if nothing else is wrong with it
            items = list(range(w["n"]))
            try:
                got = [list(r) for r in F.sync_do_slice(list(items), w["slices"], w["fill"])]
            except Exception:
                got = None
            if got == [r + [w["fill"]] for r in spec_slice(items, w["slices"], None)]:
                return "fill_when_slices_divides_length"
        return Native.case_key(self, w)


# ======================================================================================
# batch
# ======================================================================================

def spec_batch(items, c, fill):
    """The statement, executable: full rows of `linecount`; the last row is padded to `linecount` iff a fill
    value is given; concatenation = input."""
    rows = [list(items[i:i + c]) for i in range(0, len(items), c)]
    if rows and fill is not None:
        rows[-1] += [fill] * (c - len(rows[-1]))
    return rows


class Batch(GenVC):
    """do_batch(value, linecount, fill_with), linecount >= 1.  M(i) stands for i * linecount (defined by
    recursion M(0) = 0, M(i+1) = M(i) + linecount, which keeps the VCs linear)."""
    target = "jinja2.filters:do_batch"

    def closure(self, I):
        return I.closure_of_function(sync_filter("batch"))
    inv_labels = ("bounds", "current_row_nonempty", "items_consumed", "full_row_sizes", "full_row_items", "current_row_items", "rows_frozen_and_fresh")

    def __init__(self):
        super().__init__("C22", "C22.do_batch")

    def configure(self, I):
        install_yield_ghost(I, "rows")
        install_auto_havoc(I)
        install_list_repeat(I)
        install_extend(I)
        c = self

        def inv(ctx):
            st, k = ctx.st, ctx.k
            y = st.ghost["Y"]
            tmp = carried(ctx, "list", 1)[0]
            tarr, tn = cur_list(st, tmp)
            i, j = z3.Int(fresh_name("i")), z3.Int(fresh_name("j"))
            return [
                z3.And(0 <= y.n, y.n <= k, 0 <= tn, tn <= c.c),
                z3.If(k == 0, z3.And(tn == 0, y.n == 0), tn >= 1),
                k == c.M(y.n) + tn,
                z3.ForAll([i], z3.Implies(z3.And(0 <= i, i < y.n), z3.Select(y.lens, i) == c.c)),
                z3.ForAll([i, j], z3.Implies(z3.And(0 <= i, i < y.n, 0 <= j, j < c.c),
                                             z3.Select(z3.Select(y.rows, i), j) == z3.Select(c.v, c.M(i) + j))),
                z3.ForAll([j], z3.Implies(z3.And(0 <= j, j < tn), z3.Select(tarr, j) == z3.Select(c.v, c.M(y.n) + j))),
                rows_frozen(st) and yielded_fresh(st, c.initial) and tmp.id in st.allocated
                and tmp.id not in {r.id for r, _, _ in y.snaps},
            ]

        I.loops[(sync_filter("batch").__qualname__, 0)] = LoopSpec(inv, havoc=gen_havoc("rows"), name="batch_loop")

    def setup(self, I, st):
        self.value = A.alist(st, "value", "obj")
        hv = st.get(self.value)
        self.v, self.n = hv.arr, hv.n
        self.c = z3.Int("linecount")
        self.fill = sym("fill_with", "obj")
        st.assume(self.c >= 1)
        self.M = z3.Function("M_times_linecount", I_, I_)
        i = z3.Int("mi")
        st.assume(self.M(0) == 0, z3.ForAll([i], z3.Implies(z3.And(0 <= i, i <= self.n), self.M(i + 1) == self.M(i) + self.c)))
        st.ghost["Y"] = Y.empty("rows")
        self.initial = {self.value.id}
        return [self.value, Sym(self.c, "int"), self.fill], {}

    def p_total(self, pre, out):
        return out.returned

    def p_count(self, pre, out):
        """ceil(n / linecount) rows"""
        if out.raised:
            return None
        cnt = out.st.ghost["Y"].n
        return z3.If(self.n == 0, cnt == 0, z3.And(cnt >= 1, self.M(cnt - 1) < self.n, self.n <= self.M(cnt)))

    def p_full_rows(self, pre, out):
        """every row but the last is v[i*c .. i*c + c)"""
        if out.raised:
            return None
        y = out.st.ghost["Y"]
        i, j = z3.Int(fresh_name("i")), z3.Int(fresh_name("j"))
        return z3.And(
            z3.ForAll([i], z3.Implies(z3.And(0 <= i, i < y.n - 1), z3.Select(y.lens, i) == self.c)),
            z3.ForAll([i, j], z3.Implies(z3.And(0 <= i, i < y.n - 1, 0 <= j, j < self.c),
                                         z3.Select(z3.Select(y.rows, i), j) == z3.Select(self.v, self.M(i) + j))))

    def p_last_row(self, pre, out):
        """the last row holds the remaining items in order, padded to linecount iff a fill value is given"""
        if out.raised:
            return None
        y = out.st.ghost["Y"]
        last = y.n - 1
        base = self.n - self.M(last)
        row, ln = z3.Select(y.rows, last), z3.Select(y.lens, last)
        j = z3.Int(fresh_name("j"))
        return z3.Implies(y.n >= 1, z3.And(
            1 <= base, base <= self.c,
            z3.ForAll([j], z3.Implies(z3.And(0 <= j, j < base), z3.Select(row, j) == z3.Select(self.v, self.M(last) + j))),
            z3.If(self.fill.t != NONE,
                  z3.And(ln == self.c, z3.ForAll([j], z3.Implies(z3.And(base <= j, j < self.c), z3.Select(row, j) == self.fill.t))),
                  ln == base)))

    def p_frame(self, pre, out):
        return frame_ok(out, self.initial) and rows_frozen(out.st) and yielded_fresh(out.st, self.initial)

    posts = [("raises_nothing", p_total), ("row_count", p_count), ("full_rows_in_order", p_full_rows),
             ("last_row_and_padding", p_last_row), ("frame", p_frame)]

    def concretize(self, model, pre, out):
        n = max(0, min(40, model_value(model, self.n)))
        c = max(1, min(40, model_value(model, self.c)))
        fill = None if model_value(model, self.fill.t == NONE) is True else "x"
        return {"fn": "batch", "n": n, "linecount": c, "fill": fill}

    def cases(self):
        for n in range(0, 10):
            for c in range(1, 6):
                for fill in (None, "x"):
                    yield {"fn": "batch", "n": n, "linecount": c, "fill": fill}

    def run_case(self, w):
        n, c, fill = w["n"], w["linecount"], w["fill"]
        items = list(range(n))
        arg = list(items)
        try:
            got = [list(r) for r in list(sync_filter("batch")(arg, c, fill))]  # rows are read after the generator is exhausted
        except Exception as ex:
            return (True, f"range({n})|batch({c}, {fill!r}) raised {type(ex).__name__}: {ex}")
        want = spec_batch(items, c, fill)
        return (got != want or arg != items, f"range({n})|batch({c}, {fill!r}): real={got} spec={want}")


# ======================================================================================
# unique
# ======================================================================================

def spec_unique(items, key):
    """yields item i iff no earlier item has the same key; order preserved"""
    return [x for i, x in enumerate(items) if all(key(y) != key(x) for y in items[:i])]


class Getter:
    """Abstract key function returned by make_attrgetter / make_multi_attrgetter (their own contracts are separate
    obligations): applying it to x gives fn(x)."""

    def __init__(self, maker, bound, fn):
        self.maker, self.bound, self.fn = maker, bound, fn

    def __repr__(self):
        return f"<getter {self.maker} {sorted(self.bound)}>"


def install_getters(I, key_fn=None):
    """make_attrgetter / make_multi_attrgetter as abstract callees: record the call, return an abstract key
    function (key_fn if given, else a fresh uninterpreted function)."""
    I._getters = []

    def mk(qual, params):
        def h(I_, st, args, kwargs, node):
            bound = dict(zip(params, args))
            for k, v in kwargs.items():
                if k in bound or k not in params:
                    return [(st, Raised(Exc(TypeError, (f"bad argument {k}",), origin=getattr(node, "lineno", None))))]
                bound[k] = v
            g = Getter(qual, bound, key_fn if key_fn is not None else z3.Function(fresh_name("getter"), Obj, Obj))
            I._getters.append(g)
            st.trace.append(Event("call", qual, args, kwargs, g, lineno=getattr(node, "lineno", None)))
            I.specs[("fn", id(g))] = lambda I2, s, a, kw, n, g=g: [(s, Sym(g.fn(to_term(a[0], "obj")), "obj"))]
            return [(st, g)]
        return h

    I.specs["jinja2.filters:make_attrgetter"] = mk("make_attrgetter", ["environment", "attribute", "postprocess", "default"])
    I.specs["jinja2.filters:make_multi_attrgetter"] = mk("make_multi_attrgetter", ["environment", "attribute", "postprocess"])


def same_(a, b):
    return same(a, b)


def getter_ok(g, env, attribute, case_sensitive=None, default=None, postprocess="by_case"):
    """the getter was made for (environment, attribute) with postprocess = ignore_case iff not case_sensitive
    (z3 Bool / bool over the path), and the given default"""
    b = g.bound
    if not same_(b.get("environment"), env) or not same_(b.get("attribute"), attribute):
        return False
    d = b.get("default", None)
    if not same_(d, default):
        return False
    pp = b.get("postprocess", None)
    if postprocess == "by_case":
        cs = to_term(case_sensitive, "bool")
        if pp is F.ignore_case:
            return z3.Not(cs)
        if pp is None:
            return cs
        return False
    return pp is postprocess


def set_dom(st, ref):
    h = st.get(ref)
    if h.items is not None:
        dom = z3.K(Obj, z3.BoolVal(False))
        for x in h.items:
            dom = z3.Store(dom, to_term(x, "obj"), z3.BoolVal(True))
        return dom
    return h.dom


class Unique(GenVC):
    """sync_do_unique(environment, value, case_sensitive, attribute).
    first(x): index of the first item with key x;  rank(i): number of first occurrences among items 0..i-1
    (both defined from the input only; conservative definitions)."""
    target = "jinja2.filters:sync_do_unique"
    inv_labels = ("seen_is_keys_so_far", "yield_count", "yields_are_first_occurrences")

    def __init__(self):
        super().__init__("C22", "C22.sync_do_unique")

    def isfirst(self, i):
        return self.first(self.key(z3.Select(self.v, i))) == i

    def configure(self, I):
        install_yield_ghost(I, "items")
        install_auto_havoc(I)
        c = self
        self.key = z3.Function("key_of", Obj, Obj)
        install_getters(I, key_fn=self.key)

        def inv(ctx):
            st, k = ctx.st, ctx.k
            y = st.ghost["Y"]
            seen = carried(ctx, "set", 1)[0]
            dom = set_dom(st, seen)
            x = z3.Const(fresh_name("x"), Obj)
            i = z3.Int(fresh_name("i"))
            fx = c.first(x)
            return [
                z3.ForAll([x], z3.Select(dom, x) == z3.And(0 <= fx, fx < k, c.key(z3.Select(c.v, fx)) == x)),
                z3.And(y.n == c.rank(k), y.n >= 0),
                z3.ForAll([i], z3.Implies(z3.And(0 <= i, i < k, c.isfirst(i)),
                                          z3.And(0 <= c.rank(i), c.rank(i) < y.n, z3.Select(y.items, c.rank(i)) == z3.Select(c.v, i)))),
            ]

        I.loops[("sync_do_unique", 0)] = LoopSpec(inv, havoc=gen_havoc("items"), name="unique_loop")

    def setup(self, I, st):
        self.env = sym("environment", "obj")
        self.value = A.alist(st, "value", "obj")
        hv = st.get(self.value)
        self.v, self.n = hv.arr, hv.n
        self.cs = sym("case_sensitive", "bool")
        self.attribute = sym("attribute", "obj")
        self.first = z3.Function("first_index_of_key", Obj, I_)
        self.rank = z3.Function("rank", I_, I_)
        i = z3.Int("ui")
        ki = self.key(z3.Select(self.v, i))
        st.assume(z3.ForAll([i], z3.Implies(z3.And(0 <= i, i < self.n), z3.And(0 <= self.first(ki), self.first(ki) <= i,
                                                                              self.key(z3.Select(self.v, self.first(ki))) == ki))))
        st.assume(self.rank(0) == 0, z3.ForAll([i], z3.Implies(z3.And(0 <= i, i < self.n), self.rank(i + 1) == self.rank(i) + z3.If(self.isfirst(i), 1, 0))))
        st.ghost["Y"] = Y.empty("items")
        self.initial = {self.value.id}
        return [self.env, self.value, self.cs, self.attribute], {}

    def p_total(self, pre, out):
        return out.returned

    def p_getter(self, pre, out):
        """key = the attribute (environment lookup rules), lower-cased unless case sensitive"""
        ev = A.calls(out, "make_attrgetter")
        if len(ev) != 1 or A.calls(out, "make_multi_attrgetter"):
            return False
        return getter_ok(ev[0].result, self.env, self.attribute, self.cs)

    def p_first(self, pre, out):
        """the yielded sequence is the subsequence of the items whose key did not occur earlier, in order"""
        if out.raised:
            return None
        y = out.st.ghost["Y"]
        i = z3.Int(fresh_name("i"))
        return z3.And(
            y.n == self.rank(self.n),
            z3.ForAll([i], z3.Implies(z3.And(0 <= i, i < self.n, self.isfirst(i)),
                                      z3.And(0 <= self.rank(i), self.rank(i) < y.n, z3.Select(y.items, self.rank(i)) == z3.Select(self.v, i)))))

    def p_frame(self, pre, out):
        return frame_ok(out, self.initial)

    posts = [("raises_nothing", p_total), ("key_function", p_getter), ("first_occurrences_in_order", p_first), ("frame", p_frame)]

    def concretize(self, model, pre, out):
        n = max(0, min(12, model_value(model, self.n)))
        names = {}
        keys = []
        for i in range(n):
            t = str(model.eval(self.key(z3.Select(self.v, i)), model_completion=True))
            keys.append(names.setdefault(t, len(names)))
        return {"fn": "unique", "keys": keys, "case_sensitive": bool(model_value(model, self.cs.t))}

    def cases(self):
        for n in range(0, 6):
            for keys in itertools.product(range(3), repeat=n):
                for cs in (False, True):
                    yield {"fn": "unique", "keys": list(keys), "case_sensitive": cs}

    def run_case(self, w):
        # items are distinct dicts; the key is looked up with attribute "a"; key class c is spelled "k<c>" (case
        # sensitive) or alternately "k<c>" / "K<c>" (case insensitive: the same key up to case)
        keys, cs = w["keys"], w["case_sensitive"]
        env = jinja2.Environment()
        items = [{"a": (f"k{c}" if cs or i % 2 == 0 else f"K{c}"), "i": i} for i, c in enumerate(keys)]
        arg = list(items)
        try:
            got = list(F.sync_do_unique(env, arg, cs, "a"))
        except Exception as ex:
            return True, f"unique over keys {keys} raised {type(ex).__name__}: {ex}"
        want = spec_unique(items, (lambda d: d["a"]) if cs else (lambda d: d["a"].lower()))
        return ([d["i"] for d in got] != [d["i"] for d in want] or arg != items,
                f"unique(attribute='a', case_sensitive={cs}) over keys {[d['a'] for d in items]}: real indices={[d['i'] for d in got]} spec={[d['i'] for d in want]}")


def frame_ok(out, initial=None):
    """no write to an object that existed before the call"""
    for (rid, field) in out.st.written:
        if rid not in out.st.allocated:
            return False
    return True


# ======================================================================================
# relative proofs: thin wrappers over library functions / other filters
# ======================================================================================

from pyvc.ops import attr_fn, isinst_fn  # noqa: E402
from pyvc.interp import InterpBase  # noqa: E402
from pyvc import models as M_  # noqa: E402
from jinja2.runtime import Undefined  # noqa: E402
from jinja2.exceptions import FilterArgumentError  # noqa: E402
from standins import c22_native as N  # noqa: E402

TRUTHY = InterpBase.truthy_fn
GI = z3.Function("environment.getitem", Obj, Obj, Obj)      # environment.getitem(item, part)
APPLY = z3.Function("py_call1", Obj, Obj, Obj)              # f(x) for an opaque callable f
ADD = z3.Function("py_add", Obj, Obj, Obj)                  # a + b on opaque values
LOWER = z3.Function("ignore_case", Obj, Obj)                # jinja2.filters.ignore_case (own contract: IgnoreCase)
HAS_IADD = z3.Function("type_defines___iadd__", Obj, z3.BoolSort())
DATA_ATTRS = {"environment", "autoescape"}


def same(a, b):
    """the same value (identical object, or syntactically the same term)"""
    if a is b:
        return True
    if isinstance(a, Sym) and isinstance(b, Sym):
        return a.k == b.k and a.t.eq(b.t)
    if isinstance(a, Ref) and isinstance(b, Ref):
        return a == b
    if isinstance(a, (tuple, list)) and isinstance(b, (tuple, list)) and type(a) is type(b):
        return len(a) == len(b) and all(same(x, y) for x, y in zip(a, b))
    if isinstance(a, (Sym, Ref)) or isinstance(b, (Sym, Ref)):
        return False
    try:
        return type(a) is type(b) and a == b
    except Exception:  # noqa
        return False


def install_opaque(I):
    """Opaque (obj-kind) values: `environment` / `autoescape` are data attributes (functions of the object); any
    other attribute is a method; environment.getitem is a function of (item, part); other method calls and
    calls of opaque callables are recorded and return fresh values (f(x) with one argument: APPLY(f, x))."""

    def getattr_obj(I_, st, args, kwargs, node):
        o, name = args
        if name in DATA_ATTRS:
            return [(st, Sym(attr_fn(name)(o.t), "obj"))]
        return [(st, BoundMethod(o, name))]

    def scalar(x):
        return isinstance(x, (Sym, Ref, str, int, bool)) or x is None

    def method_obj(I_, st, args, kwargs, node):
        recv, name, rest = args[0], args[1], list(args[2:])
        if name == "getitem" and len(rest) == 2 and not kwargs and scalar(rest[0]) and scalar(rest[1]):
            return [(st, Sym(GI(to_term(rest[0], "obj"), to_term(rest[1], "obj")), "obj"))]
        v = fresh("m_" + name, "obj")
        st.trace.append(Event("call", "method:" + name, [recv] + rest, kwargs, v, lineno=getattr(node, "lineno", None)))
        return [(st, v)]

    def call_obj(I_, st, args, kwargs, node):
        fn, rest = args[0], list(args[1:])
        if isinstance(fn, Sym) and len(rest) == 1 and not kwargs and scalar(rest[0]):
            v = Sym(APPLY(fn.t, to_term(rest[0], "obj")), "obj")
        else:
            v = fresh("call", "obj")
        st.trace.append(Event("call", "call_obj", [fn] + rest, kwargs, v, lineno=getattr(node, "lineno", None)))
        return [(st, v)]

    I.specs["getattr_obj"], I.specs["method_obj"], I.specs["call_obj"] = getattr_obj, method_obj, call_obj


def lib(I, fn, name, returns="obj"):
    """library function as a recorded abstract callee (its documented behaviour is the dependency spec)"""
    I.specs[("fn", id(fn))] = A.abstract_fn(name, returns=returns)


def repo_abstract(I, qual, name=None, returns="obj"):
    I.specs[qual] = A.abstract_fn(name or qual.split(":")[-1], returns=returns)


def install_ignore_case(I):
    I.specs["jinja2.filters:ignore_case"] = lambda I_, st, args, kwargs, node: [(st, Sym(LOWER(to_term(args[0], "obj")), "obj"))]


def install_enumerate(I):
    """enumerate(list) over a list of known length; list * int with a concrete count"""
    def h(I_, st, args, kwargs, node):
        items = I_.iter_concrete(st, args[0], node)
        return [(st, st.alloc(HIter([(i, x) for i, x in enumerate(items)], 0)))]
    I.specs[("fn", id(enumerate))] = h
    orig = I.seq_binop

    def seq_binop(st, op, a, b, node):
        if op is ast.Mult and isinstance(a, Ref) and isinstance(b, int) and not isinstance(b, bool):
            h_ = st.get(a)
            if isinstance(h_, HList) and h_.concrete:
                return [(st, st.alloc(HList(items=list(h_.items) * b)))]
        return orig(st, op, a, b, node)
    I.seq_binop = seq_binop


def install_async_utils(I):
    """A7: await is transparent; async iteration over auto_aiter(x) yields the items of x in order;
    auto_to_list(x) is a new list with the items of x; auto_await(x) is x."""
    def as_iter(I_, st, args, kwargs, node):
        x = args[0]
        if isinstance(x, Ref) and isinstance(st.get(x), HList):
            h = st.get(x)
            st.trace.append(Event("read", f"{h.tag}.__iter__", [x], lineno=getattr(node, "lineno", None)))
            return [(st, st.alloc(HIter(list(h.items) if h.concrete else SSeq(h.arr, h.n, h.k), 0, tag="aiter")))]
        if isinstance(x, Ref) and isinstance(st.get(x), HIter):
            return [(st, x)]
        v = fresh("auto_aiter", "obj")
        st.trace.append(Event("call", "auto_aiter", [x], {}, v, lineno=getattr(node, "lineno", None)))
        return [(st, v)]

    def to_list(I_, st, args, kwargs, node):
        x = args[0]
        if isinstance(x, Ref) and isinstance(st.get(x), (HList, HIter)):
            rs = M_.instantiate(I_, st, list, [x], {}, node)
            for s, v in rs:
                s.trace.append(Event("call", "auto_to_list", [x], {}, v, lineno=getattr(node, "lineno", None)))
            return rs
        v = fresh("auto_to_list", "obj")
        st.trace.append(Event("call", "auto_to_list", [x], {}, v, lineno=getattr(node, "lineno", None)))
        return [(st, v)]

    I.specs["jinja2.async_utils:auto_aiter"] = as_iter
    I.specs["jinja2.async_utils:auto_to_list"] = to_list
    I.specs["jinja2.async_utils:auto_await"] = lambda I_, st, args, kwargs, node: [(st, args[0])]
    orig = I.call_method

    def call_method(st, recv, name, args, kwargs, node=None):
        if name == "__anext__" and isinstance(recv, Ref) and isinstance(st.get(recv), HIter):
            out = []
            for s, v in M_.iter_next(I, st, recv, node):
                if isinstance(v, Raised) and v.exc.cls is StopIteration:
                    v = Raised(Exc(StopAsyncIteration, (), origin=getattr(node, "lineno", None)))
                out.append((s, v))
            return out
        return orig(st, recv, name, args, kwargs, node)

    I.call_method = call_method


def install_reversed(I):
    """reversed(x): a list -> iterator over the reversed items; an iterator / a non-sequence -> TypeError"""
    def h(I_, st, args, kwargs, node):
        x = args[0]
        if isinstance(x, Ref) and isinstance(st.get(x), HList) and not st.get(x).concrete:
            hh = st.get(x)
            st.trace.append(Event("read", f"{hh.tag}.__reversed__", [x], lineno=getattr(node, "lineno", None)))
            return M_.builtin_reversed(I_, st, [SSeq(hh.arr, hh.n, hh.k)], {}, node)
        if (isinstance(x, Ref) and isinstance(st.get(x), HIter)) or (isinstance(x, Sym) and x.k == "obj"):
            return [(st, Raised(Exc(TypeError, ("object is not reversible",), origin=getattr(node, "lineno", None))))]
        return M_.builtin_reversed(I_, st, args, kwargs, node)
    I.specs[("fn", id(reversed))] = h

    def lst(I_, st, args, kwargs, node):
        if args and isinstance(args[0], Sym) and args[0].k == "obj":
            return [(st, Raised(Exc(TypeError, ("object is not iterable",), origin=getattr(node, "lineno", None))))]
        return M_.instantiate(I_, st, list, args, kwargs, node)
    I.specs[("fn", id(list))] = lst

    import types

    def typ(I_, st, args, kwargs, node):
        """type(x): a generator -> GeneratorType (no __reversed__ / __len__ / __getitem__); the opaque value of the
        non-iterable scenario -> a class with none of the sequence / iteration methods"""
        if len(args) == 1 and not kwargs:
            x = args[0]
            if isinstance(x, Ref) and isinstance(st.get(x), HIter):
                return [(st, types.GeneratorType)]
            if isinstance(x, Sym) and x.k == "obj":
                return [(st, NotIterable)]
        r = M_.instantiate(I_, st, type, args, kwargs, node)
        if r is None:
            raise Unsupported("type() in another shape", node)
        return r

    I.specs[("fn", id(type))] = typ
    I.specs["iter_obj"] = lambda I_, st, args, kwargs, node: [(st, Raised(Exc(TypeError, ("object is not iterable",), origin=getattr(node, "lineno", None))))]


class NotIterable:
    """class of the opaque value in the `not iterable` scenario of do_reverse"""


def sync_filter(name):
    """the sync function of filter `name`: the entry of FILTERS, or what an @async_variant wrapper wraps"""
    f = F.FILTERS[name]
    return f.__wrapped__ if getattr(f, "jinja_async_variant", False) else f


def has_async_variant(name):
    return getattr(F.FILTERS[name], "jinja_async_variant", False) is True


def async_twin(wrapper):
    """the `async def` behind an @async_variant wrapper (a cell of the wrapper's closure)"""
    import inspect
    for c in wrapper.__closure__ or ():
        try:
            f = c.cell_contents
        except ValueError:
            continue
        if inspect.iscoroutinefunction(f) or inspect.isasyncgenfunction(f):
            return f
    raise LookupError(f"no async function behind {wrapper!r}")


def list_eq(st, ref, arr, n):
    """the list `ref` holds exactly arr[0..n)"""
    a2, n2 = cur_list(st, ref)
    j = z3.Int(fresh_name("j"))
    return z3.And(n2 == n, z3.ForAll([j], z3.Implies(z3.And(0 <= j, j < n), z3.Select(a2, j) == z3.Select(arr, j))))


class RelVC(GenVC):
    """Contract on a live function object (`fn`); native oracle = the filter's entry in standins/c22_native.py."""
    fn = None
    fnname = ""          # filter name for the native oracle
    sweep_size = 3

    def __init__(self, name=None):
        VC.__init__(self, "C22", name or f"C22.{self.fn.__name__}")

    def closure(self, I):
        return I.closure_of_function(self.fn)

    def configure(self, I):
        self.I = I
        install_getters(I)
        install_opaque(I)
        install_ignore_case(I)
        install_async_utils(I)
        import typing
        I.specs[("fn", id(typing.cast))] = lambda I_, st, args, kwargs, node: [(st, args[1])]  # typing.cast(t, v) is v

    def cases(self):
        if not self.fnname:
            return
        for w in N.ORACLES[N.FN2ORACLE[self.fnname]].cases(self.sweep_size):
            if w["fn"] == self.fnname and self.want_case(w):
                yield w

    def want_case(self, w):
        return True

    def run_case(self, w):
        if w.get("generic"):
            return (False, "the failed obligation is structural (which library call is made with which arguments); no specific input")
        return N.oracle_for(w).run(w)

    def case_key(self, w):
        if w.get("generic"):
            return "generic"
        return N.oracle_for(w).key(w)

    def concretize(self, model, pre, out):
        return {"fn": self.fnname, "generic": True}

    def p_total(self, pre, out):
        return out.returned

    def p_frame(self, pre, out):
        return frame_ok(out)

    def only_calls(self, out, allowed):
        """no recorded call other than the allowed names"""
        return all(e.name in allowed for e in out.st.trace if e.kind == "call")


def one(xs):
    return xs[0] if len(xs) == 1 else None


# ---- ignore_case ---------------------------------------------------------------------------------

class IgnoreCase(RelVC):
    """ignore_case(value): strings lower-cased, every other value returned as it is"""
    fn = F.ignore_case

    def __init__(self, what):
        self.what = what
        super().__init__(f"C22.ignore_case[{what}]")

    def setup(self, I, st):
        self.v = {"str": sym("value", "str"), "int": sym("value", "int"), "none": None, "tuple": ("a", 1)}[self.what]
        return [self.v], {}

    def p_result(self, pre, out):
        if out.raised:
            return False
        if self.what == "str":
            return isinstance(out.value, Sym) and out.value.k == "str" and out.value.t.eq(z3.Function("str.lower", z3.StringSort(), z3.StringSort())(self.v.t))
        return out.value is self.v

    posts = [("definition", p_result)]

    def run_case(self, w):
        bad = [x for x in ("aB", "", 1, None, ("A",)) if F.ignore_case(x) != (x.lower() if isinstance(x, str) else x)]
        return bool(bad), f"ignore_case differs from its definition on {bad!r}"


# ---- make_attrgetter / make_multi_attrgetter -------------------------------------------------------------

def spec_parts(attribute):
    """documented: dots separate attributes of attributes, integer parts are looked up as integers"""
    if attribute is None:
        return []
    if isinstance(attribute, str):
        import unicodedata
        return [int(p) if p and all(unicodedata.decimal(c, None) is not None for c in p) else p for p in attribute.split(".")]
    return [attribute]


class ThenCall:
    """the function under contract returns a callable: it is then applied to one generic item"""

    def paths(self, I):
        pre, outs = VC.paths(self, I)
        self._pre = pre
        if not hasattr(self, "item"):
            self.item = sym("item", "obj")
        from pyvc.contract import Outcome
        res = []
        for o in outs:
            if o.raised:
                res.append(o)
                continue
            self.made = o.value
            for s, v in I.call(o.st, o.value, [self.item], {}):
                res.append(Outcome(s, "raise", v.exc, len(res)) if isinstance(v, Raised) else Outcome(s, "return", v, len(res)))
        for i, o in enumerate(res):
            o.idx = i
        return pre, res


class AttrGetter(ThenCall, RelVC):
    """make_attrgetter(environment, attribute, postprocess, default)(item) =
    postprocess(fold over the parts of: item := D(environment.getitem(item, part))),  D(v) = default if default is
    not None and v is Undefined else v"""
    fn = F.make_attrgetter
    # U+00B2 SUPERSCRIPT TWO is a digit character but no decimal (int() rejects it): a name; U+0663 is a decimal: 3
    ATTRS = [None, 3, "a", "a.b", "a.0.b", "0", "a1.2b", "a.\u00b2", "\u0663"]

    def __init__(self, attribute, with_pp):
        self.attribute, self.with_pp = attribute, with_pp
        super().__init__(f"C22.make_attrgetter[{attribute!r},postprocess={'yes' if with_pp else 'None'}]")

    def configure(self, I):
        RelVC.configure(self, I)
        I.specs.pop("jinja2.filters:make_attrgetter")
        I.inline.add("jinja2.filters:_prepare_attribute_parts")

    def setup(self, I, st):
        self.env = sym("environment", "obj")
        self.pp = sym("postprocess", "obj") if self.with_pp else None
        if self.with_pp:
            st.assume(self.pp.t != NONE)
        self.default = sym("default", "obj")
        return [self.env, self.attribute, self.pp, self.default], {}

    def p_result(self, pre, out):
        if out.raised:
            return False
        cur = self.item.t
        for part in spec_parts(self.attribute):
            got = GI(cur, to_term(part, "obj"))
            cur = z3.If(z3.And(self.default.t != NONE, isinst_fn(Undefined)(got)), self.default.t, got)
        want = APPLY(self.pp.t, cur) if self.with_pp else cur
        return to_term(out.value, "obj") == want

    posts = [("lookup_chain", p_result), ("frame", RelVC.p_frame)]

    def concretize(self, model, pre, out):
        return {"fn": "attrparts", "attr": self.attribute}

    def cases(self):
        for a_ in self.ATTRS:
            yield {"fn": "attrparts", "attr": a_}
        yield {"fn": "", "generic": True}

    def case_key(self, w):
        return N.oracle_for(w).key(w) if w.get("fn") == "attrparts" else Native.case_key(self, w)

    def run_case(self, w):
        if w.get("fn") == "attrparts":
            return N.oracle_for(w).run(w)
        return self.table_case(w)

    def table_case(self, w):
        env = jinja2.Environment()
        obj = {"a": {"b": "AB", 0: {"b": "A0B"}}, 3: "three", "0": "zero-str", 0: "zero-int", "a1": {"2b": "X"}}
        for attr in self.ATTRS:
            g = F.make_attrgetter(env, attr, postprocess=(lambda v: ("pp", v)))
            want = obj
            for p in spec_parts(attr):
                want = want[p]
            if g(obj) != ("pp", want):
                return True, f"make_attrgetter(env, {attr!r})(obj) = {g(obj)!r}, specification: {('pp', want)!r}"
        g = F.make_attrgetter(env, "zz.b", default="D")
        if g(obj) != "D" and not isinstance(g(obj), Undefined):
            return True, "default handling differs"
        return False, "attribute tables agree"


class AttrGetterChain(ThenCall, RelVC):
    """make_attrgetter for an arbitrary list of parts (unbounded; _prepare_attribute_parts is an abstract callee whose
    result is a sequence of symbolic length): the returned callable computes
        chain(0) = item,  chain(i+1) = D(environment.getitem(chain(i), parts[i])),  result = postprocess(chain(n))
    with D(v) = default if default is not None and v is Undefined, else v."""
    fn = F.make_attrgetter
    inv_labels = ("item_is_chain_k",)

    def __init__(self):
        super().__init__("C22.make_attrgetter[any parts]")

    def D(self, v):
        return z3.If(z3.And(self.default.t != NONE, isinst_fn(Undefined)(v)), self.default.t, v)

    def configure(self, I):
        RelVC.configure(self, I)
        I.specs.pop("jinja2.filters:make_attrgetter")
        install_auto_havoc(I)
        c = self

        def parts(I_, st, args, kwargs, node):
            st.trace.append(Event("call", "_prepare_attribute_parts", args, kwargs, c.parts, lineno=getattr(node, "lineno", None)))
            return [(st, c.parts)]

        I.specs["jinja2.filters:_prepare_attribute_parts"] = parts

        def inv(ctx):
            return [to_term(one(carried(ctx, "obj", 1)), "obj") == c.chain(ctx.k)]

        I.loops[("make_attrgetter.<locals>.attrgetter", 0)] = LoopSpec(inv, havoc=gen_havoc(None), name="parts_loop")

    def setup(self, I, st):
        self.env, self.attribute = sym("environment", "obj"), sym("attribute", "obj")
        self.pp, self.default = sym("postprocess", "obj"), sym("default", "obj")
        self.parts = A.sseq(st, "parts", "obj")
        self.item = sym("item", "obj")
        self.chain = z3.Function("lookup_chain", I_, Obj)
        i = z3.Int("ci")
        st.assume(self.chain(0) == self.item.t,
                  z3.ForAll([i], z3.Implies(z3.And(0 <= i, i < self.parts.n),
                                            self.chain(i + 1) == self.D(GI(self.chain(i), z3.Select(self.parts.arr, i))))))
        return [self.env, self.attribute, self.pp, self.default], {}

    def p_result(self, pre, out):
        if out.raised:
            return False
        e = one(A.calls(out, "_prepare_attribute_parts"))
        if e is None or not same(list(e.args), [self.attribute]):
            return False
        end = self.chain(self.parts.n)
        return to_term(out.value, "obj") == z3.If(self.pp.t != NONE, APPLY(self.pp.t, end), end)

    posts = [("lookup_chain_over_all_parts", p_result), ("frame", RelVC.p_frame)]

    def run_case(self, w):
        return AttrGetter.table_case(self, w)


class MultiAttrGetter(ThenCall, RelVC):
    """make_multi_attrgetter(environment, 'a,b.c', postprocess)(item) = [postprocess(lookup(item, 'a')), postprocess(lookup(item, 'b.c'))]"""
    fn = F.make_multi_attrgetter
    ATTRS = [None, 3, "a", "a,b", "a.0,b", "a.b,c.1,d", "\u00b2,a"]

    def __init__(self, attribute, with_pp):
        self.attribute, self.with_pp = attribute, with_pp
        super().__init__(f"C22.make_multi_attrgetter[{attribute!r},postprocess={'yes' if with_pp else 'None'}]")

    def configure(self, I):
        RelVC.configure(self, I)
        I.specs.pop("jinja2.filters:make_multi_attrgetter")
        I.inline.add("jinja2.filters:_prepare_attribute_parts")
        install_enumerate(I)

    def setup(self, I, st):
        self.env = sym("environment", "obj")
        self.pp = sym("postprocess", "obj") if self.with_pp else None
        if self.with_pp:
            st.assume(self.pp.t != NONE)
        return [self.env, self.attribute, self.pp], {}

    def p_result(self, pre, out):
        if out.raised or not isinstance(out.value, Ref):
            return False
        h = out.st.get(out.value)
        if not (isinstance(h, HList) and h.concrete):
            return False
        split = self.attribute.split(",") if isinstance(self.attribute, str) else [self.attribute]
        if len(h.items) != len(split):
            return False
        conj = []
        for got, attr in zip(h.items, split):
            cur = self.item.t
            for part in spec_parts(attr):
                cur = GI(cur, to_term(part, "obj"))
            want = APPLY(self.pp.t, cur) if self.with_pp else cur
            conj.append(to_term(got, "obj") == want)
        return z3.And(*conj) if conj else True

    posts = [("lookup_chains", p_result), ("frame", RelVC.p_frame)]

    def concretize(self, model, pre, out):
        return {"fn": "attrparts", "attr": self.attribute}

    def cases(self):
        for a_ in self.ATTRS:
            yield {"fn": "attrparts", "attr": a_}
        yield {"fn": "", "generic": True}

    def case_key(self, w):
        return N.oracle_for(w).key(w) if w.get("fn") == "attrparts" else Native.case_key(self, w)

    def run_case(self, w):
        if w.get("fn") == "attrparts":
            return N.oracle_for(w).run(w)
        return self.table_case(w)

    def table_case(self, w):
        env = jinja2.Environment()
        obj = {"a": {"b": "AB", 0: "A0"}, "b": "B", "c": {1: "C1"}, "d": "D", 3: "three"}
        for attr in self.ATTRS:
            g = F.make_multi_attrgetter(env, attr, postprocess=(lambda v: ("pp", v)))
            want = []
            for one_attr in (attr.split(",") if isinstance(attr, str) else [attr]):
                v = obj
                for p in spec_parts(one_attr):
                    v = v[p]
                want.append(("pp", v))
            if g(obj) != want:
                return True, f"make_multi_attrgetter(env, {attr!r})(obj) = {g(obj)!r}, specification: {want!r}"
        return False, "attribute tables agree"


# ---- sort / dictsort / groupby ------------------------------------------------------------------------------

class Sort(RelVC):
    """do_sort = sorted(value, key=<attributes, lower-cased unless case sensitive>, reverse=reverse); permutation,
    order and stability are the dependency spec of `sorted`."""
    fn = sync_filter("sort")
    fnname = "sort"

    def configure(self, I):
        RelVC.configure(self, I)
        lib(I, sorted, "sorted")

    def setup(self, I, st):
        self.env, self.value, self.reverse = sym("environment", "obj"), sym("value", "obj"), sym("reverse", "obj")
        self.cs, self.attribute = sym("case_sensitive", "bool"), sym("attribute", "obj")
        return [self.env, self.value, self.reverse, self.cs, self.attribute], {}

    def p_call(self, pre, out):
        if out.raised:
            return False
        e = one(A.calls(out, "sorted"))
        g = one(A.calls(out, "make_multi_attrgetter"))
        if e is None or g is None or not self.only_calls(out, {"sorted", "make_multi_attrgetter"}):
            return False
        if not (same(list(e.args), [self.value]) and set(e.kwargs) == {"key", "reverse"} and same(e.kwargs["reverse"], self.reverse)
                and e.kwargs["key"] is g.result and out.value is e.result):
            return False
        return getter_ok(g.result, self.env, self.attribute, self.cs)

    posts = [("raises_nothing", RelVC.p_total), ("sorted_with_stated_key_and_reverse", p_call), ("frame", RelVC.p_frame)]


class DictSort(RelVC):
    """do_dictsort = sorted(value.items(), key=<item[0] or item[1], lower-cased unless case sensitive>, reverse=reverse);
    any other `by` raises FilterArgumentError"""
    fn = F.do_dictsort
    fnname = "dictsort"

    def __init__(self, by):
        self.by = by
        super().__init__(f"C22.do_dictsort[by={by}]")

    def configure(self, I):
        RelVC.configure(self, I)

        def h(I_, st, args, kwargs, node):
            keyf = kwargs.get("key")
            a, b = fresh("probe_key", "obj"), fresh("probe_value", "obj")
            rs = I_.call(st, keyf, [(a, b)], {}, node) if isinstance(keyf, Closure) else [(st, None)]
            outs = []
            for s, kv in rs:
                if isinstance(kv, Raised):
                    outs.append((s, kv))
                    continue
                v = fresh("sorted", "obj")
                s.trace.append(Event("call", "sorted", args, kwargs, v, lineno=getattr(node, "lineno", None)))
                s.ghost = dict(s.ghost)
                s.ghost["probe"] = (a, b, kv)
                outs.append((s, v))
            return outs

        I.specs[("fn", id(sorted))] = h

    def setup(self, I, st):
        self.value, self.reverse, self.cs = sym("value", "obj"), sym("reverse", "obj"), sym("case_sensitive", "bool")
        return [self.value, self.cs, self.by, self.reverse], {}

    def p_call(self, pre, out):
        if self.by not in ("key", "value"):
            return out.raised and out.value.cls is FilterArgumentError and not A.calls(out, "sorted")
        from collections import abc
        if out.raised:
            # only a value that is not a mapping is refused (TypeError), before anything is called on it
            if out.value.cls is TypeError and not A.calls(out, "sorted") and not A.calls(out, "method:items"):
                return z3.Not(isinst_fn(abc.Mapping)(self.value.t))
            return False
        e = one(A.calls(out, "sorted"))
        it = one(A.calls(out, "method:items"))
        if e is None or it is None or not self.only_calls(out, {"sorted", "method:items"}):
            return False
        if not (same(it.args[0], self.value) and len(it.args) == 1 and same(list(e.args), [it.result]) and set(e.kwargs) == {"key", "reverse"}
                and same(e.kwargs["reverse"], self.reverse) and out.value is e.result):
            return False
        a, b, kv = out.st.ghost["probe"]
        x = (a if self.by == "key" else b).t
        return z3.And(isinst_fn(abc.Mapping)(self.value.t), to_term(kv, "obj") == z3.If(self.cs.t, x, LOWER(x)))

    posts = [("sorted_items_with_stated_key_and_reverse", p_call), ("frame", RelVC.p_frame)]

    def want_case(self, w):
        return w["by"] == self.by or (self.by == "bogus" and w["by"] not in ("key", "value"))


class GroupTupleModel(tuple):
    """model of a jinja2.filters._GroupTuple(grouper, list) value"""


class GroupBy(RelVC):
    """sync_do_groupby / async do_groupby relative to `sorted` and `itertools.groupby`:
    groupby(sorted(value, key=K), K) with K = the attribute (default applied), lower-cased unless case sensitive; one
    (grouper, list(group)) per group in order; the grouper is the group key, or - case-insensitive - the real
    attribute value of the group's first item.  The number of groups is fixed per task (0..3); group sizes, items
    and keys are symbolic."""
    fnname = "groupby"
    kind = "bounded"

    def __init__(self, g, is_async):
        self.g, self.is_async = g, is_async
        self.fn = async_twin(F.do_groupby) if is_async else F.sync_do_groupby
        self.bound_text = f"exactly {g} groups returned by itertools.groupby (group sizes, items, keys symbolic; real source)"
        super().__init__(f"C22.{'async.do_groupby' if is_async else 'sync_do_groupby'}[groups={g}]")

    def configure(self, I):
        RelVC.configure(self, I)
        lib(I, sorted, "sorted")
        c = self

        def gb(I_, st, args, kwargs, node):
            groups = []
            items = []
            for j in range(c.g):
                key = fresh(f"group_key{j}", "obj")
                sq = A.sseq(st, f"group{j}", "obj")
                st.assume(sq.n >= 1)  # dependency: groups are non-empty
                it = st.alloc(HIter(sq, 0, tag="grouper"))
                groups.append((key, sq))
                items.append((key, it))
            st.ghost = dict(st.ghost)
            st.ghost["groups"] = tuple(groups)
            v = st.alloc(HList(items=items))
            st.trace.append(Event("call", "groupby", args, kwargs, v, lineno=getattr(node, "lineno", None)))
            return [(st, v)]

        I.specs[("fn", id(F.groupby))] = gb
        I.specs[("fn", id(F._GroupTuple))] = lambda I_, st, args, kwargs, node: [(st, GroupTupleModel(args))] if len(args) == 2 and not kwargs else [(st, tuple(args))]

    def setup(self, I, st):
        self.env, self.value, self.attribute = sym("environment", "obj"), sym("value", "obj"), sym("attribute", "obj")
        self.default, self.cs = sym("default", "obj"), sym("case_sensitive", "bool")
        return [self.env, self.value, self.attribute, self.default, self.cs], {}

    def p_calls(self, pre, out):
        if out.raised:
            return False
        so, gb = one(A.calls(out, "sorted")), one(A.calls(out, "groupby"))
        getters = A.calls(out, "make_attrgetter")
        if so is None or gb is None or not getters:
            return False
        expr = getters[0].result
        src = self.value
        if self.is_async:
            tl = [e for e in A.calls(out, "auto_to_list") if same(e.args[0], self.value)]
            if len(tl) != 1:
                return False
            src = tl[0].result
        if not (same(list(so.args), [src]) and set(so.kwargs) == {"key"} and so.kwargs["key"] is expr
                and same(list(gb.args), [so.result, expr]) and not gb.kwargs):
            return False
        return getter_ok(expr, self.env, self.attribute, self.cs, default=self.default)

    def p_groups(self, pre, out):
        if out.raised or not isinstance(out.value, Ref):
            return False
        st = out.st
        h = st.get(out.value)
        if not (isinstance(h, HList) and h.concrete and len(h.items) == self.g):
            return False
        getters = A.calls(out, "make_attrgetter")
        conj = []
        seen = set()
        for (key, sq), tup in zip(st.ghost["groups"], h.items):
            if not (type(tup) is GroupTupleModel and len(tup) == 2 and isinstance(tup[1], Ref) and tup[1].id in st.allocated and tup[1].id not in seen):
                return False
            seen.add(tup[1].id)
            conj.append(list_eq(st, tup[1], sq.arr, sq.n))
            if len(getters) == 2:
                outg = getters[1].result
                ok = getter_ok(outg, self.env, self.attribute, default=self.default, postprocess=None)
                if ok is not True:
                    return False
                shown = outg.fn(z3.Select(sq.arr, 0))
            elif len(getters) == 1:
                shown = None
            else:
                return False
            conj.append(z3.If(self.cs.t, to_term(tup[0], "obj") == key.t,
                              (to_term(tup[0], "obj") == shown) if shown is not None else z3.BoolVal(False)))
        return z3.And(*conj) if conj else True

    posts = [("raises_nothing", RelVC.p_total), ("groupby_of_sorted_with_stated_key", p_calls), ("groups_and_groupers", p_groups), ("frame", RelVC.p_frame)]

    def want_case(self, w):
        return (w.get("mode") != "sync") == self.is_async

    def run(self, tier, seed):
        rs = VC.run(self, tier, seed)
        for r in rs:
            r.kind = "bounded"
            if r.status == "discharged":
                r.status = "bounded-ok"
        return rs


# ---- min / max / sum / first / last / list / reverse / join ------------------------------------------------------

def install_chain(I):
    """itertools.chain([first], it): first, then the remaining items of the iterator `it` (dependency spec)"""
    def h(I_, st, args, kwargs, node):
        if len(args) == 2 and isinstance(args[0], Ref) and isinstance(args[1], Ref):
            h0, h1 = st.get(args[0]), st.get(args[1])
            if isinstance(h0, HList) and h0.concrete and len(h0.items) == 1 and isinstance(h1, HIter) and isinstance(h1.items, SSeq):
                src, cur = h1.items, to_term(h1.cursor, "int")
                arr = z3.Const(fresh_name("chain"), ArrObj)
                n = 1 + src.n - cur
                j = z3.Int(fresh_name("j"))
                st.assume(z3.Select(arr, 0) == to_term(h0.items[0], "obj"),
                          z3.ForAll([j], z3.Implies(z3.And(1 <= j, j < n), z3.Select(arr, j) == z3.Select(src.arr, cur + j - 1))))
                h1.cursor = Sym(src.n, "int")
                return [(st, st.alloc(HIter(SSeq(arr, n, "obj"), 0, tag="chain")))]
        raise Unsupported("itertools.chain in another shape", node)
    I.specs[("fn", id(F.chain))] = h


class MinOrMax(RelVC):
    """_min_or_max(environment, value, func, case_sensitive, attribute): empty -> environment.undefined(...);
    otherwise func(<all items of value, in order>, key=<attribute, lower-cased unless case sensitive>)"""
    fn = F._min_or_max
    fnname = "min"

    def configure(self, I):
        RelVC.configure(self, I)
        install_chain(I)

    def setup(self, I, st):
        self.env, self.func = sym("environment", "obj"), sym("func", "obj")
        self.value = A.alist(st, "value", "obj")
        hv = st.get(self.value)
        self.v, self.n = hv.arr, hv.n
        self.cs, self.attribute = sym("case_sensitive", "bool"), sym("attribute", "obj")
        return [self.env, self.value, self.func, self.cs, self.attribute], {}

    def p_result(self, pre, out):
        if out.raised:
            return False
        und, call = A.calls(out, "method:undefined"), A.calls(out, "call_obj")
        if und:
            return z3.And(self.n == 0, len(und) == 1 and not call and same(und[0].args[0], self.env) and out.value is und[0].result)
        e, g = one(call), one(A.calls(out, "make_attrgetter"))
        if e is None or g is None:
            return False
        if not (same(e.args[0], self.func) and len(e.args) == 2 and set(e.kwargs) == {"key"} and e.kwargs["key"] is g.result and out.value is e.result):
            return False
        it = out.st.get(e.args[1]) if isinstance(e.args[1], Ref) else None
        if not (isinstance(it, HIter) and isinstance(it.items, SSeq)):
            return False
        j = z3.Int(fresh_name("j"))
        return z3.And(self.n > 0, it.items.n == self.n, to_term(it.cursor, "int") == 0,
                      z3.ForAll([j], z3.Implies(z3.And(0 <= j, j < self.n), z3.Select(it.items.arr, j) == z3.Select(self.v, j))),
                      getter_ok(g.result, self.env, self.attribute, self.cs))

    posts = [("raises_nothing", RelVC.p_total), ("func_over_all_items_with_stated_key", p_result), ("frame", RelVC.p_frame)]

    def cases(self):
        for f in ("min", "max"):
            for w in N.ORACLES["minmax"].cases(3):
                if w["fn"] == f:
                    yield w


class MinMaxWrapper(RelVC):
    """do_min / do_max = _min_or_max(environment, value, min / max, case_sensitive, attribute)"""

    def __init__(self, which):
        self.which, self.fn, self.fnname = which, sync_filter(which), which
        super().__init__(f"C22.do_{which}")

    def configure(self, I):
        RelVC.configure(self, I)
        repo_abstract(I, "jinja2.filters:_min_or_max")

    def setup(self, I, st):
        self.args = [sym("environment", "obj"), sym("value", "obj"), sym("case_sensitive", "obj"), sym("attribute", "obj")]
        return list(self.args), {}

    def p_call(self, pre, out):
        e = one(A.calls(out, "_min_or_max"))
        a = self.args
        return (out.returned and e is not None and not e.kwargs and len(e.args) == 5 and same(e.args[0], a[0]) and same(e.args[1], a[1])
                and e.args[2] is {"min": min, "max": max}[self.which] and same(e.args[3], a[2]) and same(e.args[4], a[3]) and out.value is e.result)

    posts = [("delegates_to_min_or_max", p_call), ("frame", RelVC.p_frame)]


class Sum(RelVC):
    """sync_do_sum = sum(iterable, start), or sum(map(<attribute getter>, iterable), start) when an attribute is given"""
    fn = F.sync_do_sum
    fnname = "sum"

    def configure(self, I):
        RelVC.configure(self, I)
        lib(I, sum, "sum")
        lib(I, map, "map")

    def setup(self, I, st):
        self.env, self.iterable, self.attribute, self.start = sym("environment", "obj"), sym("iterable", "obj"), sym("attribute", "obj"), sym("start", "obj")
        return [self.env, self.iterable, self.attribute, self.start], {}

    def p_call(self, pre, out):
        if out.raised:
            return False
        e = one(A.calls(out, "sum"))
        if e is None or e.kwargs or len(e.args) != 2 or not same(e.args[1], self.start) or out.value is not e.result:
            return False
        m, g = A.calls(out, "map"), A.calls(out, "make_attrgetter")
        if not m:
            return z3.And(self.attribute.t == NONE, same(e.args[0], self.iterable) and not g)
        if len(m) != 1 or len(g) != 1 or m[0].kwargs or not (len(m[0].args) == 2 and m[0].args[0] is g[0].result and same(m[0].args[1], self.iterable)):
            return False
        ok = getter_ok(g[0].result, self.env, self.attribute, postprocess=None)
        return z3.And(self.attribute.t != NONE, ok and e.args[0] is m[0].result)

    posts = [("sum_of_items_or_attributes_from_start", p_call), ("frame", RelVC.p_frame)]

    def want_case(self, w):
        return w.get("mode") == "sync"


class First(RelVC):
    """first item, or environment.undefined(...) for an empty sequence (sync and async)"""
    fnname = "first"

    def __init__(self, is_async):
        self.is_async = is_async
        self.fn = async_twin(F.do_first) if is_async else F.sync_do_first
        super().__init__(f"C22.{'async.do_first' if is_async else 'sync_do_first'}")

    def setup(self, I, st):
        self.env = sym("environment", "obj")
        self.value = A.alist(st, "seq", "obj")
        hv = st.get(self.value)
        self.v, self.n = hv.arr, hv.n
        return [self.env, self.value], {}

    def which(self):
        return z3.Select(self.v, 0)

    def p_result(self, pre, out):
        if out.raised:
            return False
        und = A.calls(out, "method:undefined")
        if und:
            return z3.And(self.n == 0, len(und) == 1 and same(und[0].args[0], self.env) and out.value is und[0].result)
        return z3.And(self.n > 0, to_term(out.value, "obj") == self.which())

    posts = [("first_or_undefined", p_result), ("frame", RelVC.p_frame)]

    def want_case(self, w):
        return (w.get("mode") != "sync") == self.is_async


class Last(First):
    fnname = "last"

    def __init__(self):
        self.is_async = False
        self.fn = F.do_last
        RelVC.__init__(self, "C22.do_last")

    def configure(self, I):
        RelVC.configure(self, I)
        install_reversed(I)

    def which(self):
        return z3.Select(self.v, self.n - 1)

    def want_case(self, w):
        return True

    posts = [("last_or_undefined", First.p_result), ("frame", RelVC.p_frame)]


class ListF(RelVC):
    """sync_do_list(value) = list(value): a new list with the items of value in order"""
    fn = F.sync_do_list
    fnname = "list"

    def setup(self, I, st):
        self.value = A.alist(st, "value", "obj")
        hv = st.get(self.value)
        self.v, self.n = hv.arr, hv.n
        return [self.value], {}

    def p_result(self, pre, out):
        if out.raised or not isinstance(out.value, Ref) or out.value == self.value or out.value.id not in out.st.allocated:
            return False
        return list_eq(out.st, out.value, self.v, self.n)

    posts = [("new_list_same_items", p_result), ("frame", RelVC.p_frame)]


class Reverse(RelVC):
    """do_reverse: a string -> the reversed string; a list -> an iterator over it the other way round; an iterator
    (not reversible) -> the reversed list of its items; not iterable -> FilterArgumentError"""
    fn = sync_filter("reverse")
    fnname = "reverse"

    def __init__(self, what):
        self.what = what
        super().__init__(f"C22.do_reverse[{what}]")

    def configure(self, I):
        RelVC.configure(self, I)
        install_reversed(I)

    def setup(self, I, st):
        if self.what.startswith("str:"):
            self.value = self.what[4:]
            return [self.value], {}
        if self.what == "opaque":
            self.value = sym("value", "obj")
            st.assume(z3.Not(isinst_fn(str)(self.value.t)))  # not a string, not reversible, not iterable
            return [self.value], {}
        lst = A.alist(st, "value", "obj")
        hv = st.get(lst)
        self.v, self.n = hv.arr, hv.n
        self.value = lst if self.what == "list" else st.alloc(HIter(SSeq(hv.arr, hv.n, "obj"), 0, tag="generator"), initial=True)
        return [self.value], {}

    def p_result(self, pre, out):
        if self.what.startswith("str:"):
            return out.returned and out.value == "".join(reversed(self.value))
        if self.what == "opaque":
            return out.raised and out.value.cls is FilterArgumentError
        if out.raised or not isinstance(out.value, Ref):
            return False
        h = out.st.get(out.value)
        if self.what == "list":
            if not (isinstance(h, HIter) and isinstance(h.items, SSeq)):
                return False
            arr, n = h.items.arr, h.items.n
        else:
            if not (isinstance(h, HList) and out.value.id in out.st.allocated):
                return False
            arr, n = cur_list(out.st, out.value)
        j = z3.Int(fresh_name("j"))
        return z3.And(n == self.n, z3.ForAll([j], z3.Implies(z3.And(0 <= j, j < self.n), z3.Select(arr, j) == z3.Select(self.v, self.n - 1 - j))))

    posts = [("reversed", p_result), ("frame", RelVC.p_frame)]


class JoinPlain(RelVC):
    """sync_do_join without autoescape: str(d).join(map(str, X)), X = value or map(<attribute getter>, value)
    (the autoescape branches are covered by the bounded stand-in)"""
    fn = F.sync_do_join
    fnname = "join"

    def configure(self, I):
        RelVC.configure(self, I)
        lib(I, map, "map")
        I.specs["str.join"] = A.abstract_fn("str.join", returns="str")

    def setup(self, I, st):
        self.ctx, self.value, self.d, self.attribute = sym("eval_ctx", "obj"), sym("value", "obj"), sym("d", "obj"), sym("attribute", "obj")
        st.assume(z3.Not(TRUTHY(attr_fn("autoescape")(self.ctx.t))))
        return [self.ctx, self.value, self.d, self.attribute], {}

    def p_call(self, pre, out):
        if out.raised:
            return False
        j = one(A.calls(out, "str.join"))
        maps, g = A.calls(out, "map"), A.calls(out, "make_attrgetter")
        if j is None or not maps or j.kwargs or len(j.args) != 2 or out.value is not j.result:
            return False
        last = maps[-1]
        if not (j.args[1] is last.result and len(last.args) == 2 and last.args[0] is str and isinstance(j.args[0], Sym) and j.args[0].t.eq(M_.py_str_obj(self.d.t))):
            return False
        if len(maps) == 1:
            return z3.And(self.attribute.t == NONE, same(last.args[1], self.value) and not g)
        if len(maps) != 2 or len(g) != 1:
            return False
        first = maps[0]
        if not (last.args[1] is first.result and len(first.args) == 2 and first.args[0] is g[0].result and same(first.args[1], self.value)):
            return False
        envt = Sym(attr_fn("environment")(self.ctx.t), "obj")
        return z3.And(self.attribute.t != NONE, getter_ok(g[0].result, envt, self.attribute, postprocess=None))

    posts = [("raises_nothing", RelVC.p_total), ("python_join_of_strings", p_call), ("frame", RelVC.p_frame)]

    def want_case(self, w):
        return w.get("mode") == "sync"


HAS_HTML = z3.Function("has___html__", Obj, z3.BoolSort())


class JoinAuto(RelVC):
    """sync_do_join with autoescape on, for a list of exactly n items: when the separator has no __html__ the items
    without __html__ are converted with str() in a COPY of the list (the argument is not written), the separator is
    escape(d) iff some item has __html__ (else str(d)), and the result is separator.join(copy); when the separator
    has __html__: soft_str(d).join(map(soft_str, value))."""
    fn = F.sync_do_join
    fnname = "join"
    kind = "bounded"

    def __init__(self, n):
        self.n = n
        self.bound_text = f"value is a list of exactly {n} items (items, separator, their __html__ support symbolic; real source)"
        super().__init__(f"C22.sync_do_join[autoescape,items={n}]")

    def configure(self, I):
        RelVC.configure(self, I)
        install_enumerate(I)
        lib(I, map, "map")
        lib(I, F.escape, "escape")
        lib(I, F.soft_str, "soft_str")
        I.specs["str.join"] = A.abstract_fn("str.join", returns="str")
        base = I.specs["getattr_obj"]

        def getattr_obj(I_, st, args, kwargs, node):
            o, name = args
            if name == "__html__":
                out = []
                for s2, b in I_.fork_bool(st, HAS_HTML(o.t)):
                    out.append((s2, BoundMethod(o, name)) if b else (s2, Raised(Exc(AttributeError, ("__html__",), origin=getattr(node, "lineno", None)))))
                return out
            return base(I_, st, args, kwargs, node)

        I.specs["getattr_obj"] = getattr_obj

    def setup(self, I, st):
        self.ctx, self.d = sym("eval_ctx", "obj"), sym("d", "obj")
        st.assume(TRUTHY(attr_fn("autoescape")(self.ctx.t)))
        self.items = [sym(f"item{i}", "obj") for i in range(self.n)]
        self.value = st.alloc(HList(items=list(self.items)), initial=True)
        return [self.ctx, self.value, self.d, None], {}

    def p_result(self, pre, out):
        if out.raised:
            return False
        st = out.st
        any_html = z3.Or(*[HAS_HTML(x.t) for x in self.items]) if self.items else z3.BoolVal(False)
        soft = A.calls(out, "soft_str")
        if soft:
            j = one(A.calls(out, "method:join"))
            m = one(A.calls(out, "map"))
            ok = (j is not None and m is not None and len(soft) == 1 and same(list(soft[0].args), [self.d]) and same(j.args[0], soft[0].result)
                  and j.args[1] is m.result and m.args[0] is F.soft_str and same(m.args[1], self.value) and out.value is j.result)
            return z3.And(HAS_HTML(self.d.t), ok)
        j = one(A.calls(out, "method:join") + A.calls(out, "str.join"))
        if j is None or out.value is not j.result or not isinstance(j.args[1], Ref) or j.args[1] == self.value or j.args[1].id not in st.allocated:
            return False
        h = st.get(j.args[1])
        if not (isinstance(h, HList) and h.concrete and len(h.items) == self.n):
            return False
        conj = [z3.Not(HAS_HTML(self.d.t))]
        from pyvc.smt import str2obj
        for x, got in zip(self.items, h.items):
            conj.append(to_term(got, "obj") == z3.If(HAS_HTML(x.t), x.t, str2obj(M_.py_str_obj(x.t))))
        esc = A.calls(out, "escape")
        if j.name == "method:join":
            conj.append(any_html)
            conj.append(len(esc) == 1 and same(list(esc[0].args), [self.d]) and same(j.args[0], esc[0].result))
        else:
            conj.append(z3.Not(any_html))
            conj.append(not esc and isinstance(j.args[0], Sym) and j.args[0].t.eq(M_.py_str_obj(self.d.t)))
        return z3.And(*conj)

    def p_arg(self, pre, out):
        """the list passed in still holds the original items"""
        h = out.st.get(self.value)
        return frame_ok(out) and h.concrete and len(h.items) == self.n and all(a is b for a, b in zip(h.items, self.items))

    posts = [("raises_nothing", RelVC.p_total), ("escaped_join_of_a_copy", p_result), ("argument_list_unchanged", p_arg)]

    def want_case(self, w):
        return w.get("mode") == "sync" and w.get("autoescape")

    def run(self, tier, seed):
        rs = VC.run(self, tier, seed)
        for r in rs:
            r.kind = "bounded"
            if r.status == "discharged":
                r.status = "bounded-ok"
        return rs


# ---- map / select / reject -------------------------------------------------------------------------------

class MapGen(RelVC):
    """sync_do_map / async do_map: yields func(item) for every item in order, func = prepare_map(context, args, kwargs)"""
    fnname = "map"
    inv_labels = ("yields_so_far", "yield_values")

    def __init__(self, is_async):
        self.is_async = is_async
        self.fn = async_twin(F.do_map) if is_async else F.sync_do_map
        super().__init__(f"C22.{'async.do_map' if is_async else 'sync_do_map'}")

    def configure(self, I):
        RelVC.configure(self, I)
        install_yield_ghost(I, "items")
        install_auto_havoc(I)
        c = self
        c.key = z3.Function("prepared_func", Obj, Obj)

        def pm(I_, st, args, kwargs, node):
            g = Getter("prepare_map", {"args": list(args), "kwargs": kwargs}, c.key)
            I_._getters.append(g)
            st.trace.append(Event("call", "prepare_map", args, kwargs, g, lineno=getattr(node, "lineno", None)))
            I_.specs[("fn", id(g))] = lambda I2, s, a, kw, n, g=g: [(s, Sym(g.fn(to_term(a[0], "obj")), "obj"))]
            return [(st, g)]

        I.specs["jinja2.filters:prepare_map"] = pm

        def inv(ctx):
            y = ctx.st.ghost["Y"]
            i = z3.Int(fresh_name("i"))
            return [y.n == ctx.k,
                    z3.ForAll([i], z3.Implies(z3.And(0 <= i, i < ctx.k), z3.Select(y.items, i) == c.key(z3.Select(c.v, i))))]

        I.loops[(self.fn.__qualname__, 0)] = LoopSpec(inv, havoc=gen_havoc("items"), name="map_loop")

    def setup(self, I, st):
        self.ctx = sym("context", "obj")
        self.value = A.alist(st, "value", "obj")
        hv = st.get(self.value)
        self.v, self.n = hv.arr, hv.n
        self.args = (sym("arg0", "obj"), sym("arg1", "obj"))
        self.kwargs = st.alloc(HDict(items={"kw": sym("kw", "obj")}))
        st.ghost["Y"] = Y.empty("items")
        return "locals", {"context": self.ctx, "value": self.value, "args": self.args, "kwargs": self.kwargs}

    def p_yields(self, pre, out):
        if out.raised:
            return False
        y = out.st.ghost["Y"]
        i = z3.Int(fresh_name("i"))
        return z3.And(y.n == self.n, z3.ForAll([i], z3.Implies(z3.And(0 <= i, i < self.n), z3.Select(y.items, i) == self.key(z3.Select(self.v, i)))))

    def p_prepared(self, pre, out):
        if out.raised:
            return False
        pm = A.calls(out, "prepare_map")
        if not pm:
            return self.n == 0
        return len(pm) == 1 and same(list(pm[0].args), [self.ctx, self.args, self.kwargs]) and not pm[0].kwargs

    posts = [("yields_func_of_each_item_in_order", p_yields), ("func_from_prepare_map", p_prepared), ("frame", RelVC.p_frame)]

    def want_case(self, w):
        return (w.get("mode") != "sync") == self.is_async


class SelectGen(RelVC):
    """select_or_reject / async_select_or_reject: yields exactly the items with a true func(item), in order,
    func = prepare_select_or_reject(context, args, kwargs, modfunc, lookup_attr).  rank(i) = number of selected
    items among 0..i-1 (definition by recursion)."""
    fnname = "select"
    inv_labels = ("yield_count", "yields_are_the_selected_items")

    def __init__(self, is_async):
        self.is_async = is_async
        self.fn = F.async_select_or_reject if is_async else F.select_or_reject
        super().__init__(f"C22.{'async_select_or_reject' if is_async else 'select_or_reject'}")

    def T(self, i):
        return TRUTHY(self.key(z3.Select(self.v, i)))

    def configure(self, I):
        RelVC.configure(self, I)
        install_yield_ghost(I, "items")
        install_auto_havoc(I)
        c = self
        c.key = z3.Function("prepared_test", Obj, Obj)

        def ps(I_, st, args, kwargs, node):
            g = Getter("prepare_select_or_reject", {"args": list(args), "kwargs": kwargs}, c.key)
            I_._getters.append(g)
            st.trace.append(Event("call", "prepare_select_or_reject", args, kwargs, g, lineno=getattr(node, "lineno", None)))
            I_.specs[("fn", id(g))] = lambda I2, s, a, kw, n, g=g: [(s, Sym(g.fn(to_term(a[0], "obj")), "obj"))]
            return [(st, g)]

        I.specs["jinja2.filters:prepare_select_or_reject"] = ps

        def inv(ctx):
            y, k = ctx.st.ghost["Y"], ctx.k
            i = z3.Int(fresh_name("i"))
            return [z3.And(y.n == c.rank(k), y.n >= 0),
                    z3.ForAll([i], z3.Implies(z3.And(0 <= i, i < k, c.T(i)),
                                              z3.And(0 <= c.rank(i), c.rank(i) < y.n, z3.Select(y.items, c.rank(i)) == z3.Select(c.v, i))))]

        I.loops[(self.fn.__qualname__, 0)] = LoopSpec(inv, havoc=gen_havoc("items"), name="select_loop")

    def setup(self, I, st):
        self.ctx = sym("context", "obj")
        self.value = A.alist(st, "value", "obj")
        hv = st.get(self.value)
        self.v, self.n = hv.arr, hv.n
        self.args, self.kwargs = (sym("arg0", "obj"),), st.alloc(HDict(items={}), initial=True)
        self.modfunc, self.lookup_attr = sym("modfunc", "obj"), sym("lookup_attr", "bool")
        self.rank = z3.Function("rank_selected", I_, I_)
        i = z3.Int("ri")
        st.assume(self.rank(0) == 0, z3.ForAll([i], z3.Implies(z3.And(0 <= i, i < self.n), self.rank(i + 1) == self.rank(i) + z3.If(self.T(i), 1, 0))))
        st.ghost["Y"] = Y.empty("items")
        return [self.ctx, self.value, self.args, self.kwargs, self.modfunc, self.lookup_attr], {}

    def p_yields(self, pre, out):
        if out.raised:
            return False
        y = out.st.ghost["Y"]
        i = z3.Int(fresh_name("i"))
        return z3.And(y.n == self.rank(self.n),
                      z3.ForAll([i], z3.Implies(z3.And(0 <= i, i < self.n, self.T(i)),
                                                z3.And(0 <= self.rank(i), self.rank(i) < y.n, z3.Select(y.items, self.rank(i)) == z3.Select(self.v, i)))))

    def p_prepared(self, pre, out):
        if out.raised:
            return False
        ps = A.calls(out, "prepare_select_or_reject")
        if not ps:
            return self.n == 0
        return len(ps) == 1 and same(list(ps[0].args), [self.ctx, self.args, self.kwargs, self.modfunc, self.lookup_attr]) and not ps[0].kwargs

    posts = [("yields_the_selected_items_in_order", p_yields), ("test_from_prepare_select_or_reject", p_prepared), ("frame", RelVC.p_frame)]

    def cases(self):
        for w in N.ORACLES["mapselect"].cases(3):
            if w["fn"] in ("select", "reject", "selectattr", "rejectattr") and (w.get("mode") != "sync") == self.is_async:
                yield w


AWAIT = z3.Function("awaited", Obj, Obj)      # the value `await auto_await(x)` produces: x itself unless x is awaitable
TESTFN = z3.Function("environment.call_test", Obj, Obj)  # result of the named test on a subject (name, arguments fixed)


class AsyncSelect(RelVC):
    """async_select_or_reject with the REAL prepare_select_or_reject inlined (their composition is what decides): an
    item is yielded iff  modfunc(await test(subject))  is true, where subject = item or its attribute args[0]
    (lookup_attr) and test = bool, or environment.call_test(name, subject, ...) when a test name is given.  In an async
    environment a test may be a coroutine function (the compiler awaits `x is test`), so its result is awaited before
    modfunc / the truth value looks at it.  Yields = the selected items in order (rank = number selected so far)."""
    fnname = "select"
    fn = F.async_select_or_reject
    inv_labels = ("yields_are_the_selected_items",)

    def __init__(self, lookup_attr, nargs):
        self.lookup_attr, self.nargs = lookup_attr, nargs
        super().__init__(f"C22.async_select_or_reject[lookup_attr={lookup_attr},args={nargs}]")

    def subject(self, x):
        return self.key(x) if self.lookup_attr else x

    def tested(self, x):
        from pyvc.smt import bool2obj
        off = 1 if self.lookup_attr else 0
        return TESTFN(self.subject(x)) if self.nargs > off else bool2obj(TRUTHY(self.subject(x)))

    def T(self, i):
        return TRUTHY(APPLY(self.modfunc.t, AWAIT(self.tested(z3.Select(self.v, i)))))

    def configure(self, I):
        RelVC.configure(self, I)
        install_yield_ghost(I, "items")
        install_auto_havoc(I)
        c = self
        c.key = z3.Function("attribute_of", Obj, Obj)
        install_getters(I, key_fn=c.key)
        I.inline.add("jinja2.filters:prepare_select_or_reject")
        I.specs["jinja2.async_utils:auto_await"] = lambda I_, st, args, kwargs, node: [(st, Sym(AWAIT(to_term(args[0], "obj")), "obj"))]
        base = I.specs["method_obj"]

        def method_obj(I_, st, args, kwargs, node):
            if args[1] == "call_test" and len(args) >= 4:
                v = Sym(TESTFN(to_term(args[3], "obj")), "obj")
                st.trace.append(Event("call", "method:call_test", [args[0]] + list(args[2:]), kwargs, v, lineno=getattr(node, "lineno", None)))
                return [(st, v)]
            return base(I_, st, args, kwargs, node)

        I.specs["method_obj"] = method_obj

        def inv(ctx):
            y, k = ctx.st.ghost["Y"], ctx.k
            i = z3.Int(fresh_name("i"))
            return [z3.And(y.n == c.rank(k), y.n >= 0,
                           z3.ForAll([i], z3.Implies(z3.And(0 <= i, i < k, c.T(i)),
                                                     z3.And(0 <= c.rank(i), c.rank(i) < y.n, z3.Select(y.items, c.rank(i)) == z3.Select(c.v, i)))))]

        I.loops[(self.fn.__qualname__, 0)] = LoopSpec(inv, havoc=gen_havoc("items"), name="select_loop")

    def setup(self, I, st):
        from pyvc.smt import bool2obj
        self.ctx, self.modfunc = sym("context", "obj"), sym("modfunc", "obj")
        self.value = A.alist(st, "value", "obj")
        hv = st.get(self.value)
        self.v, self.n = hv.arr, hv.n
        self.args = tuple(sym(f"a{i}", "obj") for i in range(self.nargs))
        self.kwargs = st.alloc(HDict(items={}), initial=True)
        # a bool is not awaitable
        st.assume(AWAIT(bool2obj(z3.BoolVal(True))) == bool2obj(z3.BoolVal(True)), AWAIT(bool2obj(z3.BoolVal(False))) == bool2obj(z3.BoolVal(False)))
        self.rank = z3.Function("rank_selected", I_, I_)
        i = z3.Int("ri")
        st.assume(self.rank(0) == 0, z3.ForAll([i], z3.Implies(z3.And(0 <= i, i < self.n), self.rank(i + 1) == self.rank(i) + z3.If(self.T(i), 1, 0))))
        st.ghost["Y"] = Y.empty("items")
        return [self.ctx, self.value, self.args, self.kwargs, self.modfunc, self.lookup_attr], {}

    def p_yields(self, pre, out):
        if out.raised:
            return False
        y = out.st.ghost["Y"]
        i = z3.Int(fresh_name("i"))
        return z3.And(y.n == self.rank(self.n),
                      z3.ForAll([i], z3.Implies(z3.And(0 <= i, i < self.n, self.T(i)),
                                                z3.And(0 <= self.rank(i), self.rank(i) < y.n, z3.Select(y.items, self.rank(i)) == z3.Select(self.v, i)))))

    posts = [("yields_the_selected_items_in_order", p_yields), ("frame", RelVC.p_frame)]

    def witness(self):
        off = 1 if self.lookup_attr else 0
        test = ["big"] + ([1] if self.nargs > off + 1 else []) if self.nargs > off else []
        if self.lookup_attr:
            return {"fn": "selectattr", "vals": [2, 0], "args": ["k"] + test, "kwargs": {}, "dicts": True, "mode": "async"}
        return {"fn": "select", "vals": [2, 0], "args": test, "kwargs": {}, "mode": "async"}

    def concretize(self, model, pre, out):
        return self.witness()

    def cases(self):
        yield self.witness()
        for w in N.ORACLES["mapselect"].cases(3):
            if w["fn"] in ("select", "reject", "selectattr", "rejectattr") and w.get("mode") != "sync":
                yield w


class SelectWrapper(RelVC):
    """sync_do_select / reject / selectattr / rejectattr and their async twins:
    select_or_reject(context, value, args, kwargs, modfunc, lookup_attr) with modfunc = identity (select*) or `not`
    (reject*), lookup_attr = True for the *attr filters"""

    def __init__(self, which, is_async):
        self.which, self.is_async, self.fnname = which, is_async, which
        w = getattr(F, "do_" + which)
        self.fn = async_twin(w) if is_async else getattr(F, "sync_do_" + which)
        super().__init__(f"C22.{'async.do_' if is_async else 'sync_do_'}{which}")

    def configure(self, I):
        RelVC.configure(self, I)
        repo_abstract(I, "jinja2.filters:select_or_reject")
        repo_abstract(I, "jinja2.filters:async_select_or_reject")

    def setup(self, I, st):
        self.ctx, self.value = sym("context", "obj"), sym("value", "obj")
        self.args = (sym("arg0", "obj"), sym("arg1", "obj"))
        self.kwargs = st.alloc(HDict(items={"kw": sym("kw", "obj")}))
        return "locals", {"context": self.ctx, "value": self.value, "args": self.args, "kwargs": self.kwargs}

    def p_call(self, pre, out):
        if out.raised:
            return False
        e = one(A.calls(out, "async_select_or_reject" if self.is_async else "select_or_reject"))
        if e is None or e.kwargs or len(e.args) != 6 or out.value is not e.result or not self.only_calls(out, {e.name}):
            return False
        if not (same(list(e.args[:4]), [self.ctx, self.value, self.args, self.kwargs]) and e.args[5] is self.which.endswith("attr")):
            return False
        p = sym("probe", "obj")
        rs = self.I.call(out.st.fork(), e.args[4], [p], {})
        if len(rs) != 1 or isinstance(rs[0][1], Raised):
            return False
        r = rs[0][1]
        if self.which.startswith("select"):
            return r is p
        return isinstance(r, Sym) and r.k == "bool" and z3.simplify(r.t).eq(z3.simplify(z3.Not(TRUTHY(p.t))))

    posts = [("delegates_with_stated_modfunc_and_lookup", p_call), ("frame", RelVC.p_frame)]

    def want_case(self, w):
        return (w.get("mode") != "sync") == self.is_async


class PrepareMap(ThenCall, RelVC):
    """prepare_map(context, args, kwargs): attribute= (and default=) -> attribute getter of context.environment;
    a filter name and its arguments -> item -> environment.call_filter(name, item, args, kwargs, context=context);
    anything else -> FilterArgumentError"""
    fn = F.prepare_map
    fnname = "map"
    SHAPES = ("attribute", "attribute_default", "attribute_extra", "nothing", "filter")

    def __init__(self, shape):
        self.shape = shape
        super().__init__(f"C22.prepare_map[{shape}]")

    def setup(self, I, st):
        self.ctx = sym("context", "obj")
        self.a, self.d, self.x = sym("attribute", "obj"), sym("default", "obj"), sym("x", "obj")
        kw = {"attribute": {"attribute": self.a}, "attribute_default": {"attribute": self.a, "default": self.d},
              "attribute_extra": {"attribute": self.a, "bogus": self.x}, "nothing": {}, "filter": {"k": self.x}}[self.shape]
        self.args = (sym("name", "obj"), sym("a1", "obj"), sym("a2", "obj")) if self.shape == "filter" else ()
        self.kwargs = st.alloc(HDict(items=dict(kw)))
        return [self.ctx, self.args, self.kwargs], {}

    def p_result(self, pre, out):
        envt = Sym(attr_fn("environment")(self.ctx.t), "obj")
        if self.shape in ("attribute_extra", "nothing"):
            return out.raised and out.value.cls is FilterArgumentError
        if out.raised:
            return False
        if self.shape in ("attribute", "attribute_default"):
            g = one(A.calls(out, "make_attrgetter"))
            if g is None or self.made is not g.result:
                return False
            ok = getter_ok(g.result, envt, self.a, postprocess=None, default=(self.d if self.shape == "attribute_default" else None))
            return ok and to_term(out.value, "obj").eq(g.result.fn(self.item.t))
        e = one(A.calls(out, "method:call_filter"))
        if e is None or out.value is not e.result or len(e.args) != 5 or set(e.kwargs) != {"context"}:
            return False
        kw = out.st.get(e.args[4]) if isinstance(e.args[4], Ref) else None
        return (same(e.args[0], envt) and same(e.args[1], self.args[0]) and same(e.args[2], self.item) and same(e.args[3], self.args[1:])
                and isinstance(kw, HDict) and kw.concrete and list(kw.items) == ["k"] and same(kw.items["k"], self.x) and same(e.kwargs["context"], self.ctx))

    posts = [("prepared_function", p_result)]


class PrepareSelect(ThenCall, RelVC):
    """prepare_select_or_reject(context, args, kwargs, modfunc, lookup_attr)(item) =
    modfunc(test(subject)), subject = item or (lookup_attr) the attribute args[0] of item; test = bool when no test
    name is given, else environment.call_test(name, subject, rest, kwargs, context)"""
    fn = F.prepare_select_or_reject
    fnname = "select"

    def __init__(self, lookup_attr, nargs):
        self.lookup_attr, self.nargs = lookup_attr, nargs
        super().__init__(f"C22.prepare_select_or_reject[lookup_attr={lookup_attr},args={nargs}]")

    def setup(self, I, st):
        self.ctx, self.modfunc = sym("context", "obj"), sym("modfunc", "obj")
        self.args = tuple(sym(f"a{i}", "obj") for i in range(self.nargs))
        self.kwargs = st.alloc(HDict(items={"k": sym("kwv", "obj")}))
        return [self.ctx, self.args, self.kwargs, self.modfunc, self.lookup_attr], {}

    def p_result(self, pre, out):
        envt = Sym(attr_fn("environment")(self.ctx.t), "obj")
        off = 1 if self.lookup_attr else 0
        if self.lookup_attr and self.nargs == 0:
            return out.raised and out.value.cls is FilterArgumentError
        if out.raised:
            return False
        subject = self.item.t
        if self.lookup_attr:
            g = one(A.calls(out, "make_attrgetter"))
            if g is None or getter_ok(g.result, envt, self.args[0], postprocess=None) is not True:
                return False
            subject = g.result.fn(self.item.t)
        elif A.calls(out, "make_attrgetter"):
            return False
        tests = A.calls(out, "method:call_test")
        if self.nargs > off:
            e = one(tests)
            if e is None or e.kwargs or len(e.args) != 6:
                return False
            if not (same(e.args[0], envt) and same(e.args[1], self.args[off]) and to_term(e.args[2], "obj").eq(subject)
                    and same(e.args[3], self.args[off + 1:]) and same(e.args[4], self.kwargs) and same(e.args[5], self.ctx)):
                return False
            tested = to_term(e.result, "obj")
        else:
            if tests:
                return False
            from pyvc.smt import bool2obj
            tested = bool2obj(TRUTHY(subject))
        return to_term(out.value, "obj") == APPLY(self.modfunc.t, tested)

    posts = [("prepared_test", p_result)]


# ---- async twins that delegate to the sync filter ------------------------------------------------------------------

class AsyncDelegate(RelVC):
    """async do_slice / do_unique / do_join / do_list: the sync filter applied to auto_to_list(value) with the other
    arguments unchanged (do_list: auto_to_list(value) itself); nothing is written"""
    TABLE = {
        "slice": ("sync_do_slice", ["value", "slices", "fill_with"], 0),
        "unique": ("sync_do_unique", ["environment", "value", "case_sensitive", "attribute"], 1),
        "join": ("sync_do_join", ["eval_ctx", "value", "d", "attribute"], 1),
        "list": (None, ["value"], 0),
    }

    TABLE2 = {   # filters that get an async variant by the proposed repair (present only when FILTERS[name] is a variant)
        "sort": ["environment", "value", "reverse", "case_sensitive", "attribute"],
        "min": ["environment", "value", "case_sensitive", "attribute"],
        "max": ["environment", "value", "case_sensitive", "attribute"],
        "batch": ["value", "linecount", "fill_with"],
        "reverse": ["value"],
    }

    def __init__(self, which):
        self.which, self.fnname = which, which
        if which in self.TABLE2:
            params = self.TABLE2[which]
            self.TABLE = dict(self.TABLE)
            self.TABLE[which] = (sync_filter(which).__qualname__, params, params.index("value"))
            self.fn = async_twin(F.FILTERS[which])
        else:
            self.fn = async_twin(getattr(F, "do_" + which))
        super().__init__(f"C22.async.do_{which}")

    def configure(self, I):
        RelVC.configure(self, I)
        sync = self.TABLE[self.which][0]
        if sync:
            repo_abstract(I, f"jinja2.filters:{sync}")

    def setup(self, I, st):
        sync, params, self.vpos = self.TABLE[self.which]
        self.params = [sym(p, "obj") for p in params]
        return list(self.params), {}

    def p_call(self, pre, out):
        if out.raised:
            return False
        sync = self.TABLE[self.which][0]
        tl = one(A.calls(out, "auto_to_list"))
        if tl is None or not same(list(tl.args), [self.params[self.vpos]]):
            return False
        if sync is None:
            return out.value is tl.result and self.only_calls(out, {"auto_to_list"})
        e = one(A.calls(out, sync))
        want = list(self.params)
        want[self.vpos] = tl.result
        return e is not None and not e.kwargs and same(list(e.args), want) and out.value is e.result and self.only_calls(out, {"auto_to_list", sync})

    posts = [("same_as_sync_filter_on_the_collected_list", p_call), ("frame", RelVC.p_frame)]

    def want_case(self, w):
        return w.get("mode") != "sync"


class Dispatch(RelVC):
    """The @async_variant wrapper registered in FILTERS: in an async environment (is_async of the environment reached
    through the first argument) it calls the async twin, otherwise the sync filter, with the same arguments; when the
    sync filter takes no environment/eval-context/context argument the leading eval context is dropped."""

    def __init__(self, which):
        self.which, self.fnname = which, which
        self.fn = F.FILTERS[which]
        self.sync = self.fn.__wrapped__
        self.twin = async_twin(self.fn)
        super().__init__(f"C22.async_variant.dispatch[{which}]")

    def closure(self, I):
        from pyvc import extract
        node, module = extract.nested_function_ast("jinja2.async_utils:async_variant", "wrapper")
        c = Closure(node, module, [], "async_variant.<locals>.decorator.<locals>.wrapper")
        c.live = self.fn  # free variables (is_async, need_eval_context, async_func, normal_func) from the live cells
        return c

    def configure(self, I):
        RelVC.configure(self, I)
        DATA_ATTRS.add("is_async")
        I.inline.add("jinja2.async_utils:async_variant.<locals>.decorator.<locals>.is_async")
        I.specs[("fn", id(self.sync))] = A.abstract_fn("sync_filter")
        I.specs[("fn", id(self.twin))] = A.abstract_fn("async_filter")
        I.specs[f"jinja2.filters:{self.sync.__qualname__}"] = A.abstract_fn("sync_filter")
        I.specs[f"jinja2.filters:{self.twin.__qualname__}"] = A.abstract_fn("async_filter")

    def setup(self, I, st):
        from jinja2.utils import _PassArg
        self.pass_arg = _PassArg.from_obj(self.sync)
        self.args = tuple(sym(f"a{i}", "obj") for i in range(3))
        self.kwargs = st.alloc(HDict(items={"kw": sym("kw", "obj")}))
        local = {"args": self.args, "kwargs": self.kwargs}
        for nm, cell in zip(self.fn.__code__.co_freevars, self.fn.__closure__):
            local[nm] = cell.cell_contents  # the wrapper's free variables: the live closure cells
        return "locals", local

    def p_dispatch(self, pre, out):
        from jinja2.utils import _PassArg
        if out.raised:
            return False
        s_, a_ = A.calls(out, "sync_filter"), A.calls(out, "async_filter")
        e = one(s_ + a_)
        if e is None or out.value is not e.result:
            return False
        want = self.args[1:] if self.pass_arg is None else self.args
        if not (same(tuple(e.args), want) and list(e.kwargs) == ["kw"] and same(e.kwargs["kw"], out.st.get(self.kwargs).items["kw"])):
            return False
        first = self.args[0].t
        holder = first if self.pass_arg is _PassArg.environment else attr_fn("environment")(first)
        is_async = TRUTHY(attr_fn("is_async")(holder))
        return is_async if a_ else z3.Not(is_async)

    posts = [("async_twin_iff_async_environment", p_dispatch), ("frame", RelVC.p_frame)]


class AsyncSum(RelVC):
    """async do_sum returns builtins.sum of the collected items / attribute values and `start` (the Python definition of
    the filter, and what the sync filter returns); no argument is modified in place.  If the twin has a loop of its own,
    the loop invariants (partial `+` fold, no in-place update of `start`) are proved as well."""
    fnname = "sum"
    inv_labels = ("partial_sum", "no_inplace_update_of_an_argument")

    def __init__(self, with_attr):
        self.with_attr = with_attr
        self.fn = async_twin(F.do_sum)
        super().__init__(f"C22.async.do_sum[{'attribute' if with_attr else 'items'}]")

    def f(self, x):
        return self.key(x) if self.with_attr else x

    def configure(self, I):
        RelVC.configure(self, I)
        install_auto_havoc(I)
        c = self
        c.key = z3.Function("attr_of", Obj, Obj)
        install_getters(I, key_fn=c.key)
        repo_abstract(I, "jinja2.filters:sync_do_sum")
        lib(I, sum, "sum")
        lib(I, map, "map")

        def iadd(I_, st, args, kwargs, node):
            cur, rhs = args
            if isinstance(cur, Sym) and cur.k == "obj" and not isinstance(rhs, (Ref, tuple, SSeq)):
                # `a += b`: the value of a + b; performed in place when type(a) defines __iadd__ (dependency: data model)
                st.trace.append(Event("write", "iadd", [cur, rhs], lineno=getattr(node, "lineno", None)))
                return [(st, Sym(ADD(cur.t, to_term(rhs, "obj")), "obj"))]
            return None

        def add(I_, st, args, kwargs, node):
            a, b = args
            return [(st, Sym(ADD(to_term(a, "obj"), to_term(b, "obj")), "obj"))]

        I.specs[("augassign", ast.Add)] = iadd
        I.specs[("binop", ast.Add)] = add

        def inv(ctx):
            rv = one(carried(ctx, "obj", 1))
            conj = []
            for e in ctx.st.trace:
                if e.kind == "write" and e.name == "iadd":
                    conj.append(z3.Not(z3.And(e.args[0].t == c.start.t, HAS_IADD(c.start.t))))
            return [to_term(rv, "obj") == c.fold(ctx.k), z3.And(*conj) if conj else True]

        I.loops[(self.fn.__qualname__, 0)] = LoopSpec(inv, havoc=gen_havoc(None), name="sum_loop")

    def setup(self, I, st):
        self.env, self.start = sym("environment", "obj"), sym("start", "obj")
        self.iterable = A.alist(st, "iterable", "obj")
        hv = st.get(self.iterable)
        self.v, self.n = hv.arr, hv.n
        self.attribute = sym("attribute", "obj") if self.with_attr else None
        if self.with_attr:
            st.assume(self.attribute.t != NONE)
        self.arguments = [self.start, self.env] + ([self.attribute] if self.with_attr else [])
        self.fold = z3.Function("partial_sum", I_, Obj)
        i = z3.Int("fi")
        x, y = z3.Consts("ax ay", Obj)
        # dependency (data model): for a type with in-place addition, a + b is a new object, never the `start` argument
        st.assume(z3.ForAll([x, y], z3.Implies(HAS_IADD(self.start.t), ADD(x, y) != self.start.t)))
        st.assume(self.fold(0) == self.start.t,
                  z3.ForAll([i], z3.Implies(z3.And(0 <= i, i < self.n), self.fold(i + 1) == ADD(self.fold(i), self.f(z3.Select(self.v, i))))))
        return [self.env, self.iterable, self.attribute, self.start], {}

    def p_result(self, pre, out):
        """The sum filter is Python's sum(): the async twin returns what builtins.sum returns for the collected items (or
        their attribute values) and `start` - by delegating to the sync filter (own contract: sum(iterable, start) /
        sum(map(getter, iterable), start)) or by calling sum itself.  A hand-written `+` fold is not sum(): sum() uses
        compensated float summation (3.12) and refuses str start values."""
        if out.raised:
            return False
        tl = [e for e in A.calls(out, "auto_to_list") if same(list(e.args), [self.iterable])]
        if len(tl) != 1:
            return False
        items = tl[0].result
        d = one(A.calls(out, "sync_do_sum"))
        if d is not None:
            return (not d.kwargs and same(list(d.args), [self.env, items, self.attribute, self.start]) and out.value is d.result
                    and self.only_calls(out, {"auto_to_list", "sync_do_sum"}))
        e = one(A.calls(out, "sum"))
        if e is None or e.kwargs or len(e.args) != 2 or not same(e.args[1], self.start) or out.value is not e.result:
            return False
        if not self.with_attr:
            return same(e.args[0], items) and not A.calls(out, "map")
        m, g = one(A.calls(out, "map")), one(A.calls(out, "make_attrgetter"))
        return (m is not None and g is not None and e.args[0] is m.result and len(m.args) == 2 and m.args[0] is g.result and same(m.args[1], items)
                and getter_ok(g.result, self.env, self.attribute, postprocess=None) is True)

    posts = [("same_as_builtin_sum_of_the_collected_items", p_result), ("frame", RelVC.p_frame)]

    def concretize(self, model, pre, out):
        n = max(1, min(3, model_value(model, self.n)))
        mutable = model_value(model, HAS_IADD(self.start.t)) is True
        if mutable:
            return {"fn": "sum", "vals": [[1]] * n, "start": [9], "shape": "lists", "mode": "async"}
        return {"fn": "sum", "vals": [0.1] * 10, "start": 0, "shape": "attr" if self.with_attr else "plain", "mode": "async"}

    def want_case(self, w):
        return w.get("mode") != "sync" and (w["shape"] == "lists" or (w["shape"] == "attr") == self.with_attr)

    def cases(self):
        yield {"fn": "sum", "vals": [0.1] * 10, "start": 0, "shape": "attr" if self.with_attr else "plain", "mode": "async"}
        yield from RelVC.cases(self)


# ======================================================================================
# tables and bounded stand-ins
# ======================================================================================

def table_registry(task, tier, seed):
    """FILTERS maps the documented names to the functions under contract; every async twin is registered through
    async_variant with its sync function; length / count are the builtin len."""
    rs = []
    want = {"batch": F.do_batch, "slice": F.do_slice, "unique": F.do_unique, "groupby": F.do_groupby, "sort": F.do_sort, "dictsort": F.do_dictsort,
            "min": F.do_min, "max": F.do_max, "sum": F.do_sum, "first": F.do_first, "last": F.do_last, "join": F.do_join, "list": F.do_list,
            "reverse": F.do_reverse, "map": F.do_map, "select": F.do_select, "reject": F.do_reject, "selectattr": F.do_selectattr,
            "rejectattr": F.do_rejectattr, "length": len, "count": len}
    for name, fn in sorted(want.items()):
        got = F.FILTERS.get(name)
        # the documented function itself, or an @async_variant wrapper of it
        ok = got is fn or (getattr(got, "jinja_async_variant", False) is True and getattr(got, "__wrapped__", None) is fn)
        rs.append(Res(f"C22.FILTERS[{name}]", "discharged" if ok else "refuted", "table", 0, "" if ok else f"FILTERS[{name!r}] is {F.FILTERS.get(name)!r}", "table",
                      {"fn": "table", "name": name}))
    twins = {"slice": F.sync_do_slice, "unique": F.sync_do_unique, "groupby": F.sync_do_groupby, "sum": F.sync_do_sum, "first": F.sync_do_first,
             "join": F.sync_do_join, "list": F.sync_do_list, "map": F.sync_do_map, "select": F.sync_do_select, "reject": F.sync_do_reject,
             "selectattr": F.sync_do_selectattr, "rejectattr": F.sync_do_rejectattr}
    for name, sync in sorted(twins.items()):
        w = getattr(F, "do_" + name)
        cells = [c.cell_contents for c in (w.__closure__ or ())]
        ok = getattr(w, "jinja_async_variant", False) is True and any(c is sync for c in cells) and w.__wrapped__ is sync
        try:
            ok = ok and async_twin(w).__name__ == "do_" + name
        except LookupError:
            ok = False
        rs.append(Res(f"C22.async_variant[{name}]", "discharged" if ok else "refuted", "table", 0, "" if ok else f"do_{name} is not async_variant(sync_do_{name})", "table",
                      {"fn": "table", "name": name}))
    # every filter that iterates its input accepts what the async environment produces (select / map / ... return async
    # generators there): it is registered as an @async_variant (do_last is documented as not safe in async mode)
    for name in ("sort", "min", "max", "batch", "reverse"):
        ok = has_async_variant(name)
        wit = {"sort": {"fn": "sort", "letters": ["b", "a"], "cs": False, "reverse": False, "shape": "str", "mode": "async-gen"},
               "min": {"fn": "min", "letters": ["b", "a"], "cs": False, "shape": "str", "mode": "async-gen"},
               "max": {"fn": "max", "letters": ["b", "a"], "cs": False, "shape": "str", "mode": "async-gen"},
               "batch": {"fn": "batch", "n": 3, "linecount": 2, "fill": None, "mode": "async-gen"},
               "reverse": {"fn": "reverse", "letters": ["a", "b"], "as": "list", "mode": "async-gen"}}[name]
        rs.append(Res(f"C22.async_variant[{name}]", "discharged" if ok else "refuted", "table", 0,
                      "" if ok else f"FILTERS[{name!r}] has no async variant: an async iterable (e.g. the result of select / map in an async environment) is rejected", "table", wit))
    return rs


def replay_table(w):
    if w.get("fn") in N.FN2ORACLE:
        return N.oracle_for(w).run(w)
    rs = table_registry(None, "quick", 0)
    bad = [r for r in rs if r.status != "discharged" and (r.witness or {}).get("name") == w.get("name")]
    return (bool(bad), bad[0].detail if bad else "registry agrees")


class Tables(Native, FnTask):
    def __init__(self):
        FnTask.__init__(self, "C22", "C22.tables", table_registry, "table", replay_table)

    def case_key(self, w):
        return N.oracle_for(w).key(w) if w.get("fn") in N.FN2ORACLE else Native.case_key(self, w)

    def replay(self, w):
        return replay_table(w)


class Bounded(Native, FnTask):
    """Bounded stand-in: the REAL filter through Environment.call_filter (sync environment, async environment, async
    environment with an async generator as input) on every small input against the executable specification;
    arguments compared with a deep copy afterwards.  Never reported as proved."""

    def __init__(self, oname):
        self.oname = oname
        FnTask.__init__(self, "C22", f"C22.bounded.{oname}", None, "bounded", None)
        self.bound_text = (f"filter group `{oname}`: all input sequences up to length 7 over a 3-letter alphabet (fewer for structured items) x the "
                           "argument combinations listed in standins/c22_native.py, in a sync and an async environment")

    def run(self, tier, seed):
        import time
        o = N.ORACLES[self.oname]
        t0 = time.time()
        n, bad = 0, {}
        for w in o.cases(7 if tier == "quick" else 8):
            n += 1
            try:
                v, d = o.run(w)
            except Exception as ex:  # noqa
                v, d = True, f"oracle crashed on {w}: {type(ex).__name__}: {ex}"
            if v:
                k = o.key(w)
                bad.setdefault(k if not k.startswith("other:") else "other", (w, d, k))
        self.stats = {"cases": n, "seconds": round(time.time() - t0, 2)}
        rs = [Res(f"C22.bounded.{self.oname}", "bounded-ok" if not bad else "refuted", "native", time.time() - t0,
                  f"{n} cases agree with the specification" if not bad else "", "bounded", None)]
        if bad:
            rs = []
            for kk, (w, d, k) in bad.items():
                rs.append(Res(f"C22.bounded.{self.oname}", "refuted", "native", time.time() - t0, d[:500], "bounded", w))
        return rs

    def run_case(self, w):
        return N.oracle_for(w).run(w)

    def case_key(self, w):
        return N.oracle_for(w).key(w)

    def replay(self, w):
        return self.run_case(w)


TASKS = (
    [Slice(), Batch(), Unique()]
    + [IgnoreCase(w) for w in ("str", "int", "none", "tuple")]
    + [AttrGetterChain()] + [AttrGetter(a, pp) for a in AttrGetter.ATTRS for pp in (False, True)]
    + [MultiAttrGetter(a, pp) for a in MultiAttrGetter.ATTRS for pp in (False, True)]
    + [Sort()] + [DictSort(by) for by in ("key", "value", "bogus")]
    + [GroupBy(g, a) for a in (False, True) for g in (0, 1, 2, 3)]
    + [MinOrMax(), MinMaxWrapper("min"), MinMaxWrapper("max"), Sum(), First(False), First(True), Last(), ListF()]
    + [Reverse(w) for w in ("str:", "str:a", "str:abC", "list", "generator", "opaque")]
    + [JoinPlain()] + [JoinAuto(n) for n in (0, 1, 2)] + [MapGen(False), MapGen(True), SelectGen(False)]
    + [AsyncSelect(la, n) for la, n in ((False, 0), (False, 1), (False, 2), (True, 1), (True, 2), (True, 3))]
    + [SelectWrapper(w, a) for w in ("select", "reject", "selectattr", "rejectattr") for a in (False, True)]
    + [PrepareMap(s) for s in PrepareMap.SHAPES]
    + [PrepareSelect(la, n) for la in (False, True) for n in (0, 1, 2, 3)]
    + [AsyncDelegate(w) for w in ("slice", "unique", "join", "list")]
    + [AsyncDelegate(w) for w in ("sort", "min", "max", "batch", "reverse") if has_async_variant(w)]
    + [AsyncSum(False), AsyncSum(True)]
    + [Dispatch(w) for w in ("slice", "unique", "groupby", "sum", "first", "join", "list", "map", "select", "reject", "selectattr", "rejectattr")
                         + tuple(w for w in ("sort", "min", "max", "batch", "reverse") if has_async_variant(w))]
    + [Tables()]
    + [Bounded(o) for o in N.ORACLES]
)

META = {
    "level": "proof",
    "explanation": (
        "Real source of jinja2/filters.py under sidecar contracts. UNBOUNDED proofs (loop invariants, array encodings, any "
        "input length and argument value): sync_do_slice (s rows, sizes floor(n/s)+1 for i < n mod s, rows are consecutive "
        "segments covering the input, at most one extra item per row and it is the fill value, fill exactly on the short "
        "rows), do_batch (ceil(n/c) rows, full rows in order, last row and its padding), sync_do_unique (the yields are "
        "the first occurrences in order; key = attribute getter, lower-cased iff not case sensitive), sync_do_map / do_map, "
        "select_or_reject / async_select_or_reject (yields = the selected items in order), async do_sum (= builtins.sum of the collected "
        "items and start, by delegation or a direct call; no in-place update of `start`), async_select_or_reject with the real "
        "prepare_select_or_reject inlined (the test result is awaited before modfunc), _min_or_max, sync_do_first / do_first, do_last, sync_do_list, do_reverse, "
        "make_attrgetter over any list of parts. RELATIVE proofs (the library function is a dependency spec, the call made "
        "and its arguments are checked): do_sort, do_dictsort (key function probed on a generic pair), sync_do_sum, "
        "sync_do_join without autoescape, do_min/do_max, the eight select/reject wrappers (modfunc probed), prepare_map, "
        "prepare_select_or_reject, ignore_case, make_attrgetter / make_multi_attrgetter per attribute shape (table of 7 / 6 "
        "strings), async do_slice / do_unique / do_join / do_list (= the sync filter on auto_to_list(value)). Every contract "
        "has a frame clause (state.written within state.allocated; yielded rows fresh and never written after the yield). "
        "BOUNDED (reported as bounded, never as proved): sync_do_groupby / async do_groupby for 0..3 groups of symbolic size, "
        "sync_do_join under autoescape for lists of 0..2 symbolic items, and the native stand-ins: every filter through "
        "Environment.call_filter in a sync and an async environment (lists, generators, async generators) on all sequences "
        "up to length 7 over a 3-letter alphabet x argument combinations against executable specifications written from the "
        "statement, with deep-copy comparison of the arguments. Tables: FILTERS registry and async_variant pairing. "
        "Recursive specification functions (prefix sums S, i*linecount M, rank, first index of a key, partial sums, lookup "
        "chain) are introduced by conservative definitions over the input only. A solver-undecided obligation is retried on "
        "the real function (small-input sweep); a failing input turns it into a refutation with that input as witness."),
    "assumptions": [
        "A1 integers are mathematical; slices >= 1, linecount >= 1 (the documented domain of slice / batch)",
        "A-EQ keys are hashable and `==`/hash on them coincide with identity of abstract atoms",
        "A7 await is transparent except for auto_await in async_select_or_reject, where the awaited value is a function of the awaitable; async iteration over auto_aiter(x) yields the items of x in order; auto_to_list(x) is a new list of them",
        "inputs are finite iterables modelled as lists (iteration protocol of generators assumed); environment.getitem is a function of (item, part)",
        "for a type with in-place addition, a + b is a new object (never the `start` argument); `a += b` has the value of a + b",
        "generator bodies have no effects that depend on laziness except the row aliasing that `rows_frozen` checks",
    ],
    "trusted_base": [
        "z3 5.1 / cvc5", "pyvc symbolic executor (python ast -> VCs) with the module-local extensions of contracts/c22.py "
        "(ghost yield sequence, range, div/mod, list repeat/extend, auto havoc of loop-carried locals)",
        "dependency specs: sorted (stable sorted permutation by key/reverse), itertools.groupby (adjacent equal keys, non-empty groups), "
        "itertools.chain, min / max (first extreme item by key), sum (left fold with +), map, reversed, enumerate, list, set, str.join, str.lower, "
        "typing.cast, markupsafe.escape / soft_str, jinja2.async_utils.auto_aiter / auto_to_list / auto_await, Environment.getitem / undefined / call_filter / call_test",
        "standins/c22_native.py executable specifications (bounded stand-ins and replay oracle)",
    ],
}
