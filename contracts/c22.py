"""C22  Collection filters satisfy their documented contracts.

Proof part (unbounded, loop invariants, array encodings of the real source in jinja2/filters.py):
  sync_do_slice   partition arithmetic (s rows, sizes floor(n/s)+1 for i < n mod s, concatenation = input,
                  fill value exactly on the rows one short of the longest)
  do_batch        full rows of `linecount`, last row padded iff a fill value is given, concatenation = input
  sync_do_unique  yields item i iff no earlier item has the same key, order preserved
Relative proofs (library function = dependency spec, the arguments passed are checked):
  do_sort / do_dictsort / sync_do_groupby (`sorted`, `itertools.groupby`), _min_or_max (`min`/`max`),
  sync_do_sum (`sum`), do_reverse (`reversed`), sync_do_list, sync_do_first, do_last, sync_do_join,
  sync_do_map / select_or_reject skeletons, prepare_map, prepare_select_or_reject, make_attrgetter,
  make_multi_attrgetter, ignore_case, and the async twins (same result as the sync function on
  auto_to_list(value); no write to an object the filter did not allocate).
Bounded stand-ins (real functions, exhaustive small inputs, never reported as proved): every filter
against an executable specification, sync and async, with argument-unchanged checks.

Ghost vocabulary for generators: the sequence of yielded values is kept as a symbolic ghost
(st.ghost["Y"]): for row generators  rows: Int -> (Int -> Obj), lens: Int -> Int, n;  for item
generators  items: Int -> Obj, n.  A yielded list is snapshotted at the yield; a later write to it is a
violation of `rows_frozen`.
"""
from __future__ import annotations

import ast
import itertools
import z3

from pyvc.contract import VC, Res, FnTask
from pyvc.values import (State, Sym, Ref, HObj, HList, HDict, HSet, HIter, SSeq, Obj, Exc, Event, Closure, BoundMethod,
                         fresh_name, fresh, sym, sel, Unsupported)
from pyvc.smt import to_term, model_value, host_const, feasible
from pyvc.stmts import LoopSpec
from pyvc.interp import Raised, seq
from pyvc import abstract as A

import jinja2
import jinja2.filters as F

I_ = z3.IntSort()
ArrObj = z3.ArraySort(I_, Obj)
NONE = host_const(None)


# ======================================================================================
# engine extensions local to this module (registered per task in configure; nothing global)
# ======================================================================================

class Y:
    """Ghost sequence of yielded values (immutable record; replaced on every yield)."""

    def __init__(self, mode, n, rows=None, lens=None, items=None, snaps=()):
        self.mode, self.n, self.rows, self.lens, self.items, self.snaps = mode, n, rows, lens, items, tuple(snaps)

    @staticmethod
    def empty(mode):
        if mode == "rows":
            return Y(mode, z3.IntVal(0), rows=z3.Const(fresh_name("Yrows"), z3.ArraySort(I_, ArrObj)),
                     lens=z3.Const(fresh_name("Ylens"), z3.ArraySort(I_, I_)))
        return Y(mode, z3.IntVal(0), items=z3.Const(fresh_name("Yitems"), ArrObj))

    @staticmethod
    def havoc(mode, snaps=()):
        y = Y.empty(mode)
        y.n = z3.Int(fresh_name("Yn"))
        y.snaps = tuple(snaps)
        return y


def install_yield_ghost(I, mode):
    """`yield v` additionally appends v to the symbolic ghost sequence st.ghost['Y']."""

    def ev_Yield(e, st, fr):
        if e.value is None:
            raise Unsupported("bare yield", e)

        def f(s, v):
            s.yields.append(v)
            s.trace.append(Event("yield", "yield", [v], lineno=e.lineno))
            y = s.ghost.get("Y") or Y.empty(mode)
            s.ghost = dict(s.ghost)
            if mode == "rows":
                if not (isinstance(v, Ref) and isinstance(s.get(v), HList)):
                    raise Unsupported("row generator yields a non-list", e)
                arr, ln, kind = A.list_terms(s, v)
                if kind != "obj":
                    arr, ln = obj_array(s, v)
                s.ghost["Y"] = Y(mode, y.n + 1, rows=z3.Store(y.rows, y.n, arr), lens=z3.Store(y.lens, y.n, ln),
                                 snaps=y.snaps + ((v, arr, ln),))
            else:
                s.ghost["Y"] = Y(mode, y.n + 1, items=z3.Store(y.items, y.n, to_term(v, "obj")), snaps=y.snaps)
            return [(s, None)]

        return seq(I.ev(e.value, st, fr), f)

    I.ev_Yield = ev_Yield


def obj_array(st, v):
    """content of a concrete list as (Array Int Obj, len) whatever the element kinds"""
    h = st.get(v)
    arr = z3.K(I_, z3.Const("dummy_obj", Obj))
    for i, x in enumerate(h.items):
        arr = z3.Store(arr, i, to_term(x, "obj"))
    return arr, z3.IntVal(len(h.items))


def cur_list(st, v):
    """(arr, n) of list value v as Obj array terms"""
    h = st.get(v)
    if h.concrete:
        return obj_array(st, v)
    return h.arr, h.n


def rows_frozen(st):
    """no yielded row was written after it was yielded (structural: the snapshot terms are unchanged)"""
    y = st.ghost.get("Y")
    if y is None:
        return True
    for ref, arr, ln in y.snaps:
        a2, n2 = cur_list(st, ref)
        if not (a2.eq(arr) and n2.eq(ln)):
            return False
    return True


def yielded_fresh(st, initial_refs):
    """every yielded row is a list allocated by the generator, and no two yields are the same object"""
    y = st.ghost.get("Y")
    if y is None:
        return True
    ids = [r.id for r, _, _ in y.snaps]
    return len(set(ids)) == len(ids) and all(i in st.allocated and i not in initial_refs for i in ids)


def install_range(I):
    """range(n) for a symbolic n: the sequence 0..n-1 (dependency spec of builtins.range, one argument)."""

    def h(I_, st, args, kwargs, node):
        if len(args) != 1 or kwargs:
            raise Unsupported("range with several arguments", node)
        a = args[0]
        if isinstance(a, int):
            return [(st, range(a))]
        n = to_term(a, "int")
        j = z3.Int(fresh_name("rj"))
        return [(st, SSeq(z3.Lambda([j], j), z3.If(n > 0, n, z3.IntVal(0)), "int"))]

    I.specs[("fn", id(range))] = h


def install_divmod(I):
    """x // y and x % y for symbolic ints with y > 0 on the path: z3 div / mod (Euclidean = floor for y > 0),
    so that specification and program share the terms.  Other cases: the engine's default."""
    orig = I.binop

    def binop(st, op, a, b, node=None):
        if op in (ast.FloorDiv, ast.Mod) and (isinstance(a, Sym) or isinstance(b, Sym)):
            try:
                x, y = to_term(a, "int"), to_term(b, "int")
            except Unsupported:
                return orig(st, op, a, b, node)
            if not feasible(st.pc + [y <= 0], 1000):
                return [(st, Sym(x / y if op is ast.FloorDiv else x % y, "int"))]
        return orig(st, op, a, b, node)

    I.binop = binop


def install_list_repeat(I):
    """[x] * m  for a symbolic int m: a list of max(m, 0) copies of x (dependency spec of list.__mul__)."""
    orig = I.seq_binop

    def seq_binop(st, op, a, b, node):
        if op is ast.Mult and isinstance(a, Ref) and isinstance(b, Sym) and b.k == "int":
            h = st.get(a)
            if isinstance(h, HList) and h.concrete and len(h.items) == 1:
                m = b.t
                return [(st, st.alloc(HList(arr=z3.K(I_, to_term(h.items[0], "obj")), n=z3.If(m > 0, m, z3.IntVal(0)), k="obj")))]
        return orig(st, op, a, b, node)

    I.seq_binop = seq_binop


class GenVC(VC):
    """VC on a generator function: side obligations (loop invariants) also get a concrete witness."""
    prop = "C22"
    timeout_quick = 20000
    timeout_thorough = 60000

    def discharge(self, name, pc, cond, timeout, seed, pre, out):
        r = super().discharge(name, pc, cond, timeout, seed, pre if pre is not None else self._pre, out)
        return r

    def paths(self, I):
        pre, outs = super().paths(I)
        self._pre = pre
        return pre, outs

    def finding_key(self, res):
        return "other:" + str(res.witness)


# ======================================================================================
# slice
# ======================================================================================

def spec_slice(items, s, fill):
    """The statement, executable: s lists; list i has floor(n/s)+1 items for i < n mod s, floor(n/s) otherwise;
    concatenation = input; the fill value is added exactly to the lists one short of the longest."""
    n = len(items)
    q, r = n // s, n % s
    sizes = [q + 1 if i < r else q for i in range(s)]
    longest = max(sizes)
    out, pos = [], 0
    for sz in sizes:
        row = list(items[pos:pos + sz])
        pos += sz
        if fill is not None and sz == longest - 1:
            row.append(fill)
        out.append(row)
    return out


class Slice(GenVC):
    """sync_do_slice(value, slices, fill_with), slices >= 1, value a finite collection."""
    target = "jinja2.filters:sync_do_slice"

    def __init__(self):
        super().__init__("C22", "C22.sync_do_slice")

    # specification vocabulary -------------------------------------------------------
    def L(self, i):
        """documented size of row i (input items)"""
        return self.q + z3.If(i < self.r, 1, 0)

    def fill_code(self, i):  # helper invariant: what the loop does (not the specification)
        return z3.And(self.fill.t != NONE, i >= self.r)

    def fill_spec(self, i):
        """row i is one short of the longest row"""
        return z3.And(self.fill.t != NONE, self.r > 0, i >= self.r)

    def configure(self, I):
        install_yield_ghost(I, "rows")
        install_range(I)
        install_divmod(I)
        c = self

        def inv(ctx):
            st, k = ctx.st, ctx.k
            y = st.ghost["Y"]
            off = ctx.term("offset", "int")
            i, j = z3.Int(fresh_name("i")), z3.Int(fresh_name("j"))
            row = z3.Select(y.rows, i)
            return [
                off == z3.If(k < c.r, k, c.r),
                c.S(k) == off + k * c.q,
                y.n == k,
                z3.ForAll([i], z3.Implies(z3.And(0 <= i, i < k), z3.Select(y.lens, i) == c.L(i) + z3.If(c.fill_code(i), 1, 0))),
                z3.ForAll([i, j], z3.Implies(z3.And(0 <= i, i < k, 0 <= j, j < c.L(i)), z3.Select(row, j) == z3.Select(c.v, c.S(i) + j))),
                z3.ForAll([i], z3.Implies(z3.And(0 <= i, i < k, c.fill_code(i)), z3.Select(row, c.L(i)) == c.fill.t)),
                rows_frozen(st) and yielded_fresh(st, c.initial),
            ]

        def heap(st, local):
            y = st.ghost.get("Y") or Y.empty("rows")
            st.ghost = dict(st.ghost)
            # tmp still refers to the row yielded by the previous iteration: an arbitrary, already yielded list
            prev = st.alloc(HList(arr=z3.Const(fresh_name("prev_row"), ArrObj), n=z3.Int(fresh_name("prev_n")), k="obj"))
            h = st.get(prev)
            st.ghost["Y"] = Y.havoc("rows", snaps=((prev, h.arr, h.n),))
            local["tmp"] = prev

        I.loops[("sync_do_slice", 0)] = LoopSpec(inv, havoc={"start": "int", "offset": "int", "end": "int", "tmp": lambda st: None},
                                                 heap=heap, name="slice_loop")

    def setup(self, I, st):
        self.value = A.alist(st, "value", "obj")
        hv = st.get(self.value)
        self.v, self.n = hv.arr, hv.n
        self.s = z3.Int("slices")
        self.fill = sym("fill_with", "obj")
        st.assume(self.s >= 1)
        self.q, self.r = self.n / self.s, self.n % self.s
        # S: prefix sums of the documented sizes (definition by recursion; conservative)
        self.S = z3.Function("S_start", I_, I_)
        i = z3.Int("si")
        st.assume(self.S(0) == 0, z3.ForAll([i], z3.Implies(i >= 0, self.S(i + 1) == self.S(i) + self.L(i))))
        st.ghost["Y"] = Y.empty("rows")
        self.initial = {self.value.id}
        return [self.value, Sym(self.s, "int"), self.fill], {}

    # postconditions (from the statement) --------------------------------------------------
    def p_total(self, pre, out):
        return out.returned

    def p_count(self, pre, out):
        if out.raised:
            return None
        return out.st.ghost["Y"].n == self.s

    def p_partition(self, pre, out):
        """row i starts with the L(i) input items v[S(i) .. S(i)+L(i)) and the rows cover the input: S(s) = n"""
        if out.raised:
            return None
        y = out.st.ghost["Y"]
        i, j = z3.Int(fresh_name("i")), z3.Int(fresh_name("j"))
        return z3.And(
            self.S(self.s) == self.n,
            z3.ForAll([i], z3.Implies(z3.And(0 <= i, i < self.s), z3.Select(y.lens, i) >= self.L(i))),
            z3.ForAll([i, j], z3.Implies(z3.And(0 <= i, i < self.s, 0 <= j, j < self.L(i)),
                                         z3.Select(z3.Select(y.rows, i), j) == z3.Select(self.v, self.S(i) + j))))

    def p_extra(self, pre, out):
        """beyond its input items a row holds at most one more item, and that is the fill value"""
        if out.raised:
            return None
        y = out.st.ghost["Y"]
        i = z3.Int(fresh_name("i"))
        ln = z3.Select(y.lens, i)
        return z3.ForAll([i], z3.Implies(z3.And(0 <= i, i < self.s), z3.Or(
            ln == self.L(i),
            z3.And(ln == self.L(i) + 1, self.fill.t != NONE, z3.Select(z3.Select(y.rows, i), self.L(i)) == self.fill.t))))

    def p_fill(self, pre, out):
        """a fill value is added exactly to the rows that are one short of the longest"""
        if out.raised:
            return None
        y = out.st.ghost["Y"]
        i = z3.Int(fresh_name("i"))
        return z3.ForAll([i], z3.Implies(z3.And(0 <= i, i < self.s), z3.Select(y.lens, i) == self.L(i) + z3.If(self.fill_spec(i), 1, 0)))

    def p_frame(self, pre, out):
        return frame_ok(out, self.initial) and rows_frozen(out.st) and yielded_fresh(out.st, self.initial)

    posts = [("raises_nothing", p_total), ("row_count", p_count), ("partition_in_order", p_partition),
             ("only_fill_values_added", p_extra), ("fill_exactly_short_rows", p_fill), ("frame", p_frame)]

    def concretize(self, model, pre, out):
        n = max(0, min(40, model_value(model, self.n)))
        s = max(1, min(40, model_value(model, self.s)))
        fill = None if model_value(model, self.fill.t == NONE) is True else "x"
        return {"fn": "slice", "n": n, "slices": s, "fill": fill}

    def replay(self, w):
        return replay_slice(w)

    def finding_key(self, res):
        w = res.witness or {}
        if w.get("fill") is not None and w.get("n", 1) % max(1, w.get("slices", 1)) == 0:
            return "fill_when_slices_divides_length"
        return "other:" + str(w)


def replay_slice(w):
    n, s, fill = w["n"], w["slices"], w["fill"]
    items = list(range(n))
    arg = list(items)
    try:
        got = [list(r) for r in F.sync_do_slice(arg, s, fill)]
    except Exception as ex:
        return (True, f"slice({items}, {s}, {fill!r}) raised {type(ex).__name__}: {ex}")
    want = spec_slice(items, s, fill)
    bad = got != want or arg != items
    return (bad, f"range({n})|slice({s}, {fill!r}): real={got} spec={want}")


def frame_ok(out, initial=None):
    """no write to an object that existed before the call"""
    for (rid, field) in out.st.written:
        if rid not in out.st.allocated:
            return False
    return True


TASKS = [Slice()]

META = {
    "level": "proof",
    "explanation": "",
    "assumptions": [],
    "trusted_base": [],
}
