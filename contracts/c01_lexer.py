"""C01, lexer half: Lexer.tokeniter / Lexer.wrap / Failure.__call__ / TokenStream.

  C01.regex.<cfg>.*              facts read off the REAL compiled rule table of a real Lexer (re._parser parse trees):
                                 group participation shapes, minimum widths, state-name closure (R1, R2, R3 of DESIGN C01)
  C01.tokeniter.prologue.<cfg>   the statements before the `while True` loop establish the loop-head invariant
  C01.tokeniter.raises.<cfg>.<state>      symbolic execution of the real loop body from the loop-head invariant in lexer
                                 state <state>: every exceptional exit is a TemplateSyntaxError (the three RuntimeError
                                 sites, `next(...)`'s StopIteration, stack/rules/group index errors are infeasible)
  C01.tokeniter.terminates.<cfg>.<state>  every iteration that continues re-establishes the invariant and decreases
                                 (len(source) - pos, len(stack)) lexicographically
  C01.tokeniter.states.<cfg>     token automaton built from the per-state path summaries: after start / data /
                                 variable_end / block_end the next token the parser sees is data, variable_begin,
                                 block_begin (or the stream ends)
  C01.wrap.raises                one generic iteration of Lexer.wrap per token type: only TemplateSyntaxError; name tokens
                                 are yielded only when value.isidentifier(); int(s, 0) may raise ValueError (F7)

The match objects are abstract: `pattern.match(source, pos)` returns None or a match whose end satisfies
pos + minwidth <= end <= len(source) and whose groups()/groupdict() range over the participation shapes computed from
the parse tree of the real pattern (dependency spec of the `re` module, DESIGN A8/A9).
"""
from __future__ import annotations

import ast
import itertools
import re
import sys
import time

import z3

from pyvc.contract import Task, Res, FnTask, VC
from pyvc.values import (State, Sym, Ref, HObj, HList, HDict, HIter, SSeq, Exc, Unsupported, CheckerError, sym, fresh,
                         fresh_name, BoundMethod)
from pyvc.interp import Raised, Frame
from pyvc.smt import check_sat, to_term, model_value
from pyvc.stmts import LoopSpec
from pyvc import abstract as A, extract, models

import jinja2
import jinja2.lexer as L
from jinja2.exceptions import TemplateSyntaxError, TemplateAssertionError

try:  # Python >= 3.11
    import re._parser as sre_parse
    import re._constants as sre_c
except ImportError:  # pragma: no cover
    import sre_parse
    import sre_constants as sre_c

PROP = "C01"

# environment configurations of the A9 family the lexer facts are computed for
CONFIGS = {
    "default": {},
    "custom": dict(block_start_string="<%", block_end_string="%>", variable_start_string="${", variable_end_string="}",
                   comment_start_string="<#", comment_end_string="#>"),
    "line": dict(line_statement_prefix="%", line_comment_prefix="##"),
    "trim": dict(trim_blocks=True, lstrip_blocks=True, keep_trailing_newline=True),
}


def make_env(cfg, **extra):
    kw = dict(CONFIGS[cfg])
    kw.update(extra)
    return jinja2.Environment(**kw)


def real_lexer(cfg):
    return L.Lexer(make_env(cfg))


# ------------------------------------------------------------------------------------------------
# regex facts
# ------------------------------------------------------------------------------------------------

class FactUnknown(Exception):
    pass


def _seq_shapes(items):
    shapes = {frozenset()}
    for op, av in items:
        sh = _item_shapes(op, av)
        shapes = {a | b for a in shapes for b in sh}
        if len(shapes) > 4096:
            raise FactUnknown("too many group participation shapes")
    return shapes


def _closure(shapes):
    out = set(shapes)
    changed = True
    while changed:
        changed = False
        for a in list(out):
            for b in shapes:
                c = a | b
                if c not in out:
                    out.add(c)
                    changed = True
        if len(out) > 4096:
            raise FactUnknown("too many group participation shapes")
    return out


def _item_shapes(op, av):
    """set of frozensets of group numbers that may be set (non-None) after matching this item"""
    name = str(op)
    if name in ("LITERAL", "NOT_LITERAL", "ANY", "IN", "AT", "CATEGORY", "RANGE"):
        return {frozenset()}
    if name == "SUBPATTERN":
        g, add_flags, del_flags, p = av
        inner = _seq_shapes(list(p))
        if g is None:
            return inner
        return {s | {g} for s in inner}
    if name == "BRANCH":
        out = set()
        for alt in av[1]:
            out |= _seq_shapes(list(alt))
        return out
    if name in ("MAX_REPEAT", "MIN_REPEAT", "POSSESSIVE_REPEAT"):
        lo, hi, p = av
        inner = _seq_shapes(list(p))
        # a group keeps the value of its last participation across iterations
        rep = _closure(inner) if (hi is sre_c.MAXREPEAT or hi > 1) else set(inner)
        if lo == 0:
            rep = set(rep) | {frozenset()}
        return rep
    if name == "ASSERT":
        return _seq_shapes(list(av[1]))
    if name == "ASSERT_NOT":
        return {frozenset()}
    if name == "ATOMIC_GROUP":
        return _seq_shapes(list(av))
    if name == "GROUPREF":
        return {frozenset()}
    raise FactUnknown(f"regex construct {name} not covered by the participation analysis")


class PatFacts:
    """facts about one compiled pattern, from its sre parse tree"""

    def __init__(self, pattern):
        self.pattern = pattern
        self.ngroups = pattern.groups
        self.groupindex = dict(pattern.groupindex)
        try:
            tree = sre_parse.parse(pattern.pattern, pattern.flags)
            self.tree = tree
            self.minw, self.maxw = tree.getwidth()
            self.maxw = None if self.maxw >= sre_c.MAXREPEAT or self.maxw > 10 ** 9 else int(self.maxw)
            self.minw = int(self.minw)
            self.shapes = sorted(_seq_shapes(list(tree)), key=lambda s: sorted(s))
            self.error = None
        except FactUnknown as ex:
            self.tree = None
            self.minw, self.maxw = 0, None
            # unknown structure: any subset of groups may participate is too large; fall back to "nothing known"
            self.shapes = None
            self.error = str(ex)

    def always(self):
        if self.shapes is None:
            return frozenset()
        s = None
        for sh in self.shapes:
            s = set(sh) if s is None else (s & sh)
        return frozenset(s or ())


_FACTS = {}


def facts(pattern):
    key = id(pattern)
    if key not in _FACTS:
        _FACTS[key] = (PatFacts(pattern), pattern)
    return _FACTS[key][0]


def literal_alternatives(pattern):
    """the finite set of literal strings a pattern of the form (lit1|lit2|...) matches, else None"""
    try:
        tree = sre_parse.parse(pattern.pattern, pattern.flags)
    except Exception:
        return None
    items = list(tree)
    if len(items) != 1 or str(items[0][0]) != "SUBPATTERN":
        return None
    inner = list(items[0][1][3])

    def lits(seq):
        s = ""
        for op, av in seq:
            if str(op) != "LITERAL":
                return None
            s += chr(av)
        return s

    def expand(seq):
        """all strings of a sequence of LITERAL / BRANCH / IN(literals) items"""
        outs = [""]
        for op, av in seq:
            nm = str(op)
            if nm == "LITERAL":
                outs = [o + chr(av) for o in outs]
            elif nm == "BRANCH":
                alts = []
                for alt in av[1]:
                    e = expand(list(alt))
                    if e is None:
                        return None
                    alts += e
                outs = [o + a for o in outs for a in alts]
            elif nm == "IN":
                chars = []
                for op2, av2 in av:
                    if str(op2) != "LITERAL":
                        return None
                    chars.append(chr(av2))
                outs = [o + c for o in outs for c in chars]
            elif nm == "SUBPATTERN" and av[0] is None:
                e = expand(list(av[3]))
                if e is None:
                    return None
                outs = [o + a for o in outs for a in e]
            else:
                return None
            if len(outs) > 10000:
                return None
        return outs

    e = expand(inner)
    return None if e is None else set(e)


# ---- backtracking facts: no ambiguous nested quantifier ------------------------------------------

_CAT_RE = {"CATEGORY_DIGIT": r"\d", "CATEGORY_NOT_DIGIT": r"\D", "CATEGORY_SPACE": r"\s", "CATEGORY_NOT_SPACE": r"\S",
           "CATEGORY_WORD": r"\w", "CATEGORY_NOT_WORD": r"\W", "CATEGORY_LINEBREAK": r"\n", "CATEGORY_NOT_LINEBREAK": r"[^\n]"}


def _sample_alphabet(tree_items):
    chars = set(chr(i) for i in range(0, 128)) | set("\u00e9\u00b7\u0663\u2028\u3000\ufb01\u00a0\u0301\U0001d7ce")

    def walk(items):
        for op, av in items:
            nm = str(op)
            if nm in ("LITERAL", "NOT_LITERAL"):
                chars.add(chr(av))
            elif nm == "RANGE":
                chars.update((chr(av[0]), chr(av[1]), chr(min(av[1], av[0] + 1))))
            elif nm == "IN":
                walk(av)
            elif nm == "SUBPATTERN":
                walk(list(av[3]))
            elif nm == "BRANCH":
                for a in av[1]:
                    walk(list(a))
            elif nm in ("MAX_REPEAT", "MIN_REPEAT", "POSSESSIVE_REPEAT"):
                walk(list(av[2]))
            elif nm in ("ASSERT", "ASSERT_NOT"):
                walk(list(av[1]))
            elif nm == "ATOMIC_GROUP":
                walk(list(av))
    walk(tree_items)
    return sorted(chars)


def _char_matches(op, av, ch, flags):
    """does the single-character item (op, av) accept ch?"""
    nm = str(op)
    fold = bool(flags & re.IGNORECASE)
    if nm == "LITERAL":
        return chr(av) == ch or (fold and chr(av).lower() == ch.lower())
    if nm == "NOT_LITERAL":
        return not (chr(av) == ch or (fold and chr(av).lower() == ch.lower()))
    if nm == "ANY":
        return bool(flags & re.DOTALL) or ch != "\n"
    if nm == "CATEGORY":
        return re.fullmatch(_CAT_RE[str(av)], ch, flags & (re.ASCII | re.UNICODE)) is not None
    if nm == "RANGE":
        alts = [ch] + ([x for x in (ch.lower(), ch.upper()) if len(x) == 1] if fold else [])
        return any(av[0] <= ord(x) <= av[1] for x in alts)
    if nm == "IN":
        items = list(av)
        neg = bool(items) and str(items[0][0]) == "NEGATE"
        if neg:
            items = items[1:]
        hit = any(_char_matches(o, a, ch, flags) for o, a in items)
        return hit != neg
    raise FactUnknown(f"single-character item {nm}")


_SINGLE = ("LITERAL", "NOT_LITERAL", "ANY", "IN")


def _item_minwidth(op, av):
    nm = str(op)
    if nm in _SINGLE:
        return 1
    if nm in ("AT", "ASSERT", "ASSERT_NOT"):
        return 0
    if nm == "SUBPATTERN":
        return sum(_item_minwidth(o, a) for o, a in av[3])
    if nm == "ATOMIC_GROUP":
        return sum(_item_minwidth(o, a) for o, a in av)
    if nm == "BRANCH":
        return min(sum(_item_minwidth(o, a) for o, a in alt) for alt in av[1])
    if nm in ("MAX_REPEAT", "MIN_REPEAT", "POSSESSIVE_REPEAT"):
        return av[0] * sum(_item_minwidth(o, a) for o, a in av[2])
    if nm == "GROUPREF":
        return 0
    raise FactUnknown(f"regex construct {nm}")


def _first_chars(items, alphabet, flags):
    """characters that can be the first character consumed by the sequence `items`"""
    out = set()
    for op, av in items:
        nm = str(op)
        if nm in _SINGLE:
            out |= {c for c in alphabet if _char_matches(op, av, c, flags)}
        elif nm == "SUBPATTERN":
            out |= _first_chars(list(av[3]), alphabet, flags)
        elif nm == "ATOMIC_GROUP":
            out |= _first_chars(list(av), alphabet, flags)
        elif nm == "BRANCH":
            for alt in av[1]:
                out |= _first_chars(list(alt), alphabet, flags)
        elif nm in ("MAX_REPEAT", "MIN_REPEAT", "POSSESSIVE_REPEAT"):
            out |= _first_chars(list(av[2]), alphabet, flags)
        elif nm in ("AT", "ASSERT", "ASSERT_NOT"):
            pass
        elif nm == "GROUPREF":
            return set(alphabet)
        else:
            raise FactUnknown(f"regex construct {nm}")
        if _item_minwidth(op, av) > 0:
            break
    return out


def _is_var_repeat(op, av):
    nm = str(op)
    if nm not in ("MAX_REPEAT", "MIN_REPEAT"):
        return False  # possessive repeats / atomic groups do not backtrack into their body
    lo, hi, body = av
    return (hi is sre_c.MAXREPEAT or hi > 1) and lo != hi and sum(_item_minwidth(o, a) for o, a in body) >= 0


def _tail_repeats(items):
    """variable repeats that can be the LAST consuming element of the sequence (everything after them may be empty)"""
    out = []
    for op, av in reversed(list(items)):
        nm = str(op)
        if _is_var_repeat(op, av):
            out.append((op, av))
            out += _tail_repeats(list(av[2]))
        elif nm == "SUBPATTERN":
            out += _tail_repeats(list(av[3]))
        elif nm == "BRANCH":
            for alt in av[1]:
                out += _tail_repeats(list(alt))
        elif nm in ("MAX_REPEAT", "MIN_REPEAT") and av[1] == 1:
            out += _tail_repeats(list(av[2]))  # optional group
        if _item_minwidth(op, av) > 0:
            break
    return out


def ambiguous_nested_repeats(pattern):
    """-> list of descriptions of nested quantifiers `(... Q ...)*` in which a run of one character class can be divided
    between the inner repeat Q and further iterations of the outer repeat (the shape that makes a backtracking matcher
    take exponentially many steps on a non-matching input).  Sound for the shapes it knows (FactUnknown otherwise);
    character overlap is decided on ASCII + the pattern's own literals + a few non-ASCII representatives."""
    tree = sre_parse.parse(pattern.pattern, pattern.flags)
    flags = pattern.flags
    alphabet = _sample_alphabet(list(tree))
    found = []

    def visit(items):
        for op, av in items:
            nm = str(op)
            if nm in ("MAX_REPEAT", "MIN_REPEAT", "POSSESSIVE_REPEAT"):
                lo, hi, body = av
                body = list(body)
                if nm != "POSSESSIVE_REPEAT" and (hi is sre_c.MAXREPEAT or hi > 1):
                    first = _first_chars(body, alphabet, flags)
                    if sum(_item_minwidth(o, a) for o, a in body) == 0 and (hi is sre_c.MAXREPEAT):
                        found.append("an unbounded repeat whose body can match the empty string")
                    for qop, qav in _tail_repeats(body):
                        inner_first = _first_chars(list(qav[2]), alphabet, flags)
                        common = first & inner_first
                        if common:
                            ex = sorted(common)[:3]
                            found.append(f"a repeat inside a repeat: the inner repeat can end an iteration of the outer one and both continue with {ex!r}")
                    # alternatives of a branch directly repeated that start with a common character and are not prefix-free singletons
                    for bop, bav in body:
                        if str(bop) == "BRANCH" and len(body) == 1:
                            alts = [list(a) for a in bav[1]]
                            for i in range(len(alts)):
                                for j in range(i + 1, len(alts)):
                                    ci = _first_chars(alts[i], alphabet, flags) & _first_chars(alts[j], alphabet, flags)
                                    if ci and not (len(alts[i]) == 1 and len(alts[j]) == 1 and str(alts[i][0][0]) in _SINGLE and str(alts[j][0][0]) in _SINGLE and False):
                                        found.append(f"repeated alternatives that can both start with {sorted(ci)[:3]!r}")
                visit(body)
            elif nm == "SUBPATTERN":
                visit(list(av[3]))
            elif nm == "BRANCH":
                for alt in av[1]:
                    visit(list(alt))
            elif nm in ("ASSERT", "ASSERT_NOT"):
                visit(list(av[1]))
            elif nm == "ATOMIC_GROUP":
                visit(list(av))

    visit(list(tree))
    return found


def native_regex_hang(w=None, limit=8):
    """native replay: load adversarial sources (an unterminated literal / run followed by n more characters) in a
    subprocess with a time limit; the regex engine cannot be interrupted from Python"""
    import subprocess
    cfg = (w or {}).get("config", "default") if isinstance(w, dict) else "default"
    if cfg not in CONFIGS:
        cfg = "default"
    env = make_env(cfg)
    vs, bs, be = env.variable_start_string, env.block_start_string, env.block_end_string
    runs = ["a" * 40, "1" * 40, "1_" * 30, " " * 60, "a " * 30, "\\" * 31, "ab" * 30, "0x" + "f_" * 30, "1.1" * 20, "é" * 40, "a\\" * 25]
    srcs = []
    for r in runs:
        srcs += [f"{vs} \"{r}", f"{vs} '{r}", f"{vs} {r}!", f"{bs} if '{r} {be}x", f"{bs} raw {be}{r}", f"{r}{bs}- raw"]
    code = ("import sys, json, jinja2\n"
            "from jinja2.exceptions import TemplateSyntaxError\n"
            "kw, srcs = json.loads(sys.stdin.read())\n"
            "env = jinja2.Environment(**kw)\n"
            "for i, s in enumerate(srcs):\n"
            "    print(i, flush=True)\n"
            "    try:\n"
            "        env.from_string(s)\n"
            "    except TemplateSyntaxError:\n"
            "        pass\n"
            "    except Exception as ex:\n"
            "        print('EXC', type(ex).__name__, flush=True)\n"
            "print('END', flush=True)\n")
    import json as _json
    t0 = time.time()
    from contracts.c01_fuzz import run_cpu_limited
    status, out, err = run_cpu_limited([sys.executable, "-c", code], _json.dumps([CONFIGS[cfg], srcs]), limit + 4)
    if status != "ok" or "END" not in (out or ""):
        nums = [int(x) for x in (out or "").split() if x.isdigit()]
        i = nums[-1] if nums else 0
        return (True, f"config {cfg}: loading {srcs[i][:50]!r} ({len(srcs[i])} characters) did not finish within {limit} s of CPU time ({status})")
    return (False, f"{len(srcs)} adversarial sources load or fail in {time.time() - t0:.1f} s")


def replay_regex(w):
    if isinstance(w, dict) and w.get("kind") == "regex-hang":
        return native_regex_hang(w)
    return native_lexer_search(w)


def regex_facts(cfg):
    def run(task, tier, seed):
        lx = real_lexer(cfg)
        rs = []

        def row(name, ok, detail="", undecided=False):
            status = "discharged" if ok else ("unknown" if undecided else "refuted")
            rs.append(Res(f"C01.regex.{cfg}.{name}", status, "re._parser", 0, detail, "regex",
                          None if ok else {"config": cfg, "fact": name}))

        keys = set(lx.rules)
        row("states.root_present", "root" in keys, f"rule table states: {sorted(keys)}")
        for state, rules in lx.rules.items():
            for i, rule in enumerate(rules):
                f = facts(rule.pattern)
                rid = f"{state}[{i}]"
                if f.error:
                    row(f"{rid}.structure", False, f"participation analysis: {f.error}", undecided=True)
                    continue
                toks = rule.tokens
                cmd = rule.command
                # R2/R3: a rule that does not pop consumes at least one character
                if cmd != "#pop" and not (isinstance(toks, tuple) and any(isinstance(t, L.Failure) for t in toks)):
                    row(f"{rid}.minwidth", f.minw >= 1, f"pattern {rule.pattern.pattern[:60]!r} has minimum width {f.minw}; command {cmd!r}")
                if cmd == "#pop":
                    row(f"{rid}.pop_not_root", state != "root", "a #pop rule in the root state would empty the stack")
                elif cmd == "#bygroup":
                    names = set(f.groupindex)
                    row(f"{rid}.bygroup_states", names <= keys and "root" not in names and bool(names),
                        f"named groups {sorted(names)} must all be states of the rule table")
                    # R1: exactly one named group participates in every match
                    named = set(f.groupindex.values())
                    ok = all(len(sh & named) == 1 for sh in f.shapes)
                    row(f"{rid}.one_named", ok, f"participation shapes {[sorted(s) for s in f.shapes][:8]}")
                elif cmd is not None:
                    row(f"{rid}.state_known", cmd in keys, f"pushes state {cmd!r}")
                if isinstance(toks, tuple):
                    for t in toks:
                        if isinstance(t, L.Failure):
                            row(f"{rid}.failure_class", isinstance(t.error_class, type) and issubclass(t.error_class, TemplateSyntaxError),
                                f"Failure.error_class = {t.error_class!r}")
                    if not any(isinstance(t, L.Failure) for t in toks):
                        plain = [j for j, t in enumerate(toks) if t != "#bygroup"]
                        alw = f.always()
                        row(f"{rid}.groups_participate", all((j + 1) in alw for j in plain) and f.ngroups >= len(toks),
                            f"token tuple {toks!r} reads groups {[j + 1 for j in plain]}; groups set in every match: {sorted(alw)}")
                    if isinstance(toks, L.OptionalLStrip):
                        # strip sign: groups()[2::2] must contain a non-None entry in every match
                        ok = all(any((g in sh) for g in range(3, f.ngroups + 1, 2)) for sh in f.shapes) and 1 in f.always()
                        row(f"{rid}.strip_sign", ok, "every match sets the text group and one of the groups 3,5,7,...")
        # termination of the matcher itself: no compiled lexer regex has an ambiguous nested quantifier
        seen_pat = {}
        for state, rules in lx.rules.items():
            for i, rule in enumerate(rules):
                seen_pat.setdefault(id(rule.pattern), (f"{state}[{i}]", rule.pattern))
        for nm_, pat in (("newline_re", L.newline_re), ("whitespace_re", L.whitespace_re), ("string_re", L.string_re), ("integer_re", L.integer_re),
                         ("float_re", L.float_re), ("name_re", L.name_re), ("operator_re", L.operator_re)):
            seen_pat[id(pat)] = (nm_, pat)
        for rid, pat in sorted(seen_pat.values(), key=lambda x: x[0]):
            try:
                amb = ambiguous_nested_repeats(pat)
            except FactUnknown as ex:
                row(f"{rid}.no_ambiguous_nested_repeat", False, f"backtracking analysis: {ex}", undecided=True)
                continue
            row(f"{rid}.no_ambiguous_nested_repeat", not amb,
                f"pattern {pat.pattern[:70]!r}: " + ("; ".join(amb[:2]) if amb else "every nested repeat is separated from the next iteration by a distinguishing character"))
            if amb:
                rs[-1].witness["kind"] = "regex-hang"
        # operator_re matches exactly the keys of `operators`
        lits = literal_alternatives(L.operator_re)
        row("operator_re.keys", lits is not None and lits == set(L.operators),
            f"operator_re alternatives {sorted(lits or [])[:40]} vs operators table keys")
        row("ignored_tokens", L.ignored_tokens <= {L.TOKEN_COMMENT_BEGIN, L.TOKEN_COMMENT, L.TOKEN_COMMENT_END, L.TOKEN_WHITESPACE,
                                                    L.TOKEN_LINECOMMENT_BEGIN, L.TOKEN_LINECOMMENT_END, L.TOKEN_LINECOMMENT},
            f"ignored_tokens = {sorted(L.ignored_tokens)}")
        return rs

    return run


# ------------------------------------------------------------------------------------------------
# abstract match objects
# ------------------------------------------------------------------------------------------------

class _Match:
    """abstract re.Match"""


class _PatMethod:
    """bound method of a real compiled pattern"""

    def __init__(self, pattern, name):
        self.pattern = pattern
        self.name = name
        self.__name__ = f"Pattern.{name}"

    def __call__(self, *a, **k):  # pragma: no cover
        raise RuntimeError("abstract")


class _SplitResult:
    pass


def install_builtins(I):
    """enumerate / zip / range over sequences of concrete length (elements may be symbolic)"""

    def enumerate_spec(I_, st, args, kwargs, node):
        items = I_.iter_concrete(st, args[0], node)
        start = args[1] if len(args) > 1 else kwargs.get("start", 0)
        return [(st, tuple((start + i, x) for i, x in enumerate(items)))]

    def zip_spec(I_, st, args, kwargs, node):
        cols = [I_.iter_concrete(st, a, node) for a in args]
        return [(st, tuple(zip(*cols)))]

    def range_spec(I_, st, args, kwargs, node):
        if all(isinstance(a, int) for a in args):
            return [(st, tuple(range(*args)))]
        raise Unsupported("range() of a symbolic bound", node)

    # `x is None` for a symbolic str/int/bool x is False (a value of that type is never another type's singleton)
    if not getattr(I, "_c01_identical", False):
        base_identical = I.identical
        pytype = {"str": str, "int": int, "bool": bool}

        def identical(st, a, b):
            for x, y in ((a, b), (b, a)):
                if isinstance(x, Sym) and x.k in pytype and not isinstance(y, (Sym, Ref, BoundMethod, SSeq, Exc)) and not isinstance(y, pytype[x.k]):
                    return False
            return base_identical(st, a, b)

        I.identical = identical
        I._c01_identical = True

    I.specs.setdefault(("fn", id(enumerate)), enumerate_spec)
    I.specs.setdefault(("fn", id(zip)), zip_spec)
    I.specs.setdefault(("fn", id(range)), range_spec)


def install_re(I, use_shapes=True):
    """`re` dependency specs over the facts of the real patterns"""
    cache = {}
    install_builtins(I)

    def attr_hook(I_, st, obj, name, node):
        if isinstance(obj, re.Pattern) and name in ("match", "fullmatch", "split", "sub", "search"):
            key = (id(obj), name)
            if key not in cache:
                pm = _PatMethod(obj, name)
                cache[key] = pm
                I_.specs[("fn", id(pm))] = pat_call(pm)
            return [(st, cache[key])]
        return None

    prev = I.attr_hook

    def chained(I_, st, obj, name, node):
        r = attr_hook(I_, st, obj, name, node)
        if r is not None:
            return r
        return prev(I_, st, obj, name, node) if prev else None

    I.attr_hook = chained

    def pat_call(pm):
        def h(I_, st, args, kwargs, node):
            models.used(f"re.Pattern.{pm.name}")
            if pm.name in ("match", "fullmatch"):
                f = facts(pm.pattern)
                src = args[0]
                pos = args[1] if len(args) > 1 else 0
                s_none = st.fork()
                s_none.trace.append(A.Event("call", "re.match", [pm.pattern, pos], {}, None))
                n = z3.Length(to_term(src, "str"))
                end = fresh("m_end", "int")
                text = fresh("m_text", "str")
                p = to_term(pos, "int")
                st.assume(end.t >= p + f.minw, end.t <= n, z3.Length(text.t) == end.t - p, p >= 0)
                if f.maxw is not None:
                    st.assume(end.t <= p + f.maxw)
                if pm.name == "fullmatch":
                    st.assume(end.t == n)
                m = st.alloc(HObj(_Match, fields={"_pattern": pm.pattern, "_start": pos, "_end": end, "_text": text, "_shape_groups": None}, path="m"))
                st.trace.append(A.Event("call", "re.match", [pm.pattern, pos], {}, m))
                from pyvc.smt import feasible
                out = [(s_none, None)]
                if feasible(st.pc, I_.feas_timeout):
                    out.append((st, m))
                return out
            if pm.name == "split":
                return [(st, st.alloc(HObj(_SplitResult, path="split")))]
            if pm.name == "sub":
                return [(st, fresh("re_sub", "str"))]
            raise Unsupported(f"re.Pattern.{pm.name}", node)
        return h

    def materialise(I_, st, mref):
        """fork over the participation shapes of the pattern (once per match object)"""
        h = st.get(mref)
        if h.fields["_shape_groups"] is not None:
            return [(st, h.fields["_shape_groups"])]
        pat = h.fields["_pattern"]
        f = facts(pat)
        if f.shapes is None:
            raise Unsupported(f"group participation of {pat.pattern[:40]!r} unknown: {f.error}")
        out = []
        for sh in f.shapes:
            s = st.fork()
            vals = []
            for g in range(1, f.ngroups + 1):
                if g in sh:
                    v = fresh(f"g{g}", "str")
                    s.assume(z3.Length(v.t) <= z3.Length(h.fields["_text"].t))
                    vals.append(v)
                else:
                    vals.append(None)
            s.get(mref).fields["_shape_groups"] = tuple(vals)
            s.note(f"match shape {sorted(sh)}")
            out.append((s, tuple(vals)))
        return out

    def m_groups(I_, st, args, kwargs, node):
        return materialise(I_, st, args[0])

    def m_groupdict(I_, st, args, kwargs, node):
        out = []
        for s, vals in materialise(I_, st, args[0]):
            pat = s.get(args[0]).fields["_pattern"]
            d = {name: vals[idx - 1] for name, idx in pat.groupindex.items()}
            out.append((s, s.alloc(HDict(items=d))))
        return out

    def m_group(I_, st, args, kwargs, node):
        if len(args) == 1 or args[1] == 0:
            return [(st, st.get(args[0]).fields["_text"])]
        out = []
        for s, vals in materialise(I_, st, args[0]):
            g = args[1]
            if isinstance(g, str):
                g = s.get(args[0]).fields["_pattern"].groupindex.get(g)
            if not isinstance(g, int) or not (1 <= g <= len(vals)):
                out.append((s, Raised(Exc(IndexError, ("no such group",), origin=getattr(node, "lineno", None)))))
            else:
                out.append((s, vals[g - 1]))
        return out

    def m_end(I_, st, args, kwargs, node):
        return [(st, st.get(args[0]).fields["_end"])]

    def m_start(I_, st, args, kwargs, node):
        return [(st, st.get(args[0]).fields["_start"])]

    I.specs["_Match.groups"] = m_groups
    I.specs["_Match.groupdict"] = m_groupdict
    I.specs["_Match.group"] = m_group
    I.specs["_Match.end"] = m_end
    I.specs["_Match.start"] = m_start

    def next_obj(I_, st, args, kwargs, node):
        it = args[0]
        if isinstance(it, tuple):  # eagerly evaluated generator expression
            if it:
                return [(st, it[0])]
            if len(args) > 1:
                return [(st, args[1])]
            return [(st, Raised(Exc(StopIteration, (), origin=getattr(node, "lineno", None))))]
        return None

    I.specs["next_obj"] = next_obj

    def getslice_obj(I_, st, args, kwargs, node):
        obj, sl = args
        if isinstance(obj, Ref) and isinstance(st.get(obj), HObj) and st.get(obj).cls is _SplitResult:
            # pattern.split(s)[::2] with one capturing group: the pieces between separators; never empty (re docs)
            lst = A.alist(st, "lines", "str")
            st.assume(st.get(lst).n >= 1)
            return [(st, lst)]
        return None

    I.specs["getslice_obj"] = getslice_obj
    I.specs["_SplitResult.__getitem__"] = lambda I_, st, args, kwargs, node: getslice_obj(I_, st, [args[0], (None, None, None)], {}, node)

    def str_join(I_, st, args, kwargs, node):
        return [(st, fresh("joined", "str"))]

    I.specs["str.join"] = str_join


def install_failures(I, lexer):
    I.inline.add("jinja2.lexer:Failure.__call__")
    for rules in lexer.rules.values():
        for rule in rules:
            if isinstance(rule.tokens, tuple):
                for t in rule.tokens:
                    if isinstance(t, L.Failure):
                        def h(I_, st, args, kwargs, node, _t=t):
                            ref = st.alloc(HObj(L.Failure, fields={"message": _t.message, "error_class": _t.error_class}))
                            return I_.call_repo_function(st, L.Failure.__call__, [ref] + list(args), kwargs, node)
                        I.specs[("fn", id(t))] = h


# ------------------------------------------------------------------------------------------------
# tokeniter: loop-body execution
# ------------------------------------------------------------------------------------------------

def tokeniter_parts():
    fn = extract.resolve("jinja2.lexer:Lexer.tokeniter")
    node, module = extract.function_ast(fn)
    idx = [i for i, s in enumerate(node.body) if isinstance(s, ast.While)]
    if len(idx) != 1 or idx[0] != len(node.body) - 1:
        raise Unsupported("Lexer.tokeniter is no longer `<prologue>; while True: <body>`", node)
    w = node.body[idx[0]]
    if not (isinstance(w.test, ast.Constant) and w.test.value is True) or w.orelse:
        raise Unsupported("tokeniter main loop is not `while True`", w)
    return node, module, node.body[:idx[0]], w


def lexer_obj(st, lx):
    return st.alloc(HObj(L.Lexer, fields={"rules": lx.rules, "lstrip_blocks": lx.lstrip_blocks,
                                           "newline_sequence": lx.newline_sequence,
                                           "keep_trailing_newline": lx.keep_trailing_newline}, path="self"), initial=True)


class LoopHead:
    """the loop-head invariant of tokeniter for one lexer state, as a symbolic state"""

    def __init__(self, st, lx, state):
        self.source = sym("source", "str")
        self.n = z3.Length(self.source.t)
        self.pos = sym("pos", "int")
        self.lineno = sym("lineno", "int")
        st.assume(self.pos.t >= 0, self.pos.t <= self.n, self.lineno.t >= 1)
        self.stack_items = ["root"] if state == "root" else ["root", state]
        self.stack = st.alloc(HList(items=list(self.stack_items)), initial=True)
        self.balancing = A.alist(st, "balancing_stack", "str")
        nls = sym("newlines_stripped", "int")
        st.assume(nls.t >= 0)
        self.locals = {
            "self": lexer_obj(st, lx), "source": self.source, "name": sym("name", "obj"), "filename": sym("filename", "obj"),
            "state": None, "pos": self.pos, "lineno": self.lineno, "stack": self.stack,
            "statetokens": lx.rules[state], "source_length": Sym(self.n, "int"), "balancing_stack": self.balancing,
            "newlines_stripped": nls, "line_starting": sym("line_starting", "bool"),
        }


def run_loop_body(cfg, state):
    """-> (head, [(state, ctl)], I) one execution of the real `while True` body"""
    from pyvc.engine import Interp
    lx = real_lexer(cfg)
    node, module, prologue, w = tokeniter_parts()
    I = Interp()
    install_re(I)
    install_failures(I, lx)
    st = State()
    head = LoopHead(st, lx, state)
    fid = st.new_frame(dict(head.locals))
    fr = Frame(fid, [], module, "Lexer.tokeniter", set(), fn_node=node)
    I.depth = 1
    outs = I.exec_block(w.body, st, fr)
    return head, [(s, c, s.frames[fid]) for s, c in outs], I, lx


def _cls_ok(exc):
    return exc.cls is not None and issubclass(exc.cls, TemplateSyntaxError)


def tokeniter_state_task(cfg, state):
    def run(task, tier, seed):
        t0 = time.time()
        head, outs, I, lx = run_loop_body(cfg, state)
        rs = []
        n_raise = n_cont = n_ret = 0
        summaries = []
        for i, (s, c, loc) in enumerate(outs):
            r = check_sat(s.pc, 3000, seed, use_cvc5=False)
            if r.status == "unsat":
                continue
            visible = [(y[1] if isinstance(y, tuple) and len(y) == 3 else None) for y in s.yields]
            if c.kind == "raise":
                n_raise += 1
                nm = f"C01.tokeniter.raises.{cfg}.{state}#p{i}"
                if _cls_ok(c.value):
                    rs.append(Res(nm, "discharged", "pyvc-path", 0, f"raises {c.value!r}", "path"))
                else:
                    wit = {"config": cfg, "state": state, "raises": repr(c.value), "line": c.value.origin,
                           "notes": list(s.notes)[-4:]}
                    status = "refuted" if r.status == "sat" else "unknown"
                    rs.append(Res(nm, status, "z3", r.seconds, f"in lexer state {state!r} the loop body can raise {c.value!r} "
                                  f"(source line {c.value.origin}); path notes {list(s.notes)[-3:]}", "path", wit))
                continue
            if c.kind == "return":
                n_ret += 1
                rs.append(Res(f"C01.tokeniter.raises.{cfg}.{state}#p{i}", "discharged", "pyvc-path", 0, "generator returns", "path"))
                continue
            if c.kind not in ("ok", "continue"):
                rs.append(Res(f"C01.tokeniter.raises.{cfg}.{state}#p{i}", "error", "pyvc", 0, f"unexpected completion {c.kind}", "path"))
                continue
            n_cont += 1
            # invariant re-established + variant decreases
            nm = f"C01.tokeniter.terminates.{cfg}.{state}#p{i}"
            stack2 = loc.get("stack")
            h2 = s.get(stack2) if isinstance(stack2, Ref) else None
            if h2 is None or not h2.concrete or not all(isinstance(x, str) for x in h2.items):
                rs.append(Res(nm, "unknown", "pyvc", 0, "state stack is not a concrete list of state names after the iteration", "path"))
                continue
            items2 = list(h2.items)
            shape_ok = (items2 == ["root"]) or (len(items2) == 2 and items2[0] == "root" and items2[1] in lx.rules and items2[1] != "root")
            st_ok = shape_ok and loc.get("statetokens") is lx.rules[items2[-1]]
            summaries.append({"yields": visible, "next": items2[-1] if shape_ok else None})
            if not st_ok:
                rs.append(Res(nm, "refuted", "pyvc-path", 0, f"after an iteration in state {state!r} the stack is {items2!r} and statetokens "
                              f"{'is' if loc.get('statetokens') is lx.rules.get(items2[-1] if items2 else None) else 'is not'} rules[stack[-1]]",
                              "path", {"config": cfg, "state": state, "stack": items2}))
                continue
            pos2 = to_term(loc["pos"], "int")
            d1, d2 = len(head.stack_items), len(items2)
            dec = z3.Or(pos2 > head.pos.t, z3.And(pos2 == head.pos.t, z3.BoolVal(d2 < d1)))
            inv = z3.And(pos2 >= 0, pos2 <= head.n, to_term(loc["source_length"], "int") == head.n,
                         to_term(loc["source"], "str") == head.source.t)
            rr = check_sat(list(s.pc) + [z3.Not(z3.And(dec, inv))], 8000, seed)
            if rr.status == "unsat":
                rs.append(Res(nm, "discharged", rr.backend, rr.seconds, "", "path"))
            elif rr.status == "sat":
                wit = {"config": cfg, "state": state, "pos": model_value(rr.model, head.pos.t), "pos_after": model_value(rr.model, pos2),
                       "stack_after": items2, "notes": list(s.notes)[-4:]}
                rs.append(Res(nm, "refuted", rr.backend, rr.seconds,
                              f"an iteration in state {state!r} can continue with pos {wit['pos']} -> {wit['pos_after']} and stack {items2!r} "
                              f"(no progress): notes {list(s.notes)[-3:]}", "path", wit))
            else:
                rs.append(Res(nm, "unknown", rr.backend, rr.seconds, rr.reason, "path"))
        task.summaries = summaries
        if n_cont == 0 or n_raise + n_ret == 0:
            rs.append(Res(f"C01.tokeniter.raises.{cfg}.{state}.paths", "error", "pyvc", 0,
                          f"implausible path set: {n_cont} continuing, {n_raise} raising, {n_ret} returning", "path"))
        return rs

    return run


# ---- native search used as replay for structural refutations --------------------------------------

def fragments(cfg):
    env = make_env(cfg)
    fr = [env.block_start_string, env.block_end_string, env.variable_start_string, env.variable_end_string,
          env.comment_start_string, env.comment_end_string, "-", "+", " ", "\n", "raw", "endraw", "a", "1", "'", '"', "(", ")",
          "[", "]", "{", "}", ".", "\\", "\r", "x y", "é", "1.5e3", "0x1f"]
    if env.line_statement_prefix:
        fr.append(env.line_statement_prefix)
    if env.line_comment_prefix:
        fr.append(env.line_comment_prefix)
    return env, fr


def native_lexer_search(w, budget=30000):
    """bounded native search for a source on which Lexer.tokeniter/wrap raises something that is not a
    TemplateSyntaxError (replay of structural refutations)"""
    import random
    cfg = w.get("config", "default") if isinstance(w, dict) else "default"
    if cfg not in CONFIGS:
        cfg = "default"
    env, fr = fragments(cfg)
    rnd = random.Random(1)
    lx = L.get_lexer(env)
    t0 = time.time()
    for k in range(budget):
        src = "".join(rnd.choice(fr) for _ in range(rnd.randint(1, 8)))
        try:
            for _ in lx.tokeniter(src, "t"):
                pass
        except TemplateSyntaxError:
            pass
        except BaseException as ex:  # noqa
            return (True, f"config {cfg}: tokeniter({src!r}) raised {type(ex).__name__}: {ex}")
        if time.time() - t0 > 60:
            break
    return (False, f"no failing input found among {k + 1} fragment strings (config {cfg})")


# ------------------------------------------------------------------------------------------------
# prologue
# ------------------------------------------------------------------------------------------------

def prologue_task(cfg):
    def run(task, tier, seed):
        from pyvc.engine import Interp
        lx = real_lexer(cfg)
        node, module, prologue, w = tokeniter_parts()
        rs = []
        for state in (None, "root", "variable", "block"):
            I = Interp()
            install_re(I)
            st = State()
            loc = {"self": lexer_obj(st, lx), "source": sym("source0", "str"), "name": sym("name", "obj"), "filename": sym("filename", "obj"),
                   "state": state}
            fid = st.new_frame(loc)
            fr = Frame(fid, [], module, "Lexer.tokeniter", set(), fn_node=node)
            I.depth = 1
            outs = I.exec_block(prologue, st, fr)
            for i, (s, c) in enumerate(outs):
                nm = f"C01.tokeniter.prologue.{cfg}[state={state}]#p{i}"
                if check_sat(s.pc, 2000, seed, use_cvc5=False).status == "unsat":
                    continue
                if c.kind == "raise":
                    rs.append(Res(nm, "refuted", "pyvc-path", 0, f"the prologue raises {c.value!r} for state={state!r}", "path",
                                  {"config": cfg, "state_arg": state}))
                    continue
                l2 = s.frames[fid]
                stack = s.get(l2["stack"]) if isinstance(l2.get("stack"), Ref) else None
                want = ["root"] if state in (None, "root") else ["root", state + "_begin"]
                ok = (stack is not None and stack.concrete and stack.items == want and l2.get("pos") == 0 and l2.get("lineno") == 1
                      and want[-1] in lx.rules and l2.get("statetokens") is lx.rules[want[-1]]
                      and isinstance(l2.get("balancing_stack"), Ref) and s.get(l2["balancing_stack"]).items == []
                      and l2.get("newlines_stripped") == 0)
                cond = to_term(l2["source_length"], "int") == z3.Length(to_term(l2["source"], "str")) if ok else None
                if ok:
                    r = check_sat(list(s.pc) + [z3.Not(cond)], 5000, seed)
                    ok = r.status == "unsat"
                rs.append(Res(nm, "discharged" if ok else "refuted", "pyvc-path", 0,
                              "" if ok else f"loop-head invariant not established: stack={getattr(stack, 'items', None)} pos={l2.get('pos')} lineno={l2.get('lineno')}",
                              "path", None if ok else {"config": cfg, "state_arg": state}))
        if not rs:
            rs.append(Res(f"C01.tokeniter.prologue.{cfg}.paths", "error", "pyvc", 0, "no path through the prologue", "path"))
        return rs

    return run


# ------------------------------------------------------------------------------------------------
# token automaton (C01.tokeniter.states)
# ------------------------------------------------------------------------------------------------

OUTSIDE_OK = {"data", "variable_begin", "block_begin"}


def wrap_visible(tok):
    """what Lexer.wrap does to a raw token type: None = dropped, else the type the parser sees (documented mapping)"""
    if tok in L.ignored_tokens or tok in (L.TOKEN_RAW_BEGIN, L.TOKEN_RAW_END):
        return None
    if tok == L.TOKEN_LINESTATEMENT_BEGIN:
        return L.TOKEN_BLOCK_BEGIN
    if tok == L.TOKEN_LINESTATEMENT_END:
        return L.TOKEN_BLOCK_END
    return tok


def tokeniter_config_task(cfg):
    """all lexer states of one configuration + the token automaton built from their path summaries"""
    def run(task, tier, seed):
        lx = real_lexer(cfg)
        rs = []
        trans = {}
        for state in lx.rules:
            t = FnTask(PROP, "x", None)
            rs += tokeniter_state_task(cfg, state)(t, tier, seed)
            trans[state] = getattr(t, "summaries", [])
        # product exploration: (lexer state, last visible token class)
        start = ("root", "START")
        seen = {start}
        todo = [start]
        bad = []
        while todo:
            state, last = todo.pop()
            for tr in trans.get(state, []):
                cur = last
                for raw in tr["yields"]:
                    if raw is None:
                        bad.append((state, last, "non-constant token type"))
                        continue
                    v = wrap_visible(raw)
                    if v is None:
                        continue
                    if cur in ("START", "data", "variable_end", "block_end") and v not in OUTSIDE_OK:
                        bad.append((state, cur, v))
                    cur = v
                nxt = (tr["next"], cur)
                if tr["next"] is not None and nxt not in seen:
                    seen.add(nxt)
                    todo.append(nxt)
        ok = not bad
        rs.append(Res(f"C01.tokeniter.states.{cfg}", "discharged" if ok else "refuted", "automaton", 0,
                      f"{len(seen)} reachable (state, last token) pairs" if ok else f"token {bad[0][2]!r} can follow {bad[0][1]!r} (lexer state {bad[0][0]!r})",
                      "path", None if ok else {"config": cfg, "after": bad[0][1], "token": bad[0][2], "kind": "states"}))
        return rs

    return run


def replay_tokeniter(w):
    if isinstance(w, dict) and w.get("kind") == "states":
        return native_subparse_search(w)
    return native_lexer_search(w)


def native_subparse_search(w, budget=20000):
    """native search for a source whose parse hits the `internal parsing error` assertion"""
    import random
    cfg = w.get("config", "default") if isinstance(w, dict) else "default"
    if cfg not in CONFIGS:
        cfg = "default"
    env, fr = fragments(cfg)
    rnd = random.Random(2)
    for k in range(budget):
        src = "".join(rnd.choice(fr) for _ in range(rnd.randint(1, 8)))
        try:
            env.parse(src)
        except TemplateSyntaxError:
            pass
        except AssertionError as ex:
            return (True, f"config {cfg}: parse({src!r}) raised AssertionError: {ex}")
        except BaseException as ex:  # noqa
            return (True, f"config {cfg}: parse({src!r}) raised {type(ex).__name__}: {ex}")
    return (False, f"no failing input found among {budget} fragment strings (config {cfg})")


# ------------------------------------------------------------------------------------------------
# wrap
# ------------------------------------------------------------------------------------------------

INT_MAX_DIGITS = sys.get_int_max_str_digits() if hasattr(sys, "get_int_max_str_digits") else 0


def raw_token_types(lx):
    out = set()
    for rules in lx.rules.values():
        for rule in rules:
            toks = rule.tokens if isinstance(rule.tokens, tuple) else (rule.tokens,)
            for t in toks:
                if isinstance(t, str) and t != "#bygroup":
                    out.add(t)
            out |= set(rule.pattern.groupindex)
    return sorted(out)


def float_re_ascii_only():
    """regex fact: can float_re match only ASCII digits?  (re.ASCII flag, or no \\d / \\w category in the pattern)"""
    p = L.float_re
    if p.flags & re.ASCII:
        return True
    tree = sre_parse.parse(p.pattern, p.flags)

    def has_cat(items):
        for op, av in items:
            nm = str(op)
            if nm == "CATEGORY":
                return True
            if nm == "IN":
                if has_cat(av):
                    return True
            elif nm == "SUBPATTERN":
                if has_cat(list(av[3])):
                    return True
            elif nm == "BRANCH":
                if any(has_cat(list(a)) for a in av[1]):
                    return True
            elif nm in ("MAX_REPEAT", "MIN_REPEAT", "POSSESSIVE_REPEAT"):
                if has_cat(list(av[2])):
                    return True
            elif nm in ("ASSERT", "ASSERT_NOT"):
                if has_cat(list(av[1])):
                    return True
        return False

    return not has_cat(list(tree))


class WrapVC(VC):
    """One generic iteration of the real `for lineno, token, value_str in stream:` body of Lexer.wrap, for a raw token
    of a given (concrete) type - every type the rule tables can yield - plus an arbitrary other string."""
    prop = PROP
    target = "jinja2.lexer:Lexer.wrap"
    timeout_quick = 8000

    def __init__(self, tok):
        self.tok = tok
        VC.__init__(self, PROP, f"C01.wrap.raises[{tok if tok is not None else 'other'}]")

    def configure(self, I):
        install_re(I)
        I.specs["Lexer._normalize_newlines"] = A.abstract_fn("_normalize_newlines", returns="str")

        def str_encode(I_, st, args, kwargs, node):
            return A.abstract_fn("str.encode", returns="obj", raises=[("any", Exception)])(I_, st, args, kwargs, node)

        I.specs["str.encode"] = str_encode

        def method_obj(I_, st, args, kwargs, node):
            o, name = args[0], args[1]
            if name == "decode" and "from:str.encode" in o.tags:
                return A.abstract_fn("bytes.decode", returns="str", raises=[("any", Exception)])(I_, st, args, kwargs, node)
            return None

        I.specs["method_obj"] = method_obj

        def getattr_obj(I_, st, args, kwargs, node):
            o, name = args
            if name == "decode" and "from:str.encode" in o.tags:
                return [(st, BoundMethod(o, name))]
            return None

        I.specs["getattr_obj"] = getattr_obj

        def str_split(I_, st, args, kwargs, node):
            lst = A.alist(st, "parts", "str")
            st.assume(st.get(lst).n >= 1)  # str.split(sep) returns at least one piece (documented)
            return [(st, lst)]

        I.specs["str.split"] = str_split
        c = self

        def int_obj(I_, st, args, kwargs, node):
            """int(s, 0) for a string matching integer_re with the underscores removed: the value, or ValueError when
            a decimal literal exceeds the interpreter's digit limit (resource clause A5; sys.get_int_max_str_digits)"""
            s = args[0]
            if not (isinstance(s, Sym) and s.k == "str" and len(args) == 2 and args[1] == 0):
                return None
            models.used("int(str, 0)")
            out = []
            if INT_MAX_DIGITS:
                s2 = st.fork()
                c.digits = z3.Int("decimal_digits")
                s2.assume(c.digits > INT_MAX_DIGITS)
                out.append((s2, Raised(Exc(ValueError, ("Exceeds the limit for integer string conversion",), tag="int-digit-limit",
                                           origin=getattr(node, "lineno", None)))))
            out.append((st, fresh("int_value", "int")))
            return out

        I.specs["int_obj"] = int_obj
        from ast import literal_eval

        def literal_eval_spec(I_, st, args, kwargs, node):
            """ast.literal_eval of a string matching float_re (underscores removed): a float (overflow gives inf, no
            exception) when the digits are ASCII; Python's literal grammar knows no other digits, so a match of the digit class on
            a non-ASCII decimal digit makes it raise SyntaxError (documented: ValueError / SyntaxError on malformed input)"""
            models.used("ast.literal_eval[float literal]")
            out = []
            if not float_re_ascii_only():
                s2 = st.fork()
                out.append((s2, Raised(Exc(SyntaxError, ("invalid character / invalid decimal literal",), tag="float-unicode-digits",
                                           origin=getattr(node, "lineno", None)))))
            out.append((st, fresh("float_value", "obj")))
            return out

        I.specs[("fn", id(literal_eval))] = literal_eval_spec

        def token_new(I_, st, args, kwargs, node):
            if len(args) != 3 or kwargs:
                return [(st, Raised(Exc(TypeError, ("Token() takes lineno, type, value",), origin=getattr(node, "lineno", None))))]
            return [(st, st.alloc(HObj(L.Token, fields={"lineno": args[0], "type": args[1], "value": args[2]}, path="token")))]

        I.specs[("fn", id(L.Token))] = token_new

    def paths(self, I):
        from pyvc.contract import Outcome
        self.configure(I)
        fn = extract.resolve(self.target)
        node, module = extract.function_ast(fn)
        loops = [s for s in node.body if isinstance(s, ast.For)]
        if len(loops) != 1 or len([s for s in node.body if not (isinstance(s, ast.Expr) and isinstance(s.value, ast.Constant))]) != 1:
            raise Unsupported("Lexer.wrap is no longer a single `for ... in stream` loop", node)
        loop = loops[0]
        if not (isinstance(loop.target, ast.Tuple) and [getattr(e, "id", None) for e in loop.target.elts] == ["lineno", "token", "value_str"]) or loop.orelse:
            raise Unsupported("Lexer.wrap loop header changed", loop)
        lx = real_lexer("line")
        st = State()
        self.value_str = sym("value_str", "str")
        if self.tok is not None:
            tok = self.tok
        else:
            tok = sym("token", "str")
            st.assume(*[tok.t != z3.StringVal(k) for k in raw_token_types(lx)])
        if self.tok == L.TOKEN_OPERATOR:
            # tokeniter yields operator tokens only for matches of operator_re = the keys of `operators` (C01.regex.*.operator_re.keys)
            st.assume(z3.Or(*[self.value_str.t == z3.StringVal(k) for k in sorted(L.operators)]))
        self.lineno = sym("lineno", "int")
        loc = {"self": lexer_obj(st, lx), "stream": sym("stream", "obj"), "name": sym("name", "obj"), "filename": sym("filename", "obj"),
               "lineno": self.lineno, "token": tok, "value_str": self.value_str}
        pre = st.fork()
        fid = st.new_frame(loc)
        fr = Frame(fid, [], module, "Lexer.wrap", set(), fn_node=node)
        I.depth = 1
        outs = []
        for i, (s, c) in enumerate(I.exec_block(loop.body, st, fr)):
            if c.kind == "raise":
                outs.append(Outcome(s, "raise", c.value, i))
            elif c.kind in ("ok", "continue"):
                outs.append(Outcome(s, "return", None, i))
            else:
                raise Unsupported(f"{c.kind} out of the wrap loop body", loop)
        return pre, outs

    def p_raises(self, pre, out):
        if not out.raised:
            return True
        return out.value.cls is not None and issubclass(out.value.cls, TemplateSyntaxError)

    def p_name_identifier(self, pre, out):
        """a name token is handed to the parser only when its value is an identifier (W3 needs it)"""
        if self.tok != L.TOKEN_NAME or out.raised:
            return None
        isid = z3.Function("str.isidentifier", z3.StringSort(), z3.BoolSort())
        conds = []
        for y in out.st.yields:
            f = getattr(out.st.get(y), "fields", {}) if isinstance(y, Ref) else {}
            v = f.get("value")
            if not (isinstance(v, Sym) and v.k == "str"):
                return False
            conds.append(isid(v.t))
        return z3.And(*conds) if conds else False

    def p_token_shape(self, pre, out):
        """what reaches the parser is a Token(lineno, type, value) with the documented type mapping"""
        if out.raised:
            return None
        want = wrap_visible(self.tok) if self.tok is not None else None
        ys = out.st.yields
        if self.tok is not None and want is None:
            return len(ys) == 0
        if len(ys) != 1 or not isinstance(ys[0], Ref):
            return False
        f = out.st.get(ys[0]).fields
        if f.get("lineno") is not self.lineno:
            return False
        if self.tok is None or self.tok in (L.TOKEN_OPERATOR, "keyword"):
            return True
        return f.get("type") == want

    posts = [("only_TemplateSyntaxError", p_raises), ("name_is_identifier", p_name_identifier), ("token_shape", p_token_shape)]

    def describe(self, out):
        return f"token type {self.tok!r}: " + VC.describe(self, out)

    def concretize(self, model, pre, out):
        n = None
        if getattr(self, "digits", None) is not None:
            n = model_value(model, self.digits)
        return {"token": self.tok, "raises": repr(out.value) if out.raised else None, "digits": n if isinstance(n, int) else None}

    def replay(self, w):
        return replay_wrap(w)

    def finding_key(self, res):
        w = res.witness or {}
        if w.get("token") == L.TOKEN_INTEGER and "ValueError" in str(w.get("raises")) and "int-digit-limit" in str(w.get("raises")):
            return "int-digit-limit"
        if w.get("token") == L.TOKEN_FLOAT and "SyntaxError" in str(w.get("raises")) and "float-unicode-digits" in str(w.get("raises")):
            return "float-unicode-digits"
        return f"{w.get('token')}:{w.get('raises')}"


def replay_wrap(w):
    tok = w.get("token")
    env = jinja2.Environment()
    cands = []
    if tok == L.TOKEN_INTEGER:
        n = w.get("digits") or (INT_MAX_DIGITS + 1)
        n = max(1, min(int(n), 200000))
        cands = ["{{ " + "1" * n + " }}", "{{ 0x" + "f" * n + " }}", "{{ 1_000 }}"]
    elif tok == L.TOKEN_FLOAT:
        cands = ["{{ 1e999 }}", "{{ 1.5 }}", "{{ 1_0.0_1e1_0 }}", "{{ 9" * 1 + "9" * 400 + ".0 }}", "{{ 1.5\u0663 }}", "{{ 1e\u0663 }}"]
    elif tok == L.TOKEN_STRING:
        cands = ["{{ '\\x' }}", "{{ '\\N{nope}' }}", "{{ '\\uD800' }}", "{{ 'é\\n' }}", "{{ '\\U99999999' }}"]
    elif tok == L.TOKEN_NAME:
        cands = ["{{ a٠ }}", "{{ ·x }}", "{{ x·y }}", "{{ ℘ }}"]
    else:
        cands = ["{{ a ; b }}", "{{ a = b }}", "{% raw %}x{% endraw %}", "{# c #}", "a\r\nb"]
    for src in cands:
        try:
            s = env._tokenize(src, "t", None)
            while not s.eos:
                next(s)
        except TemplateSyntaxError:
            continue
        except BaseException as ex:  # noqa
            return (True, f"tokenizing {src[:40]!r}{'...' if len(src) > 40 else ''} ({len(src)} chars) raised {type(ex).__name__}: {str(ex)[:120]}")
    return (False, f"no failing input among {len(cands)} candidate sources for token type {tok!r}")
